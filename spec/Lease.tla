-------------------------------- MODULE Lease --------------------------------
(* RFC 2131 section 3.1 / 4.3-4.4 and RFC 8415 section 18: the lease exchanges  *)
(* of nclient4 (DISCOVER/OFFER, REQUEST/ACK|NAK, renew, release) and nclient6    *)
(* (SOLICIT/ADVERTISE, REQUEST/REPLY, rapid commit), and the INFORM/ACK exchange  *)
(* of nclient4, on top of the SendAndRead                                         *)
(* contract established by Client.tla ("first datagram, in arrival order, that   *)
(* passes the transaction filter and the matcher, else no-response after the    *)
(* last try").  The environment is adversarial: after every transmission of the *)
(* client any replies may arrive, from any server, of any type (C13).            *)
EXTENDS Integers, Sequences, FiniteSets, TLC

CONSTANTS Proto,       \* 4 or 6
          Tries,       \* transmissions per SendAndRead
          MaxReplies,  \* replies per transmission
          Rapid,       \* DHCPv6: RapidSolicit
          Inform       \* DHCPv4: the one-exchange INFORM / ACK (RFC 2131 3.4) instead of the lease exchange

\* a reply: [t |-> type, sid |-> server id ("A", "B", "none", "AA": A's identifier followed by four more octets), ok |-> passes the transaction filter
\*           (decodable, right transaction id, BOOTREPLY for the client's hardware address), a |-> offered address]
R(t, sid, ok, a) == [t |-> t, sid |-> sid, ok |-> ok, a |-> a]
Replies4 == {R("offer", "A", TRUE, 1), R("offer", "B", TRUE, 2), R("offer", "none", TRUE, 3),
             R("ack", "A", TRUE, 1), R("ack", "B", TRUE, 2), R("ack", "none", TRUE, 1),
             R("nak", "A", TRUE, 0), R("nak", "B", TRUE, 0),
             R("ack", "AA", TRUE, 1), R("nak", "AA", TRUE, 0), \* a server identifier that only begins with A's (the option twice)
             R("decline", "A", TRUE, 1),                      \* a type the client never asks for
             R("offer", "A", FALSE, 1), R("ack", "A", FALSE, 1)}   \* wrong id / hw address / opcode / undecodable
Replies6 == {R("advertise", "A", TRUE, 1), R("advertise", "B", TRUE, 2), R("reply", "A", TRUE, 1), R("reply", "B", TRUE, 2),
             R("reconfigure", "A", TRUE, 0), R("advertise", "A", FALSE, 1), R("reply", "A", FALSE, 1)}
Replies == IF Proto = 4 THEN Replies4 ELSE Replies6

VARIABLES phase,    \* "first" (DISCOVER / SOLICIT sent), "second" (REQUEST sent), "done"
          try,      \* transmissions of the current SendAndRead so far
          txs,      \* what the client has transmitted: sequence of "first" / "second"
          inbox,    \* replies delivered since the last transmission
          offer,    \* the accepted OFFER / ADVERTISE (<<>> if none)
          final,    \* the accepting reply of the second exchange (<<>> if none)
          result,   \* "lease" | "nak" | "noresp" | "none"
          hist,     \* the script so far: one sequence of replies per transmission
          oi, fi    \* arrival numbers (1, 2, ... over the whole run) of the accepted offer / final reply; 0 = none
vars == <<phase, try, txs, inbox, offer, final, result, hist, oi, fi>>
RECURSIVE CountAll(_)
CountAll(h) == IF h = <<>> THEN 0 ELSE Len(Head(h)) + CountAll(Tail(h))

Init == /\ phase = "first" /\ try = 1 /\ txs = <<"first">> /\ inbox = <<>> /\ offer = <<>> /\ final = <<>>
        /\ result = "none" /\ hist = <<<<>>>> /\ oi = 0 /\ fi = 0

\* the server identifier a reply bears: an option 54 that is not four octets long is no identifier (C17: a malformed
\* value reads as absent)
Eff(sid) == IF sid = "AA" THEN "none" ELSE sid
\* matchers of the two exchanges
AcceptFirst(r) == r.ok /\ (IF Proto = 4 THEN (IF Inform THEN r.t = "ack" ELSE r.t = "offer")     \* INFORM: any server's ACK
                           ELSE IF Rapid THEN r.t \in {"advertise", "reply"} ELSE r.t = "advertise")
AcceptSecond(r) == r.ok /\ (IF Proto = 4 THEN r.t \in {"ack", "nak"} /\ Eff(r.sid) = Eff(offer[1].sid)    \* that server's ACK or NAK
                            ELSE TRUE)                                                           \* DHCPv6: paired by transaction id only

Deliver(r) ==
    /\ phase # "done" /\ Len(inbox) < MaxReplies
    /\ LET h1 == [hist EXCEPT ![Len(hist)] = Append(@, r)] IN
       IF phase = "first" /\ AcceptFirst(r)
       THEN IF (Proto = 6 /\ r.t = "reply") \/ (Proto = 4 /\ Inform)   \* rapid commit: the REPLY completes the exchange; so does the ACK of an INFORM
            THEN /\ phase' = "done" /\ result' = (IF Inform THEN "ack" ELSE "lease") /\ offer' = <<>> /\ final' = <<r>> /\ hist' = h1
                 /\ fi' = CountAll(h1) /\ oi' = oi
                 /\ inbox' = Append(inbox, r) /\ UNCHANGED <<try, txs>>
            ELSE /\ offer' = <<r>> /\ phase' = "second" /\ try' = 1 /\ inbox' = <<>>
                 /\ txs' = Append(txs, "second") /\ hist' = Append(h1, <<>>)      \* the REQUEST goes out
                 /\ oi' = CountAll(h1) /\ fi' = fi
                 /\ UNCHANGED <<final, result>>
       ELSE IF phase = "second" /\ AcceptSecond(r)
       THEN /\ phase' = "done" /\ final' = <<r>> /\ hist' = h1 /\ inbox' = Append(inbox, r)
            /\ result' = IF Proto = 4 /\ r.t = "nak" THEN "nak" ELSE "lease"
            /\ fi' = CountAll(h1) /\ oi' = oi
            /\ UNCHANGED <<try, txs, offer>>
       ELSE /\ hist' = h1 /\ inbox' = Append(inbox, r)
            /\ UNCHANGED <<phase, try, txs, offer, final, result, oi, fi>>    \* everything else is ignored

Timeout ==
    /\ phase # "done"
    /\ IF try < Tries
       THEN /\ try' = try + 1 /\ txs' = Append(txs, phase) /\ inbox' = <<>> /\ hist' = Append(hist, <<>>)
            /\ UNCHANGED <<phase, offer, final, result, oi, fi>>
       ELSE /\ phase' = "done" /\ result' = "noresp"
            /\ UNCHANGED <<try, txs, inbox, offer, final, hist, oi, fi>>
Next == (\E r \in Replies : Deliver(r)) \/ Timeout
Spec == Init /\ [][Next]_vars

\* ----------------------------------------------------------- properties (C13)
\* a lease is made of the accepted offer and an ACK bearing that offer's server identifier
LeaseRule == (Proto = 4 /\ result = "lease") => offer # <<>> /\ final[1].t = "ack" /\ Eff(final[1].sid) = Eff(offer[1].sid) /\ final[1].ok
NakRule == result = "nak" => final[1].t = "nak" /\ Eff(final[1].sid) = Eff(offer[1].sid)
\* an INFORM is answered by an ACK that passes the transaction filter, whoever sent it; no REQUEST follows
InformRule == (Proto = 4 /\ Inform) => /\ \A i \in DOMAIN txs : txs[i] = "first"
                                        /\ result \in {"none", "noresp", "ack"}
                                        /\ (result = "ack" => final[1].t = "ack" /\ final[1].ok /\ offer = <<>>)
\* the REQUEST is only sent for an accepted offer, at most Tries times per exchange
RequestRule == /\ (\E i \in DOMAIN txs : txs[i] = "second") => offer # <<>>
               /\ Cardinality({i \in DOMAIN txs : txs[i] = "second"}) <= Tries
               /\ Cardinality({i \in DOMAIN txs : txs[i] = "first"}) <= Tries
\* foreign / wrong-type / wrong-server replies never complete an exchange
IgnoreRule == [][\A r \in Replies : (Deliver(r) /\ ~r.ok) => UNCHANGED <<phase, offer, final, result, txs, oi, fi>>]_vars
=============================================================================
