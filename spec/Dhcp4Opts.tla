----------------------------- MODULE Dhcp4Opts -----------------------------
(* RFC 2132 / 3442 / 3004 / 3925 / 3046 / 3397 / 4578 / 8925 interpretation *)
(* of DHCPv4 option values: what each typed accessor of a packet must return *)
(* for a raw option value (C17).  A result is a record [ok, v]: ok = the raw *)
(* value is well-formed for the type; v = its interpretation (the documented *)
(* absent/default result when not ok).                                        *)
EXTENDS Dhcp4Wire, Label

Bad == [ok |-> FALSE, v |-> <<>>]
Good(v) == [ok |-> TRUE, v |-> v]

RECURSIVE Chunks(_, _)
Chunks(p, w) == IF Len(p) < w THEN <<>> ELSE <<SubSeq(p, 1, w)>> \o Chunks(SubSeq(p, w + 1, Len(p)), w)

RECURSIVE TrimNul(_)
TrimNul(s) == IF s # <<>> /\ s[Len(s)] = 0 THEN TrimNul(SubSeq(s, 1, Len(s) - 1)) ELSE s

\* RFC 3442 classless static routes: width(<=32) significant-octets router(4), repeated
RECURSIVE Routes(_, _, _)
Routes(p, i, acc) ==
    IF i > Len(p) THEN Good(acc)
    ELSE LET w == p[i] n == (w + 7) \div 8 IN
         IF w > 32 \/ i + n + 4 > Len(p) THEN Bad
         ELSE Routes(p, i + 1 + n + 4,
                     Append(acc, [w |-> w, dest |-> PadTo(Sub(p, i + 1, n), 4), router |-> Sub(p, i + 1 + n, 4)]))
\* RFC 3004 user classes: len(>=1) data, repeated, at least one
RECURSIVE UClasses(_, _, _)
UClasses(p, i, acc) ==
    IF i > Len(p) THEN Good(acc)
    ELSE LET n == p[i] IN
         IF n = 0 \/ i + n > Len(p) THEN Bad ELSE UClasses(p, i + 1 + n, Append(acc, Sub(p, i + 1, n)))
\* RFC 3925 vendor-identifying vendor classes: enterprise(4) len(1) data, repeated
RECURSIVE Vivc(_, _, _)
Vivc(p, i, acc) ==
    IF i > Len(p) THEN Good(acc)
    ELSE IF i + 4 > Len(p) THEN Bad
    ELSE LET n == p[i + 4] IN
         IF i + 4 + n > Len(p) THEN Bad ELSE Vivc(p, i + 5 + n, Append(acc, [ent |-> Sub(p, i, 4), data |-> Sub(p, i + 5, n)]))

\* kind of each accessor
Interp(kind, p) ==
    CASE kind = "ip" -> IF Len(p) = 4 THEN Good(p) ELSE Bad
      [] kind = "ips" -> IF Len(p) >= 4 /\ Len(p) % 4 = 0 THEN Good(Chunks(p, 4)) ELSE Bad
      [] kind = "string" -> Good(p)
      [] kind = "nulstring" -> Good(TrimNul(p))
      [] kind = "u32" -> IF Len(p) = 4 THEN Good(p) ELSE Bad           \* durations in seconds
      [] kind = "u16" -> IF Len(p) = 2 THEN Good(p) ELSE Bad
      [] kind = "u8" -> IF Len(p) = 1 THEN Good(p) ELSE Bad
      [] kind = "codes" -> Good(p)                                     \* one option code per byte
      [] kind = "mask" -> IF Len(p) = 4 THEN Good(p) ELSE Bad
      [] kind = "routes" -> Routes(p, 1, <<>>)
      [] kind = "archs" -> IF Len(p) >= 2 /\ Len(p) % 2 = 0 THEN Good(Chunks(p, 2)) ELSE Bad
      [] kind = "userclass" -> IF p = <<>> THEN Bad ELSE UClasses(p, 1, <<>>)
      [] kind = "vivc" -> Vivc(p, 1, <<>>)
      [] kind = "subopts" -> LET r == DecSubOpts(p) IN IF r.ok THEN Good(r.opts) ELSE Bad

\* the documented result when the option is absent or malformed
Default(kind, p) ==
    CASE kind = "userclass" -> <<p>>            \* falls back to the whole value as one class
      [] OTHER -> <<>>

\* what the accessor returns for a packet in which the option is present with raw value p
Access(kind, p) == LET r == Interp(kind, p) IN IF r.ok THEN r ELSE [ok |-> FALSE, v |-> Default(kind, p)]

KindOf(acc) ==
    CASE acc \in {"BroadcastAddress", "RequestedIPAddress", "ServerIdentifier"} -> "ip"
      [] acc \in {"Router", "NTPServers", "NetBIOSNameServers", "DNS"} -> "ips"
      [] acc \in {"DomainName", "RootPath", "ClassIdentifier", "Message"} -> "string"
      [] acc \in {"HostName", "BootFileNameOption", "TFTPServerName"} -> "nulstring"
      [] acc \in {"IPAddressLeaseTime", "IPAddressRenewalTime", "IPAddressRebindingTime", "IPv6OnlyPreferred"} -> "u32"
      [] acc = "MaxMessageSize" -> "u16"
      [] acc \in {"AutoConfigure", "MessageType"} -> "u8"
      [] acc = "ParameterRequestList" -> "codes"
      [] acc = "SubnetMask" -> "mask"
      [] acc = "ClasslessStaticRoute" -> "routes"
      [] acc = "ClientArch" -> "archs"
      [] acc = "UserClass" -> "userclass"
      [] acc = "VIVC" -> "vivc"
      [] acc = "RelayAgentInfo" -> "subopts"

\* constructor direction: the raw value a typed constructor must store (only used for the
\* kinds with a non-trivial encoding)
EncRoutes(rs) == Concat([i \in 1..Len(rs) |-> <<rs[i].w>> \o Take(rs[i].dest, (rs[i].w + 7) \div 8) \o rs[i].router])
EncUClasses(cs) == Concat([i \in 1..Len(cs) |-> <<Len(cs[i])>> \o cs[i]])
EncVivc(vs) == Concat([i \in 1..Len(vs) |-> vs[i].ent \o <<Len(vs[i].data)>> \o vs[i].data])
=============================================================================
