----------------------------- MODULE Trace_RawUdp -----------------------------
(* Trace validation for C18: frames written by the real BroadcastRawUDPConn and *)
(* results of reading scripted frame sequences, judged by spec/RawUdp.tla.      *)
EXTENDS RawUdp, Json, IOUtils, TLC

Trace == ndJsonDeserialize(IOEnv.VH_TRACE)
NShards == atoi(IOEnv.VH_SHARDS)
N == Len(Trace)
VARIABLES l, hi
vars == <<l, hi>>

Has(e, f) == f \in DOMAIN e
ZeroSums(f) == [i \in 1..Len(f) |-> IF i \in {11, 12, 27, 28} THEN 0 ELSE f[i]]

AgreeW(e) == /\ ~Has(e, "panic") /\ ~e.err /\ e.nframes = 1
             /\ Len(e.frame) = 28 + Len(e.payload)
             /\ IsFrameFor(e.frame, e.payload, e.src, e.dst)
             /\ HeaderVerifies(e.frame) /\ UdpVerifies(e.frame)             \* independent receiver-side check
AgreeM(e) == /\ ~Has(e, "panic") /\ ~e.err
             /\ Len(e.frame) = 28 + Len(e.payload)
             /\ ZeroSums(e.frame) = ZeroSums(FrameWith(e.payload, e.src, e.dst, 0))
AgreeR(e) == /\ ~Has(e, "panic") /\ Has(e, "end") /\ e.end
             /\ e.res = ReadFrames(e.frames, e.bound, e.buflen)

\* a connection that has skipped e.n frames that were not for it (other ports, other protocols) reads the next frame that is:
\* exactly that payload, then the end of the script (the harness builds the sequence; the frames are not in the record)
AgreeRLong(e) == ~Has(e, "panic") /\ e.got = 1 /\ e.end /\ e.payload = <<109, 105, 110, 101>>
Agree(e) == CASE e.op = "W" -> AgreeW(e) [] e.op = "M" -> AgreeM(e) [] e.op = "R" -> AgreeR(e) [] e.op = "RLong" -> AgreeRLong(e) [] OTHER -> FALSE

ShardLo(k) == ((k - 1) * N) \div NShards + 1
ShardHi(k) == (k * N) \div NShards
Init == \E k \in 1..NShards : l = ShardLo(k) /\ hi = ShardHi(k)
Next == /\ l <= hi
        /\ (IF Agree(Trace[l]) THEN TRUE ELSE PrintT(<<"MISMATCH", Trace[l].id>>))
        /\ l' = l + 1 /\ hi' = hi
TraceSpec == Init /\ [][Next]_vars
=============================================================================
