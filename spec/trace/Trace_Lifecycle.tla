--------------------------- MODULE Trace_Lifecycle ---------------------------
(* Trace validation for C08 / C20: each ndjson line is the life of one value of *)
(* the real library (decode or construct, observe, overwrite buffers, call      *)
(* read-only methods, observe again).  The machine below is the trace form of   *)
(* spec/Lifecycle.tla: Scribble and Read steps must leave every observation     *)
(* unchanged; the first observation of a decoded value must be what the wire    *)
(* specification reads from the original bytes.                                 *)
EXTENDS Dhcp6Wire, Json, IOUtils

Traces == ndJsonDeserialize(IOEnv.VH_TRACE)
VARIABLES k, l, bad,
          first,     \* first observation [set, enc, str, val]
          results    \* sequence of [m, r]: results of read-only calls so far
tvars == <<k, l, bad, first, results>>
T == Traces[k]
Ev == T.ev
E == Ev[l]

Unset == [set |-> FALSE, enc |-> <<>>, str |-> "", val |-> <<>>]
TInit == k \in 1..Len(Traces) /\ l = 1 /\ bad = FALSE /\ first = Unset /\ results = <<>>

DecodeOK ==
    CASE T.proto = "v4" -> LET d == Dec4(T["in"]) IN d.ok /\ E.val = d.val
      [] T.proto = "v6" -> Agrees6(Dec6(T["in"]), TRUE, E.val)
      [] T.proto = "label" -> LabelAgrees(T["in"], TRUE, E.val)
      [] OTHER -> TRUE
\* (value trees are compared through their fingerprints when the record carries one: trees of different shapes - an option
\* that changed places with one of another type - are not comparable as TLA+ values)
ValKey(e) == IF "valh" \in DOMAIN e THEN e.valh ELSE e.val
SameAsFirst == first.set => (E.enc = first.enc /\ E.str = first.str /\ ValKey(E) = first.val)
PriorResult(m) == IF \E i \in DOMAIN results : results[i].m = m
                  THEN <<results[CHOOSE i \in DOMAIN results : results[i].m = m].r>> ELSE <<>>

Consume ==
    /\ l <= Len(Ev)
    /\ CASE E.a = "Decode" -> DecodeOK /\ UNCHANGED <<first, results>>
         [] E.a = "Obs" -> /\ SameAsFirst
                           /\ first' = IF first.set THEN first ELSE [set |-> TRUE, enc |-> E.enc, str |-> E.str, val |-> ValKey(E)]
                           /\ UNCHANGED results
         [] E.a = "Scribble" -> UNCHANGED <<first, results>>                  \* environment step: nothing may change
         [] E.a = "Encode" -> (first.set => E.enc = first.enc) /\ UNCHANGED <<first, results>>
         [] E.a = "Held" -> (first.set => E.enc = first.enc) /\ UNCHANGED <<first, results>>   \* an encoding still held by the caller
         [] E.a = "Call" -> /\ PriorResult(E.m) \in {<<>>, <<E.r>>}            \* repeated calls return equal results
                            /\ results' = Append(results, [m |-> E.m, r |-> E.r])
                            /\ UNCHANGED first
         [] OTHER -> FALSE                                                     \* Panic: no behaviour of the specification
    /\ l' = l + 1 /\ k' = k /\ bad' = FALSE

Reject == /\ ~bad /\ l <= Len(Ev)
          /\ PrintT(<<"MISMATCH", T.id, l>>)
          /\ bad' = TRUE /\ UNCHANGED <<k, l, first, results>>
TNext == IF ENABLED Consume THEN Consume ELSE Reject
TraceSpec == TInit /\ [][TNext]_tvars
=============================================================================
