------------------------------ MODULE Trace_Lease ------------------------------
(* Trace validation for C13.  Each line pairs a server behaviour enumerated by    *)
(* TLC from spec/Lease.tla (exp: script, expected transmissions and outcome) with *)
(* what the real client did against it (obs).  The exchange logic is compared     *)
(* with the expectation; the CONTENT of every transmitted message is judged by    *)
(* the builder operators of Dhcp4Build / Dhcp6Build.                              *)
EXTENDS Dhcp6Wire, Json, IOUtils
B4 == INSTANCE Dhcp4Build
B6 == INSTANCE Dhcp6Build

Trace == ndJsonDeserialize(IOEnv.VH_TRACE)
NShards == atoi(IOEnv.VH_SHARDS)
N == Len(Trace)
VARIABLES l, hi
vars == <<l, hi>>
Has(e, f) == f \in DOMAIN e

MaxMsg == B4!MOpt(57, <<5, 220>>)
\* the caller's own modifiers (harness/leasesim): host name "leasesim", two more requested options, class identifier "vh"
UserMods == <<B4!MOpt(12, <<108, 101, 97, 115, 101, 115, 105, 109>>), B4!M("reqopts", <<42, 67>>), B4!MOpt(60, <<118, 104>>)>>
Kind4(tx) == LET t == B4!OptVal(tx.pkt, 53) IN IF t = <<1>> THEN "first" ELSE IF t = <<3>> THEN "second" ELSE "other"
KindI(tx) == IF B4!OptVal(tx.pkt, 53) = <<8>> THEN "first" ELSE "other"
SidOf(pkt) == B4!OptVal(pkt, 54)
DestOf(sid) == IF sid = <<>> THEN ":67" ELSE ToString(sid[1]) \o "." \o ToString(sid[2]) \o "." \o ToString(sid[3]) \o "." \o ToString(sid[4]) \o ":67"

\* o.cfg: the client's configuration (the address it was told to send to, its hardware address)
Agree4(x, o) ==
    LET n == Len(o.txs)
        Mac == o.cfg.mac
    IN
    /\ o.res.kind = x.result
    /\ (x.result \in {"lease", "nak"} => o.res.offer = x.oi /\ o.res.final = x.fi)     \* that very offer and ACK / NAK
    /\ [i \in 1..n |-> Kind4(o.txs[i])] = x.txs
    /\ \A i \in 1..n : o.txs[i].dest = o.cfg.srv
    \* DISCOVER: hardware address, parameter request list, message type, maximum message size
    /\ \A i \in 1..n : x.txs[i] = "first" =>
           o.txs[i].pkt = B4!Build("Discovery", [hw |-> Mac], <<MaxMsg>> \o UserMods, o.txs[i].pkt.xid) /\ o.txs[i].pkt = o.txs[1].pkt
    \* REQUEST: built from the accepted OFFER (its transaction id, offered address, server identifier)
    /\ \A i \in 1..n : x.txs[i] = "second" =>
           /\ LET offerpkt == o.sentpkts[ToString(x.oi)] IN
              o.txs[i].pkt = B4!Build("RequestFromOffer", offerpkt, <<MaxMsg>> \o UserMods, offerpkt.xid)
           /\ o.txs[i].pkt.ch = Mac
    \* renewal: leased address in ciaddr, unicast flag, no requested-address / server-identifier option;
    \* completed only by that server's ACK (a NAK from another server is ignored)
    /\ Has(o, "renew") =>
           LET r == o.renew sid == x.offer[1].sid IN
           /\ Len(r.txs) >= 1
           /\ r.txs[1].pkt = B4!Build("RenewFromAck", r.ackpkt, <<MaxMsg>> \o UserMods, r.ackpkt.xid)
           /\ \A i \in 1..Len(r.txs) : r.txs[i].pkt = r.txs[1].pkt /\ r.txs[i].dest = o.cfg.srv
           /\ r.ok = (sid # "B")                       \* the scripted NAK comes from server B
           /\ (r.ok => r.sameoffer)
    \* a renewal whose first write fails reports the error, transmits nothing and leaves nothing behind (the renewal
    \* after it is judged above like any other)
    /\ Has(o, "renew0") => o.renew0.err /\ o.renew0.ntx = 0
    \* release: exactly one RELEASE for the leased address to the lease's server
    /\ Has(o, "release") =>
           LET r == o.release IN
           /\ r.ok /\ Len(r.txs) = 1
           /\ r.txs[1].pkt = B4!Build("ReleaseFromACK", r.ackpkt, UserMods, r.txs[1].pkt.xid)
           /\ \/ r.txs[1].dest = DestOf(SidOf(r.ackpkt))
              \/ o.cfg.raw /\ SidOf(r.ackpkt) = <<>> /\ r.txs[1].dest = "0.0.0.0:67"     \* no address: all zeroes in a frame

\* the INFORM exchange: every transmission is the same INFORM (hardware address, the caller's local address in ciaddr, the
\* caller's modifiers, no server identifier), sent where the client was told to send; it ends with the first ACK that
\* passes the transaction filter (that very ACK is returned), or with the no-response error after the last try
AgreeInform(x, o) ==
    LET n == Len(o.txs) IN
    /\ o.res.kind = x.result
    /\ (x.result = "ack" => o.res.final = x.fi)
    /\ [i \in 1..n |-> KindI(o.txs[i])] = x.txs
    /\ \A i \in 1..n : /\ o.txs[i].dest = o.cfg.srv
                        /\ o.txs[i].pkt = B4!Build("Inform", [hw |-> o.cfg.mac, ip |-> o.cfg.ip], UserMods, o.txs[i].pkt.xid)
                        /\ o.txs[i].pkt = o.txs[1].pkt
                        /\ SidOf(o.txs[i].pkt) = <<>>

Kind6(tx) == IF ~Has(tx, "mt") THEN "other" ELSE IF tx.mt = 1 THEN "first" ELSE IF tx.mt = 3 THEN "second" ELSE "other"
Agree6(x, o) ==
    LET n == Len(o.txs) IN
    /\ o.res.kind = x.result /\ o.res.final = x.fi
    /\ [i \in 1..n |-> Kind6(o.txs[i])] = x.txs
    /\ \A i \in 1..n : o.txs[i].dest = o.cfg.srv
    \* SOLICIT: a rapid-commit option exactly when asked for; all retransmissions identical
    /\ \A i \in 1..n : x.txs[i] = "first" =>
           LET d == Dec6(o.txs[i].hex) IN
           /\ d.st = "yes" /\ B6!HasOpt(d.v.opts, 14) = x.rapid /\ B6!HasOpt(d.v.opts, 1) /\ B6!HasOpt(d.v.opts, 3)
           /\ o.txs[i].hex = o.txs[1].hex
    \* REQUEST: client id, server id and IA_NA of the accepted ADVERTISE, as the specification's builder gives them
    /\ \A i \in 1..n : x.txs[i] = "second" =>
           LET adv == Dec6(o.sent[ToString(x.oi)]) req == Dec6(o.txs[i].hex) IN
           /\ adv.st = "yes" /\ req.st = "yes"
           /\ LET want == B6!Request(adv.v, req.v.xid) IN want.ok /\ req.v = want.v

Agree(e) == /\ Has(e.obs.res, "kind")
            /\ IF e.exp.proto = 4 THEN (IF e.exp.inform THEN AgreeInform(e.exp, e.obs) ELSE Agree4(e.exp, e.obs)) ELSE Agree6(e.exp, e.obs)

ShardLo(k) == ((k - 1) * N) \div NShards + 1
ShardHi(k) == (k * N) \div NShards
Init == \E k \in 1..NShards : l = ShardLo(k) /\ hi = ShardHi(k)
Next == /\ l <= hi
        /\ (IF Agree(Trace[l]) THEN TRUE ELSE PrintT(<<"MISMATCH", Trace[l].id>>))
        /\ l' = l + 1 /\ hi' = hi
TraceSpec == Init /\ [][Next]_vars
=============================================================================
