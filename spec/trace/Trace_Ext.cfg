SPECIFICATION TraceSpec
CONSTANTS
  ChunkMax = 255
  MinLen = 300
  ChaddrLen = 16
  SnameLen = 64
  FileLen = 128
CHECK_DEADLOCK FALSE
