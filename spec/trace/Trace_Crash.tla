------------------------------ MODULE Trace_Crash ------------------------------
(* Trace validation for C03.  Every decode operator of the specification is      *)
(* total (value or error -- see the Total / Terminates invariants of MC_Label,    *)
(* MC_Dhcp4Scan, MC_Dhcp6, MC_Dhcp4Opts) and every read-only use of a decoded     *)
(* value returns; a recorded run of the real code in which any step panicked or  *)
(* did not return is therefore not a behaviour of the specification.  Netboot     *)
(* conversations are judged by the outcome function of spec/Netboot.tla.          *)
EXTENDS Netboot, Json, IOUtils
Trace == ndJsonDeserialize(IOEnv.VH_TRACE)
NShards == atoi(IOEnv.VH_SHARDS)
N == Len(Trace)
VARIABLES l, hi
vars == <<l, hi>>

Agree(e) == CASE e.op = "Run" -> e.bad = <<>> /\ e.steps >= 1
              [] e.op = "Netboot" -> e.outcome = (IF e.proto = 6 THEN Netconf6(e.conv) ELSE Netconf4(e.conv))
              [] OTHER -> FALSE

ShardLo(k) == ((k - 1) * N) \div NShards + 1
ShardHi(k) == (k * N) \div NShards
Init == \E k \in 1..NShards : l = ShardLo(k) /\ hi = ShardHi(k)
Next == /\ l <= hi
        /\ (IF Agree(Trace[l]) THEN TRUE ELSE PrintT(<<"MISMATCH", Trace[l].id>>))
        /\ l' = l + 1 /\ hi' = hi
TraceSpec == Init /\ [][Next]_vars
=============================================================================
