SPECIFICATION TraceSpec
CONSTANTS
  Callers = {1, 2, 3, 4, 5, 6, 7, 8}
  Xids = {7, 8}
  None = "none"
INVARIANTS InvOK
CHECK_DEADLOCK FALSE
