----------------------------- MODULE Trace_Label -----------------------------
(* Trace validation for C19 against spec/Label.tla.                            *)
EXTENDS Label, Json, IOUtils, TLC

Trace == ndJsonDeserialize(IOEnv.VH_TRACE)
NShards == atoi(IOEnv.VH_SHARDS)
N == Len(Trace)
VARIABLES l, hi
vars == <<l, hi>>
Has(e, f) == f \in DOMAIN e

AgreeDec(e) == /\ ~Has(e, "panic") /\ LabelAgrees(e["in"], e.ok, e.names)
               /\ (e.ok /\ Has(e, "reenc")) => e.reenc = e["in"]      \* an unchanged set re-encodes to exactly its bytes
AgreeRT(e) == /\ ~Has(e.out, "panic")
              /\ e.wire = LabelEncode(e.names)
              /\ e.out.ok /\ e.out.names = e.names
\* through an option's own constructor and accessor: whatever encoding the option chose, it reads (under the
\* specification's decoder) as the names that were put in, and those are the names that come back
AgreeRTVia(e) == /\ ~Has(e.out, "panic")
                 /\ LabelAgrees(e.wire, TRUE, e.names)
                 /\ CompleteEncodingOf(e.wire, e.names)
                 /\ e.out.ok /\ e.out.names = e.names
\* replay the edits on the specification's object and compare every encoding
RECURSIVE ObjRun(_, _, _, _)
ObjRun(o, steps, encs, i) ==
    IF i > Len(steps) THEN TRUE
    ELSE LET st == steps[i]
             o2 == CASE st.k = "set" -> [o EXCEPT !.names[st.i] = st.name]
                     [] st.k = "del" -> [o EXCEPT !.names = SubSeq(@, 1, st.i - 1) \o SubSeq(@, st.i + 1, Len(@))]
                     [] st.k = "app" -> [o EXCEPT !.names = Append(@, st.name)]
                     [] st.k = "reparse" -> ObjParse(st.name, LabelDecode(st.name).names)      \* decoded again into the same object
                     [] st.k = "swap" -> [o EXCEPT !.names[st.i] = o.names[st.j], !.names[st.j] = o.names[st.i]]
                     [] OTHER -> o
         IN /\ encs[i + 1] = ObjEncode(o2)
            /\ (st.k = "reparse" => LabelAgrees(st.name, TRUE, st.got))
            /\ ObjRun(o2, steps, encs, i + 1)
AgreeObj(e) == /\ ~Has(e.out, "panic")
               /\ LabelAgrees(e["in"], e.out.ok, e.out.names)
               /\ LET o == ObjParse(e["in"], e.out.names) IN
                  /\ e.encs[1] = e["in"]                       \* unchanged set re-encodes to exactly its bytes
                  /\ ObjRun(o, e.steps, e.encs, 1)

Agree(e) == CASE e.op = "LDec" -> AgreeDec(e)
              [] e.op = "LVia" -> AgreeDec(e)
              [] e.op = "LRT" -> AgreeRT(e)
              [] e.op = "LRTV" -> AgreeRTVia(e)
              [] e.op = "LObj" -> AgreeObj(e)
              [] OTHER -> FALSE

ShardLo(k) == ((k - 1) * N) \div NShards + 1
ShardHi(k) == (k * N) \div NShards
Init == \E k \in 1..NShards : l = ShardLo(k) /\ hi = ShardHi(k)
Next == /\ l <= hi
        /\ (IF Agree(Trace[l]) THEN TRUE ELSE PrintT(<<"MISMATCH", Trace[l].id>>))
        /\ l' = l + 1 /\ hi' = hi
TraceSpec == Init /\ [][Next]_vars
=============================================================================
