-------------------------- MODULE Trace_Dhcp6Build --------------------------
(* Trace validation for C16 against spec/Dhcp6Build.tla.                      *)
EXTENDS Dhcp6Build, Json, IOUtils, TLC
Trace == ndJsonDeserialize(IOEnv.VH_TRACE)
NShards == atoi(IOEnv.VH_SHARDS)
N == Len(Trace)
VARIABLES l, hi
vars == <<l, hi>>
Has(e, f) == f \in DOMAIN e

Expected(e) ==
    CASE e.fn = "Encap" -> Encap(e["in"], e.args.mt, e.args.link, e.args.peer)
      [] e.fn = "Decap" -> Decap(e["in"])
      [] e.fn = "Inner" -> Inner(e["in"])
      [] e.fn = "DecapIndex" -> DecapIndex(e["in"], e.args.i)
      [] e.fn = "RelayRepl" -> RelayRepl(e["in"], e.args.msg)
      [] e.fn = "Advertise" -> Advertise(e["in"])
      [] e.fn = "Reply" -> Reply(e["in"])
      [] e.fn = "Request" -> Request(e["in"], IF e.out.ok THEN e.out.v.xid ELSE <<0, 0, 0>>)   \* fresh transaction id
\* a builder called with caller modifiers that supply options: whether the input is acceptable is decided on the input
\* (a SOLICIT without client identifier is refused whatever the modifiers would add)
AcceptedWithMods(e) == e.out.ok = (CASE e.args.builder = "Advertise" -> Advertise(e["in"]).ok
                                     [] e.args.builder = "Reply" -> Reply(e["in"]).ok
                                     [] OTHER -> Request(e["in"], <<0, 0, 0>>).ok)
Agree(e) == /\ ~Has(e.out, "panic")
            /\ IF e.fn = "WithMods" THEN AcceptedWithMods(e) ELSE
               IF e.fn = "DecapIs" THEN e.out.ok /\ e.out.v = e.args.want /\ Decap(e["in"]) = Ok(e.args.want)   \* the level itself, as it is now
               ELSE IF e.fn = "Wire" THEN e.out.ok /\ Same(e.out.v, e["in"])          \* a chain survives a trip over the wire
               ELSE LET x == Expected(e) IN e.out.ok = x.ok /\ (x.ok => e.out.v = x.v)

ShardLo(k) == ((k - 1) * N) \div NShards + 1
ShardHi(k) == (k * N) \div NShards
Init == \E k \in 1..NShards : l = ShardLo(k) /\ hi = ShardHi(k)
Next == /\ l <= hi
        /\ (IF Agree(Trace[l]) THEN TRUE ELSE PrintT(<<"MISMATCH", Trace[l].id>>))
        /\ l' = l + 1 /\ hi' = hi
TraceSpec == Init /\ [][Next]_vars
=============================================================================
