------------------------------- MODULE Trace_Ext -------------------------------
(* Extended conformance (not one of the twenty properties): recorded results of  *)
(* the extractors of the real library against spec/Extract.tla.                  *)
EXTENDS ZtpCircuit, Json, IOUtils, TLC
Trace == ndJsonDeserialize(IOEnv.VH_TRACE)
NShards == atoi(IOEnv.VH_SHARDS)
N == Len(Trace)
VARIABLES l, hi
vars == <<l, hi>>
Has(e, f) == f \in DOMAIN e

Agree(e) ==
    /\ ~Has(e, "panic")
    /\ CASE e.op = "NetConf6" -> LET x == NetConf6(e.msg) IN
              e.ok = x.ok /\ (x.ok => e.addrs = x.addrs /\ e.dns = x.dns /\ e.search = x.search /\ e.ntp = x.ntp)
         [] e.op = "ExtractMAC" -> LET x == ExtractMac6(e.msg) IN e.ok = (x # <<>>) /\ (x # <<>> => e.mac = x[1])
         [] e.op = "Acc6" -> /\ e.dns = Dns6(e.msg.opts) /\ e.search = Search6(e.msg.opts) /\ e.url = BootUrl6(e.msg.opts)
                             /\ e.requested = Requested6(e.msg.opts) /\ e.ntp = Ntp6(e.msg.opts)
                             /\ e.netboot = IsNetboot6(e.msg.opts) /\ e.req23 = IsRequested6(e.msg.opts, 23)
         [] e.op = "NetConf4" -> LET x == NetConf4(e.pkt) IN
              IF x.ok /\ x.grey THEN TRUE                          \* RFC-undefined name encoding: either reading
              ELSE e.ok = x.ok /\ (x.ok => e.ip = x.ip /\ e.mask = x.mask /\ e.lease = x.lease /\ e.dns = x.dns
                                          /\ e.routers = x.routers /\ e.ntp = x.ntp /\ e.search = x.search)
         [] e.op = "Req4" -> e.res = IsRequested4(e.pkt, e.code)
         [] e.op \in {"Ztp4", "Ztp6"} ->
              LET x == IF e.op = "Ztp4" THEN Ztp4(e.pkt) ELSE Ztp6(e.msg) IN
              e.st = x.st /\ (x.st = "ok" => e.vendor = x.vendor /\ e.model = x.model /\ e.serial = x.serial)
         [] e.op = "Acc6x" -> /\ DOMAIN e.res = MsgAccNames
                              /\ \A n \in MsgAccNames : e.res[n] = MsgAcc(n, e.msg.opts, e.ent, e.def)
         [] e.op = "AccRelay" -> /\ DOMAIN e.res = RelayAccNames
                                 /\ \A n \in RelayAccNames : e.res[n] = RelayAcc(n, e.msg.opts)
         [] e.op = "Sub6" -> /\ DOMAIN e.res = SubAccNames(e.kind)
                             /\ \A n \in SubAccNames(e.kind) : e.res[n] = SubAcc(n, e.opts)
         [] e.op = "Cont6" -> LET x == CASE e.kind = "Add" -> Add6(e["in"].opts, e.o)
                                         [] e.kind = "Update" -> Update6(e["in"].opts, e.o)
                                         [] e.kind = "Del" -> Del6(e["in"].opts, e.code)
                              IN /\ e.out = [e["in"] EXCEPT !.opts = x]
                                 /\ e.get = GetAll(x, e.code) /\ e.getone = FirstOpt(x, e.code)
         [] e.op = "Mod6" -> e.out = Mods6(e["in"], e.mods)
         [] e.op = "Build6m" ->
              LET xid == IF e.out.ok THEN e.out.v.xid ELSE <<0, 0, 0>>         \* fresh transaction ids
                  x == CASE e.fn = "NewMessage" -> Ok(NewMessage6(xid, e.mods))
                         [] e.fn = "Solicit" -> Solicit(e.hw, xid, e.time, e.mods)
                         [] e.fn = "Advertise" -> AdvertiseM(e["in"], e.mods)
                         [] e.fn = "Request" -> RequestM(e["in"], xid, e.mods)
                         [] e.fn = "Reply" -> ReplyM(e["in"], e.mods)
              IN e.out.ok = x.ok /\ (x.ok => e.out.v = x.v)
         [] e.op \in {"Circ4", "Circ6"} ->
              LET x == IF e.op = "Circ4" THEN Circuit4(e.pkt) ELSE Circuit6(e.msg) IN
              e.st = x.st /\ (x.st = "ok" => e.slot = x.slot /\ e.mod = x.mod /\ e.port = x.port /\ e.subport = x.subport /\ e.vlan = x.vlan)
         [] e.op = "DuidEq" -> e.res = (e.a = e.b) /\ e.sym = e.res
         [] e.op = "Has4" -> e.res = (\E i \in DOMAIN e.pkt.opts : e.pkt.opts[i].c = e.code)
         [] OTHER -> FALSE

ShardLo(k) == ((k - 1) * N) \div NShards + 1
ShardHi(k) == (k * N) \div NShards
Init == \E k \in 1..NShards : l = ShardLo(k) /\ hi = ShardHi(k)
Next == /\ l <= hi
        /\ (IF Agree(Trace[l]) THEN TRUE ELSE PrintT(<<"MISMATCH", Trace[l].id>>))
        /\ l' = l + 1 /\ hi' = hi
TraceSpec == Init /\ [][Next]_vars
=============================================================================
