------------------------------- MODULE Trace_Ext -------------------------------
(* Extended conformance (not one of the twenty properties): recorded results of  *)
(* the extractors of the real library against spec/Extract.tla.                  *)
EXTENDS Ztp, Json, IOUtils, TLC
Trace == ndJsonDeserialize(IOEnv.VH_TRACE)
NShards == atoi(IOEnv.VH_SHARDS)
N == Len(Trace)
VARIABLES l, hi
vars == <<l, hi>>
Has(e, f) == f \in DOMAIN e

Agree(e) ==
    /\ ~Has(e, "panic")
    /\ CASE e.op = "NetConf6" -> LET x == NetConf6(e.msg) IN
              e.ok = x.ok /\ (x.ok => e.addrs = x.addrs /\ e.dns = x.dns /\ e.search = x.search /\ e.ntp = x.ntp)
         [] e.op = "ExtractMAC" -> LET x == ExtractMac6(e.msg) IN e.ok = (x # <<>>) /\ (x # <<>> => e.mac = x[1])
         [] e.op = "Acc6" -> /\ e.dns = Dns6(e.msg.opts) /\ e.search = Search6(e.msg.opts) /\ e.url = BootUrl6(e.msg.opts)
                             /\ e.requested = Requested6(e.msg.opts) /\ e.ntp = Ntp6(e.msg.opts)
                             /\ e.netboot = IsNetboot6(e.msg.opts) /\ e.req23 = IsRequested6(e.msg.opts, 23)
         [] e.op = "NetConf4" -> LET x == NetConf4(e.pkt) IN
              IF x.ok /\ x.grey THEN TRUE                          \* RFC-undefined name encoding: either reading
              ELSE e.ok = x.ok /\ (x.ok => e.ip = x.ip /\ e.mask = x.mask /\ e.lease = x.lease /\ e.dns = x.dns
                                          /\ e.routers = x.routers /\ e.ntp = x.ntp /\ e.search = x.search)
         [] e.op = "Req4" -> e.res = IsRequested4(e.pkt, e.code)
         [] e.op \in {"Ztp4", "Ztp6"} ->
              LET x == IF e.op = "Ztp4" THEN Ztp4(e.pkt) ELSE Ztp6(e.msg) IN
              e.st = x.st /\ (x.st = "ok" => e.vendor = x.vendor /\ e.model = x.model /\ e.serial = x.serial)
         [] OTHER -> FALSE

ShardLo(k) == ((k - 1) * N) \div NShards + 1
ShardHi(k) == (k * N) \div NShards
Init == \E k \in 1..NShards : l = ShardLo(k) /\ hi = ShardHi(k)
Next == /\ l <= hi
        /\ (IF Agree(Trace[l]) THEN TRUE ELSE PrintT(<<"MISMATCH", Trace[l].id>>))
        /\ l' = l + 1 /\ hi' = hi
TraceSpec == Init /\ [][Next]_vars
=============================================================================
