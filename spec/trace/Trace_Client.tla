----------------------------- MODULE Trace_Client -----------------------------
(* Trace validation for spec/Client.tla.  Each line of the ndjson file is one  *)
(* complete execution of a real client (nclient4 or nclient6) under the gate   *)
(* scheduler of /verif/harness/clientsim, already expressed as specification   *)
(* actions with their logged outcomes.  TLC decides whether the execution is a *)
(* behaviour of the specification and evaluates the invariants of C10-C12      *)
(* after every step.                                                           *)
EXTENDS Client, Json, IOUtils

Traces == ndJsonDeserialize(IOEnv.VH_TRACE)

VARIABLES k,      \* which trace
          l,      \* next line of trace k
          bad     \* TRUE once the trace has been rejected
tvars == <<vars, k, l, bad>>

Ev == Traces[k].ev
E == Ev[l]
Has(f) == f \in DOMAIN E

TraceCfg(i) == LET c == Traces[i].cfg IN
    [T |-> c.T, tries |-> c.tries, bufcap |-> c.bufcap, v4 |-> c.v4,
     xid |-> [x \in Callers |-> IF x <= Len(c.xid) THEN c.xid[x] ELSE 0],
     urgent |-> c.urgent, timed |-> c.timed, cancelChecksIdentity |-> TRUE, timerPerIteration |-> FALSE,
     maxCalls |-> 1000, wfault |-> TRUE, rfault |-> TRUE,   \* the harness decides how often a caller calls and when a write or a read fails
     timeoutCarriesOver |-> FALSE, writeErrKeepsEntry |-> FALSE, fireRegisters |-> FALSE,
     readErrEndsCalls |-> FALSE, loopSurvivesClose |-> FALSE]

TInit == /\ k \in 1..Len(Traces)
         /\ l = 1 /\ bad = FALSE
         /\ InitWith(TraceCfg(k))

AtTime == E.t = now

DropReason(d) == CASE dgs[d].kind = "undec" -> "undecodable"
                   [] cfg.v4 /\ dgs[d].kind = "wrongop" -> "opcode"
                   [] cfg.v4 /\ dgs[d].kind = "wronghw" -> "hwaddr"
                   [] OTHER -> ""

\* one disjunct per recorded action: the specification's action plus the logged outcome
Consume ==
    /\ l <= Len(Ev)
    /\ CASE E.a = "Tick" -> Tick /\ now' = E.t
         [] E.a = "Start" -> AtTime /\ Start(E.c)
         [] E.a = "Again" -> AtTime /\ Again(E.c)
         [] E.a = "Fire" -> AtTime /\ (IF E.ok THEN Fire(E.c) ELSE FireFail(E.c)) /\ E.destok    \* to the lease's server
         [] E.a = "SendLock" -> /\ AtTime /\ SendLock(E.c)
                                /\ IF E.outcome = "refused" THEN cs'[E.c].res = "inuse"
                                   ELSE cs'[E.c].pc = "txpre" /\ cs'[E.c].ent = E.ent
         [] E.a = "Transmit" -> /\ AtTime /\ (IF E.ok THEN Transmit(E.c) ELSE TransmitFail(E.c))
                                /\ E.destok /\ E.same              \* C12: same bytes, requested destination
         [] E.a = "Wake" -> /\ AtTime
                            /\ (CASE E.reason = "recv" -> WakeRecv(E.c) /\ cs'[E.c].wd = E.d
                                  [] E.reason = "timeout" -> WakeTimeout(E.c)
                                  [] E.reason = "ctx" -> WakeCtx(E.c)
                                  [] E.reason = "closed" -> WakeClosed(E.c))
         [] E.a = "Proceed" -> /\ AtTime /\ Proceed(E.c)
                               /\ (cs[E.c].wake = "recv" => E.acc = (cs'[E.c].res \in {"msg", "nil"}))
         [] E.a = "CancelDone" -> AtTime /\ CancelDone(E.c)
         [] E.a = "CancelLock" -> /\ AtTime /\ CancelLock(E.c)
                                  /\ E.removed = (IF pending[cfg.xid[E.c]] # 0 /\ pending'[cfg.xid[E.c]] = 0
                                                  THEN pending[cfg.xid[E.c]] ELSE 0)
         [] E.a = "Return" -> /\ AtTime
                              /\ cs[E.c].pc = "returned" /\ cs[E.c].res = E.res
                              /\ (E.res = "msg" => cs[E.c].got = E.d)
                              /\ UNCHANGED vars
         [] E.a = "Inject" -> AtTime /\ E.d = Len(dgs) + 1 /\ Inject([xid |-> E.xid, kind |-> E.kind])
         [] E.a = "CtxCancel" -> AtTime /\ CtxCancel(E.c)
         [] E.a = "LoopRead" -> /\ AtTime /\ LoopRead /\ E.d = Head(net)
                                /\ E.drop = DropReason(E.d)
         [] E.a = "LoopLock" -> AtTime /\ LoopLock /\ E.found = (lp'.pc = "select")
         [] E.a = "LoopSelSend" -> AtTime /\ LoopSelSend /\ E.ent = LoopEntry
         [] E.a = "LoopSelDone" -> AtTime /\ LoopSelDone /\ E.ent = LoopEntry
         [] E.a = "LoopExit" -> AtTime /\ (IF E.fault THEN LoopReadErr ELSE LoopExit)
         [] E.a = "CloseStart" -> AtTime /\ CloseStart
         [] E.a = "CloseDone" -> AtTime /\ CloseDone
         [] E.a = "CloseReturn" -> AtTime /\ CloseReturn
         [] E.a = "CloseAgain" -> AtTime /\ CloseAgain /\ E.returned       \* a second Close returns at once
         [] E.a = "End" -> \* the run is over: every call has returned, the client is closed, no goroutine is left
                           /\ \A c \in Callers : cs[c].pc \in {"idle", "returned"}
                           /\ cl.closer = "returned" /\ lp.pc = "exited"
                           /\ UNCHANGED vars
         [] OTHER -> FALSE                     \* Crash, Stuck, Unknown: no behaviour of the specification
    /\ l' = l + 1 /\ k' = k /\ bad' = FALSE

\* the invariants of C10-C12, evaluated on every state of the validated behaviour; a violated one
\* is reported (with trace id and the number of lines consumed) and the run goes on
Chk(name, P) == P \/ PrintT(<<"INVARIANT", name, Traces[k].id, l - 1>>)
InvOK == bad \/ /\ Chk("OwnTransaction", OwnTransaction) /\ Chk("FirstAcceptable", FirstAcceptable)
                /\ Chk("ChanClosedOnlyAfterOwnDone", ChanClosedOnlyAfterOwnDone) /\ Chk("NoNilDelivery", NoNilDelivery)
                /\ Chk("PendingEntriesLive", PendingEntriesLive) /\ Chk("Capacity", Capacity)
                /\ Chk("IdReusable", IdReusable) /\ Chk("CloseStopsLoop", CloseStopsLoop)
                /\ Chk("Deadline", Deadline) /\ Chk("CtxPrompt", CtxPrompt) /\ Chk("ClosePrompt", ClosePrompt)
                /\ Chk("Schedule", Schedule) /\ Chk("NoRespAtBudget", NoRespAtBudget) /\ Chk("DoneOnlyByClose", DoneOnlyByClose)

Reject == /\ ~bad /\ l <= Len(Ev)
          /\ PrintT(<<"MISMATCH", Traces[k].id, l>>)
          /\ bad' = TRUE /\ UNCHANGED <<vars, k, l>>

TNext == IF ENABLED Consume THEN Consume ELSE Reject
TraceSpec == TInit /\ [][TNext]_tvars

=============================================================================
