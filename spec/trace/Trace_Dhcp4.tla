----------------------------- MODULE Trace_Dhcp4 -----------------------------
(* Trace validation for the DHCPv4 codec family (C01, C04, C06-v4, C07).     *)
(* Each ndjson line is one call of the real library recorded by `vh`; the     *)
(* trace spec consumes one line per step and evaluates the specification's    *)
(* operators on the logged input.  A line the specification does not allow is *)
(* reported as MISMATCH (and the run continues so that all are found).        *)
EXTENDS Dhcp4Wire, Json, IOUtils, TLC

Trace == ndJsonDeserialize(IOEnv.VH_TRACE)
NShards == atoi(IOEnv.VH_SHARDS)
N == Len(Trace)

VARIABLES l, hi
vars == <<l, hi>>

StdHeader == <<2, 1, 6, 0, 1, 2, 3, 4>> \o Zeros(20) \o <<10, 11, 12, 13, 14, 15>> \o Zeros(10)
             \o Zeros(SnameLen) \o Zeros(FileLen) \o Cookie

Has(e, f) == f \in DOMAIN e
Outcome(e) == IF Has(e.out, "ok") THEN e.out ELSE [ok |-> "crash"]   \* panic / timeout matches nothing

\* ---- one predicate per recorded operation
AgreeDec(in, out) == LET d == Dec4(in) IN
                     /\ Has(out, "ok")
                     /\ out.ok = d.ok
                     /\ (d.ok => out.val = d.val)

\* C01: the library's encoding is the RFC encoding of the value, and decoding it gives the value back
AgreeRT(e) == /\ Has(e.out, "ok")
              /\ e.wire = Enc4(e.val)
              /\ e.out = [ok |-> TRUE, val |-> Canon(e.val)]
              /\ Dec4(e.wire) = e.out

\* C07: the bytes are the canonical RFC encoding of the contents (a function of the contents only)
AgreeEnc(e) == /\ e.wire = Enc4(e.val)
               /\ Canonical(e.wire)
               /\ Dec4(e.wire) = [ok |-> TRUE, val |-> Canon(e.val)]

\* C06: decode -> encode -> decode is a fixpoint; only normalisations differ
AgreeFix(e) == LET d == Dec4(e["in"]) IN
               /\ Has(e.out, "ok") /\ e.out.ok = d.ok
               /\ d.ok => /\ e.out.val = d.val
                          /\ e.b1 = Enc4(d.val)                \* re-encoding is the canonical encoding
                          /\ e.out2 = [ok |-> TRUE, val |-> Canon(d.val)]   \* decodes to an equal message
                          /\ e.b2 = e.b1                       \* encoding again reproduces the bytes

\* C07 (spec -> implementation): a TLC-chosen history applied to a real packet gives the
\* contents the specification computed, one encoding however often it is encoded, and that
\* encoding is the canonical one
AgreeOps(e) == /\ e.val.opts = e.expect
               /\ e.nenc = 1
               /\ AgreeEnc(e)

Agree(e) == CASE e.op = "Dec4"  -> AgreeDec(e["in"], e.out)
              [] e.op = "Dec4a" -> AgreeDec(StdHeader \o e.area, e.out)
              [] e.op = "RT4"   -> AgreeRT(e)
              [] e.op = "Enc4"  -> AgreeEnc(e) /\ e.nenc = 1
              [] e.op = "Ops4"  -> AgreeOps(e)
              [] e.op = "Fix4"  -> AgreeFix(e)
              [] OTHER -> FALSE

ShardLo(k) == ((k - 1) * N) \div NShards + 1
ShardHi(k) == (k * N) \div NShards
Init == \E k \in 1..NShards : l = ShardLo(k) /\ hi = ShardHi(k)
Next == /\ l <= hi
        /\ (IF Agree(Trace[l]) THEN TRUE ELSE PrintT(<<"MISMATCH", Trace[l].id>>))
        /\ l' = l + 1 /\ hi' = hi
TraceSpec == Init /\ [][Next]_vars
=============================================================================
