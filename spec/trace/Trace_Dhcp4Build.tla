-------------------------- MODULE Trace_Dhcp4Build --------------------------
(* Trace validation for C15 against spec/Dhcp4Build.tla.                      *)
EXTENDS Dhcp4Build, Json, IOUtils, TLC
Trace == ndJsonDeserialize(IOEnv.VH_TRACE)
NShards == atoi(IOEnv.VH_SHARDS)
N == Len(Trace)
VARIABLES l, hi
vars == <<l, hi>>
Has(e, f) == f \in DOMAIN e

\* the transaction id is random unless determined by the answered packet or a modifier: it is taken
\* from the observed result, which must then equal the specification's result in every field
Agree(e) == /\ Has(e.out, "ok") /\ e.out.ok
            /\ e.out.val = Build(e.builder, e["in"], e.mods, e.out.val.xid)

ShardLo(k) == ((k - 1) * N) \div NShards + 1
ShardHi(k) == (k * N) \div NShards
Init == \E k \in 1..NShards : l = ShardLo(k) /\ hi = ShardHi(k)
Next == /\ l <= hi
        /\ (IF Agree(Trace[l]) THEN TRUE ELSE PrintT(<<"MISMATCH", Trace[l].id>>))
        /\ l' = l + 1 /\ hi' = hi
TraceSpec == Init /\ [][Next]_vars
=============================================================================
