--------------------------- MODULE Trace_Dhcp4Opts ---------------------------
(* Trace validation for C17: results of the typed DHCPv4 accessors on packets  *)
(* carrying a given raw option value, judged by spec/Dhcp4Opts.tla.            *)
EXTENDS Dhcp4Opts, Json, IOUtils, TLC

Trace == ndJsonDeserialize(IOEnv.VH_TRACE)
NShards == atoi(IOEnv.VH_SHARDS)
N == Len(Trace)
VARIABLES l, hi
vars == <<l, hi>>
Has(e, f) == f \in DOMAIN e

\* a zero-length value on the wire is indistinguishable from "absent" for the accessors
Absent(kind) == [ok |-> kind \in {"string", "nulstring"}, v |-> <<>>]
Expect(acc, absent, raw) ==
    LET kind == KindOf(acc) IN
    IF absent \/ raw = <<>> THEN Absent(kind) ELSE Access(kind, raw)

AgreeAcc(e) ==
    /\ ~Has(e.res, "panic")
    /\ LET x == Expect(e.acc, e.absent, e.raw) IN
       CASE e.acc = "MessageType" -> e.res.v = (IF x.ok THEN x.v ELSE <<0>>)        \* MessageTypeNone = 0
         [] e.acc = "UserClass" -> e.res.v = x.v                                    \* documented raw fallback
         [] OTHER -> e.res.ok = x.ok /\ e.res.v = x.v
AgreeLabels(e) == ~Has(e.res, "panic") /\ LabelAgrees(e.raw, e.res.ok, e.res.names)
\* a value set through its typed constructor reads back as the value that was set
AgreeSetGet(e) == /\ ~Has(e.res, "panic")
                  /\ e.res.v = e.val
                  /\ (e.acc \notin {"MessageType", "UserClass"} => e.res.ok)

\* a number of seconds stored as a Duration value: the 32-bit field in network byte order; a negative number (time offset,
\* RFC 2132 3.4) in two's complement
Inv4(b) == [i \in 1..4 |-> 255 - b[i]]
RECURSIVE Inc4(_, _)
Inc4(b, i) == IF i = 0 THEN b ELSE IF b[i] = 255 THEN Inc4([b EXCEPT ![i] = 0], i - 1) ELSE [b EXCEPT ![i] = b[i] + 1]
Seconds32(neg, abs) == IF neg THEN Inc4(Inv4(abs), 4) ELSE abs
AgreeSetRaw(e) == e.kind = "seconds" /\ e.raw = Seconds32(e.neg, e.abs) /\ e.wire = e.raw

Agree(e) == CASE e.op = "Acc" -> AgreeAcc(e)
              [] e.op = "AccLabels" -> AgreeLabels(e)
              [] e.op = "SetGet" -> AgreeSetGet(e)
              [] e.op = "SetRaw" -> AgreeSetRaw(e)
              [] OTHER -> FALSE

ShardLo(k) == ((k - 1) * N) \div NShards + 1
ShardHi(k) == (k * N) \div NShards
Init == \E k \in 1..NShards : l = ShardLo(k) /\ hi = ShardHi(k)
Next == /\ l <= hi
        /\ (IF Agree(Trace[l]) THEN TRUE ELSE PrintT(<<"MISMATCH", Trace[l].id>>))
        /\ l' = l + 1 /\ hi' = hi
TraceSpec == Init /\ [][Next]_vars
=============================================================================
