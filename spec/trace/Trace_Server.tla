----------------------------- MODULE Trace_Server -----------------------------
(* Trace validation for spec/Server.tla: each ndjson line is one execution of  *)
(* the real server4 / server6 server over a scripted connection, with one or   *)
(* two goroutines running Serve (field "loops"; Loops = {1, 2} in the cfg, the  *)
(* second loop stays idle in single-loop executions).                          *)
EXTENDS Server, Json, IOUtils

Traces == ndJsonDeserialize(IOEnv.VH_TRACE)
VARIABLES k, l, bad
tvars == <<vars, k, l, bad>>
Ev == Traces[k].ev
E == Ev[l]
Active == 1..Traces[k].loops

TInit == k \in 1..Len(Traces) /\ l = 1 /\ bad = FALSE /\ Init

\* the peer rule depends on the protocol of trace k (V4 is a constant of Server.tla: one TLC run per protocol)
ForThisRun == Traces[k].v4 = V4

\* ParseFail has no observable event of its own: the loop's next ReadFrom call shows it
FailThenCall(lp) == /\ pc[lp] = "parse" /\ Skipped(cur[lp]) /\ ~StopOnParseError
                    /\ pc' = [pc EXCEPT ![lp] = "blocked"]
                    /\ UNCHANGED <<net, narr, cur, reads, spawned, closed, ret>>

Consume ==
    /\ l <= Len(Ev)
    /\ CASE E.a = "Arrive" -> Arrive(E.kind, E.sender, E.port) /\ E.id = narr + 1
         [] E.a = "ReadCall" -> E.lp \in Active /\ (CallRead(E.lp) \/ FailThenCall(E.lp))
         [] E.a = "Read" -> E.lp \in Active /\ Read(E.lp) /\ cur'[E.lp].id = E.id
         [] E.a = "Spawn" -> \E lp \in Active :
                             /\ Spawn(lp)
                             /\ E.id = cur[lp].id /\ E.peer = PeerOf(cur[lp])
                             /\ E.mh = E.sh                     \* the message is the decoding of this datagram
         [] E.a = "Finish" -> /\ \E h \in DOMAIN spawned : spawned[h].id = E.id /\ HandlerFinish(h)
                              /\ E.mh = E.sh                    \* ... and still is after later reads
         [] E.a = "Close" -> IF closed THEN CloseAgain ELSE CloseCall
         [] E.a = "Return" -> /\ E.lp \in Active
                              /\ IF pc[E.lp] = "blocked" THEN ReadClosed(E.lp) /\ E.ret = "closed"
                                 ELSE IF pc[E.lp] = "failed" THEN ReadErrReturn(E.lp) /\ E.ret = "readerr"
                                 ELSE pc[E.lp] = "returned" /\ E.ret = ret[E.lp] /\ UNCHANGED vars
         [] E.a = "End" -> /\ \A lp \in Active : pc[lp] = "returned"
                           /\ \A h \in DOMAIN spawned : spawned[h].done
                           /\ Len(reads) = narr \/ closed
                           /\ UNCHANGED vars
         [] OTHER -> FALSE
    /\ l' = l + 1 /\ k' = k /\ bad' = FALSE

Chk(name, P) == P \/ PrintT(<<"INVARIANT", name, Traces[k].id, l - 1>>)
\* one loop dispatches in read order
OrderedWhenSingle == Traces[k].loops = 1 => \A g, h \in DOMAIN spawned : g < h => spawned[g].id < spawned[h].id
InvOK == bad \/ /\ Chk("ExactlyOnce", ExactlyOnce) /\ Chk("PeerRule", PeerRule)
                /\ Chk("OwnMessage", OwnMessage) /\ Chk("ReturnOnlyOnError", ReturnOnlyOnError)
                /\ Chk("OrderedWhenSingle", OrderedWhenSingle)

Reject == /\ ~bad /\ l <= Len(Ev)
          /\ PrintT(<<"MISMATCH", Traces[k].id, l>>)
          /\ bad' = TRUE /\ UNCHANGED <<vars, k, l>>
TNext == IF ENABLED Consume THEN Consume ELSE Reject
TraceSpec == TInit /\ [][TNext]_tvars
=============================================================================
