----------------------------- MODULE Trace_Server -----------------------------
(* Trace validation for spec/Server.tla: each ndjson line is one execution of  *)
(* the real server4 / server6 Serve loop over a scripted connection.           *)
EXTENDS Server, Json, IOUtils

Traces == ndJsonDeserialize(IOEnv.VH_TRACE)
VARIABLES k, l, bad
tvars == <<vars, k, l, bad>>
Ev == Traces[k].ev
E == Ev[l]

TInit == k \in 1..Len(Traces) /\ l = 1 /\ bad = FALSE /\ Init

\* the peer rule depends on the protocol of trace k (V4 is a constant of Server.tla: one TLC run per protocol)
ForThisRun == Traces[k].v4 = V4

HIndex(id) == CHOOSE h \in DOMAIN spawned : spawned[h].id = id

\* ParseFail has no observable event of its own: the next ReadFrom call shows it
FailThenCall == /\ pc = "parse" /\ cur.kind \in {"undec", "empty"} /\ ~StopOnParseError
                /\ pc' = "blocked"
                /\ UNCHANGED <<net, narr, cur, reads, spawned, closed, ret>>

Consume ==
    /\ l <= Len(Ev)
    /\ CASE E.a = "Arrive" -> Arrive(E.kind, E.sender, E.port) /\ E.id = narr + 1
         [] E.a = "ReadCall" -> CallRead \/ FailThenCall
         [] E.a = "Read" -> Read /\ cur'.id = E.id
         [] E.a = "Spawn" -> /\ Spawn
                             /\ E.id = cur.id /\ E.peer = PeerOf(cur)
                             /\ E.mh = E.sh                     \* the message is the decoding of this datagram
         [] E.a = "Finish" -> /\ \E h \in DOMAIN spawned : spawned[h].id = E.id /\ HandlerFinish(h)
                              /\ E.mh = E.sh                    \* ... and still is after later reads
         [] E.a = "Close" -> CloseCall
         [] E.a = "Return" -> IF pc = "blocked" THEN ReadClosed /\ E.ret = "closed"
                              ELSE pc = "returned" /\ E.ret = ret /\ UNCHANGED vars
         [] E.a = "End" -> /\ pc = "returned" /\ \A h \in DOMAIN spawned : spawned[h].done
                           /\ Len(reads) = narr \/ closed
                           /\ UNCHANGED vars
         [] OTHER -> FALSE
    /\ l' = l + 1 /\ k' = k /\ bad' = FALSE

Chk(name, P) == P \/ PrintT(<<"INVARIANT", name, Traces[k].id, l - 1>>)
InvOK == bad \/ /\ Chk("ExactlyOnce", ExactlyOnce) /\ Chk("PeerRule", PeerRule)
                /\ Chk("OwnMessage", OwnMessage) /\ Chk("ReturnOnlyOnError", ReturnOnlyOnError)

Reject == /\ ~bad /\ l <= Len(Ev)
          /\ PrintT(<<"MISMATCH", Traces[k].id, l>>)
          /\ bad' = TRUE /\ UNCHANGED <<vars, k, l>>
TNext == IF ENABLED Consume THEN Consume ELSE Reject
TraceSpec == TInit /\ [][TNext]_tvars
=============================================================================
