SPECIFICATION TraceSpec
CONSTANTS
  V4 = FALSE
  Loops = {1, 2}
  ServerWideBuffer = FALSE
  StopOnParseError = FALSE
  ReuseReadBuffer = FALSE
INVARIANTS InvOK
CHECK_DEADLOCK FALSE
