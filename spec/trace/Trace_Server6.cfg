SPECIFICATION TraceSpec
CONSTANTS
  V4 = FALSE
  StopOnParseError = FALSE
  ReuseReadBuffer = FALSE
INVARIANTS InvOK
CHECK_DEADLOCK FALSE
