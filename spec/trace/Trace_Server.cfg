SPECIFICATION TraceSpec
CONSTANTS
  V4 = TRUE
  StopOnParseError = FALSE
  ReuseReadBuffer = FALSE
INVARIANTS InvOK
CHECK_DEADLOCK FALSE
