------------------------------ MODULE Trace_Cost ------------------------------
(* Trace validation for C09: measured allocation and retained size of the real  *)
(* decoders on the witness families, judged by the bound operators of Cost.tla. *)
EXTENDS Integers, Sequences, TLC, Json, IOUtils
AllocBoundKiB(n, d) == (256 * n) \div 1024 + (8 * (n * d)) \div 1024 + 64
SizeBoundKiB(n) == (64 * n) \div 1024 + 16
Trace == ndJsonDeserialize(IOEnv.VH_TRACE)
NShards == atoi(IOEnv.VH_SHARDS)
N == Len(Trace)
VARIABLES l, hi
vars == <<l, hi>>
FanKiB(n) == ((n \div 8) * n) \div 1024
FanAllocBoundKiB(n) == (5 * FanKiB(n)) \div 2 + AllocBoundKiB(n, 1)
FanSizeBoundKiB(n) == (3 * FanKiB(n)) \div 2 + SizeBoundKiB(n)
\* beyond even the amplification that is a known finding
Worse(e) == e.allocKiB > FanAllocBoundKiB(e.n) \/ e.retainedKiB > FanSizeBoundKiB(e.n)
Agree(e) == /\ ~e.killed                                    \* finished within the time limit
            /\ e.allocKiB <= AllocBoundKiB(e.n, e.depth)
            /\ e.retainedKiB <= SizeBoundKiB(e.n)
ShardLo(k) == ((k - 1) * N) \div NShards + 1
ShardHi(k) == (k * N) \div NShards
Init == \E k \in 1..NShards : l = ShardLo(k) /\ hi = ShardHi(k)
Next == /\ l <= hi
        /\ (IF Agree(Trace[l]) THEN TRUE ELSE PrintT(<<"MISMATCH", Trace[l].id>>))
        /\ (IF Worse(Trace[l]) THEN PrintT(<<"WORSE", Trace[l].id>>) ELSE TRUE)
        /\ l' = l + 1 /\ hi' = hi
TraceSpec == Init /\ [][Next]_vars
=============================================================================
