----------------------------- MODULE Trace_Dhcp6 -----------------------------
(* Trace validation for the DHCPv6 codec family (C02, C05, C06-v6) against     *)
(* spec/Dhcp6Wire.tla.                                                         *)
EXTENDS Dhcp6Wire, Json, IOUtils, TLC

Trace == ndJsonDeserialize(IOEnv.VH_TRACE)
NShards == atoi(IOEnv.VH_SHARDS)
N == Len(Trace)
VARIABLES l, hi
vars == <<l, hi>>
Has(e, f) == f \in DOMAIN e
Val(out) == IF Has(out, "val") THEN out.val ELSE <<>>

\* C05: accept exactly the well-formed inputs and read the RFC values
AgreeDec(in, out) == Has(out, "ok") /\ Agrees6(Dec6(in), out.ok, Val(out))
\* the concrete entry points (MessageFromBytes, RelayMessageFromBytes): each accepts the messages of its own header family
\* exactly as the general decoder does, and refuses every message of the other family
AgreeDecEntry(e) == LET relayIn == Len(e["in"]) >= 1 /\ e["in"][1] \in {12, 13} IN
                    IF (e.ep = "relay") = relayIn THEN AgreeDec(e["in"], e.out)
                    ELSE Has(e.out, "ok") /\ ~e.out.ok
AgreeDecOpt(e) == Has(e.out, "ok") /\ Agrees6(DecOpt("main", e.code, e["in"]), e.out.ok, Val(e.out))

\* C02: the emitted bytes are the RFC layout of the value; decoding them gives the value back
AgreeRT(e) == /\ Has(e.out, "ok") /\ e.out.ok
              /\ e.wire = Enc6(e.val)
              /\ Same(e.out.val, e.val)
              /\ LET d == Dec6(e.wire) IN d.st # "no" /\ Same(d.v, e.val)

\* C06: decode -> encode -> decode is a fixpoint, the second encoding reproduces the first
AgreeFix(e) == LET d == Dec6(e["in"]) IN
               /\ Has(e.out, "ok") /\ Agrees6(d, e.out.ok, Val(e.out))
               /\ e.out.ok => /\ LET d1 == Dec6(e.b1) IN d1.st # "no" /\ Same(d1.v, Canon6(e.out.val))   \* the re-encoding reads (by the RFC decoder) as the same message
                              /\ Has(e.out2, "ok") /\ e.out2.ok
                              /\ Same(e.out2.val, Canon6(e.out.val))            \* ... and decodes to an equal message
                              /\ e.b2 = e.b1                        \* encoding again reproduces the bytes

Agree(e) == CASE e.op = "Dec6" -> AgreeDec(e["in"], e.out)
              [] e.op = "Dec6E" -> AgreeDecEntry(e)
              [] e.op = "DecOpt6" -> AgreeDecOpt(e)
              [] e.op = "RT6" -> AgreeRT(e)
              [] e.op = "Fix6" -> AgreeFix(e)
              [] OTHER -> FALSE

ShardLo(k) == ((k - 1) * N) \div NShards + 1
ShardHi(k) == (k * N) \div NShards
Init == \E k \in 1..NShards : l = ShardLo(k) /\ hi = ShardHi(k)
Next == /\ l <= hi
        /\ (IF Agree(Trace[l]) THEN TRUE ELSE PrintT(<<"MISMATCH", Trace[l].id>>))
        /\ l' = l + 1 /\ hi' = hi
TraceSpec == Init /\ [][Next]_vars
=============================================================================
