------------------------------- MODULE Client -------------------------------
(* The transaction multiplexer shared by nclient4 and nclient6:              *)
(*   - callers running SendAndRead (retry loop, send/register, wait loop,    *)
(*     cancel),                                                              *)
(*   - the receive loop (read, filter, lock, select{done | deliver}),        *)
(*   - Close,                                                                *)
(*   - the environment (datagram arrival, context cancellation, time).       *)
(*                                                                           *)
(* One action per critical section / per scheduling point of the code; the   *)
(* action names are the names of the verif hooks in nclient4/client.go and   *)
(* nclient6/client.go (see MANIFEST.hooks).  The same actions are used by    *)
(*   spec/mc/MC_Client*.cfg     exhaustive exploration (properties C10-C12), *)
(*   spec/trace/Trace_Client    validation of traces recorded from the real  *)
(*                              clients under a gate scheduler.              *)
(*                                                                           *)
(* Park positions of a caller (pc):                                          *)
(*   idle -> sendpre -> txpre -> wait -> woken -> (wait | cancelpre)         *)
(*        -> cancellock -> (sendpre | returned)                              *)
(* Park positions of the receive loop: read -> prelock -> select -> read,    *)
(*   exited.  While the loop is in "select" it HOLDS the pending mutex (the  *)
(*   code blocks in select{<-done | ch<-msg} with the lock held).            *)
EXTENDS Integers, Sequences, FiniteSets, TLC

CONSTANTS Callers,      \* set of caller ids
          Xids,         \* set of transaction ids that can appear
          None

VARIABLES cfg,      \* [T, tries, bufcap, v4, xid : [Callers -> Xids], urgent, timed, maxCalls, wfault,
                    \*  rfault, cancelChecksIdentity, timerPerIteration, timeoutCarriesOver, writeErrKeepsEntry, fireRegisters,
                    \*  readErrEndsCalls, loopSurvivesClose]   (never changes)
          cs,       \* caller state: [Callers -> record]
          ents,     \* sequence of pending-map entries ever created:
                    \*   [ch, closed, done, owner, xid, hist]
          pending,  \* [Xids -> entry index | 0]
          lp,       \* receive loop: [pc, msg]
          cl,       \* client: [connClosed, doneClosed, closer]
          net,      \* datagrams queued on the socket (ids)
          dgs,      \* attributes of every datagram injected so far: [xid, kind]
          rxn,      \* number of datagrams the loop has read
          ctxDone,  \* [Callers -> BOOLEAN]
          now       \* virtual time in units

vars == <<cfg, cs, ents, pending, lp, cl, net, dgs, rxn, ctxDone, now>>

Kinds == {"good", "rej", "undec", "wrongop", "wronghw"}

InitCaller == [pc |-> "idle", try |-> 0, tmo |-> 0, deadline |-> 0, ent |-> 0, res |-> None, got |-> 0,
               start |-> 0, retAt |-> 0, txs |-> <<>>, wake |-> None, wd |-> 0, regRx |-> 0, ctxAt |-> -1,
               calls |-> 0, lastTmo |-> 0]

InitWith(c) ==
    /\ cfg = c
    /\ cs = [x \in Callers |-> InitCaller]
    /\ ents = <<>>
    /\ pending = [x \in Xids |-> 0]
    /\ lp = [pc |-> "read", msg |-> 0]
    /\ cl = [connClosed |-> FALSE, doneClosed |-> FALSE, closer |-> "idle", closeAt |-> -1]
    /\ net = <<>> /\ dgs = <<>> /\ rxn = 0
    /\ ctxDone = [x \in Callers |-> FALSE]
    /\ now = 0

LockFree == lp.pc # "select"          \* callers' critical sections are atomic actions
Set(c, r) == cs' = [cs EXCEPT ![c] = r]

\* ------------------------------------------------------------------ callers
\* SendAndRead is called; retryFn starts (a try count of 0 fails at once)
Start(c) ==
    /\ cs[c].pc = "idle"
    /\ Set(c, [cs[c] EXCEPT !.start = now,
                             !.tmo = IF cfg.timeoutCarriesOver /\ cs[c].calls > 0 THEN cs[c].lastTmo ELSE cfg.T,
                             !.pc = IF cfg.tries = 0 THEN "returned" ELSE "sendpre",
                             !.res = IF cfg.tries = 0 THEN "noresp" ELSE None,
                             !.retAt = now])
    /\ UNCHANGED <<cfg, ents, pending, lp, cl, net, dgs, rxn, ctxDone, now>>

\* the same caller calls SendAndRead again on the same client, with a fresh context: nothing of the
\* previous call is left (its transaction id is reusable, its timeout starts from the configured value again)
Again(c) ==
    /\ cs[c].pc = "returned" /\ cs[c].calls + 1 < cfg.maxCalls
    /\ Set(c, [InitCaller EXCEPT !.calls = cs[c].calls + 1, !.lastTmo = cs[c].tmo])
    /\ ctxDone' = [ctxDone EXCEPT ![c] = FALSE]
    /\ UNCHANGED <<cfg, ents, pending, lp, cl, net, dgs, rxn, now>>

\* send(): under the lock, refuse a transaction id that is pending, else register a new entry
SendLock(c) ==
    /\ cs[c].pc = "sendpre" /\ LockFree
    /\ LET x == cfg.xid[c] IN
       IF pending[x] # 0
       THEN /\ Set(c, [cs[c] EXCEPT !.pc = "returned", !.res = "inuse", !.retAt = now])
            /\ UNCHANGED <<ents, pending>>
       ELSE /\ ents' = Append(ents, [ch |-> <<>>, closed |-> FALSE, done |-> FALSE, owner |-> c,
                                     xid |-> x, hist |-> <<>>])
            /\ pending' = [pending EXCEPT ![x] = Len(ents) + 1]
            /\ Set(c, [cs[c] EXCEPT !.pc = "txpre", !.ent = Len(ents) + 1, !.regRx = rxn])
    /\ UNCHANGED <<cfg, lp, cl, net, dgs, rxn, ctxDone, now>>

\* conn.WriteTo: one transmission; the try's timer starts when the wait loop is entered
Transmit(c) ==
    /\ cs[c].pc = "txpre" /\ ~cl.connClosed
    /\ Set(c, [cs[c] EXCEPT !.pc = "wait", !.deadline = now + cs[c].tmo,
                             !.txs = Append(@, [at |-> now - cs[c].start, try |-> cs[c].try + 1])])
    /\ UNCHANGED <<cfg, ents, pending, lp, cl, net, dgs, rxn, ctxDone, now>>
\* the write fails: always when the connection is closed, at any time when the environment injects faults (link
\* down).  The call cancels its registration and returns the error, without another attempt.
TransmitFail(c) ==
    /\ cs[c].pc = "txpre" /\ (cl.connClosed \/ cfg.wfault)
    /\ IF cfg.writeErrKeepsEntry
       THEN Set(c, [cs[c] EXCEPT !.pc = "returned", !.res = "writeerr", !.retAt = now])
       ELSE Set(c, [cs[c] EXCEPT !.pc = "cancelpre", !.res = "writeerr"])
    /\ UNCHANGED <<cfg, ents, pending, lp, cl, net, dgs, rxn, ctxDone, now>>

\* a one-shot transmission that expects no answer through this client (nclient4's Release): nothing is registered,
\* the call returns at once.  fireRegisters is the wrong design in which it goes through send() and forgets the entry.
Fire(c) ==
    /\ cs[c].pc = "idle" /\ ~cl.connClosed /\ (cfg.fireRegisters => LockFree)
    /\ Set(c, [cs[c] EXCEPT !.pc = "returned", !.res = "fired", !.retAt = now, !.start = now,
                             !.ent = IF cfg.fireRegisters /\ pending[cfg.xid[c]] = 0 THEN Len(ents) + 1 ELSE 0])
    /\ IF cfg.fireRegisters /\ pending[cfg.xid[c]] = 0
       THEN /\ ents' = Append(ents, [ch |-> <<>>, closed |-> FALSE, done |-> FALSE, owner |-> c, xid |-> cfg.xid[c], hist |-> <<>>])
            /\ pending' = [pending EXCEPT ![cfg.xid[c]] = Len(ents) + 1]
       ELSE UNCHANGED <<ents, pending>>
    /\ UNCHANGED <<cfg, lp, cl, net, dgs, rxn, ctxDone, now>>
FireFail(c) ==
    /\ cs[c].pc = "idle" /\ (cl.connClosed \/ cfg.wfault)
    /\ Set(c, [cs[c] EXCEPT !.pc = "returned", !.res = "writeerr", !.retAt = now, !.start = now])
    /\ UNCHANGED <<cfg, ents, pending, lp, cl, net, dgs, rxn, ctxDone, now>>

\* the wait loop's select: any ready arm may be taken (Go chooses at random)
WakeRecv(c) ==
    /\ cs[c].pc = "wait"
    /\ LET e == cs[c].ent IN
       \/ /\ ents[e].ch # <<>>
          /\ ents' = [ents EXCEPT ![e].ch = Tail(@)]
          /\ Set(c, [cs[c] EXCEPT !.pc = "woken", !.wake = "recv", !.wd = Head(ents[e].ch)])
       \/ /\ ents[e].ch = <<>> /\ ents[e].closed             \* receive from a closed channel: nil
          /\ ents' = ents
          /\ Set(c, [cs[c] EXCEPT !.pc = "woken", !.wake = "recv", !.wd = 0])
    /\ UNCHANGED <<cfg, pending, lp, cl, net, dgs, rxn, ctxDone, now>>
WakeTimeout(c) ==
    /\ cs[c].pc = "wait"
    /\ cfg.timed => now >= cs[c].deadline
    /\ Set(c, [cs[c] EXCEPT !.pc = "woken", !.wake = "timeout"])
    /\ UNCHANGED <<cfg, ents, pending, lp, cl, net, dgs, rxn, ctxDone, now>>
WakeCtx(c) ==
    /\ cs[c].pc = "wait" /\ ctxDone[c]
    /\ Set(c, [cs[c] EXCEPT !.pc = "woken", !.wake = "ctx"])
    /\ UNCHANGED <<cfg, ents, pending, lp, cl, net, dgs, rxn, ctxDone, now>>
WakeClosed(c) ==
    /\ cs[c].pc = "wait" /\ cl.doneClosed
    /\ Set(c, [cs[c] EXCEPT !.pc = "woken", !.wake = "closed"])
    /\ UNCHANGED <<cfg, ents, pending, lp, cl, net, dgs, rxn, ctxDone, now>>

\* the body of the select arm that was taken
Proceed(c) ==
    /\ cs[c].pc = "woken"
    /\ LET w == cs[c].wake d == cs[c].wd IN
       CASE w = "recv" /\ d = 0 ->           \* nil packet handed to the matcher / returned
              Set(c, [cs[c] EXCEPT !.pc = "returned", !.res = "nil", !.retAt = now])
         [] w = "recv" /\ d # 0 /\ dgs[d].kind = "good" ->
              Set(c, [cs[c] EXCEPT !.pc = "cancelpre", !.res = "msg", !.got = d])
         [] w = "recv" /\ d # 0 /\ dgs[d].kind # "good" ->   \* matcher rejects: keep waiting
              Set(c, [cs[c] EXCEPT !.pc = "wait",
                                   !.deadline = IF cfg.timerPerIteration THEN now + cs[c].tmo ELSE @])
         [] w = "timeout" -> Set(c, [cs[c] EXCEPT !.pc = "cancelpre", !.res = "deadline"])
         [] w = "ctx"     -> Set(c, [cs[c] EXCEPT !.pc = "cancelpre", !.res = "ctx"])
         [] w = "closed"  -> Set(c, [cs[c] EXCEPT !.pc = "cancelpre", !.res = "noresp"])
    /\ UNCHANGED <<cfg, ents, pending, lp, cl, net, dgs, rxn, ctxDone, now>>

\* cancel(): close(done) first (unblocks a receive loop stuck on a full channel) ...
CancelDone(c) ==
    /\ cs[c].pc = "cancelpre"
    /\ ents' = [ents EXCEPT ![cs[c].ent].done = TRUE]
    /\ Set(c, [cs[c] EXCEPT !.pc = "cancellock"])
    /\ UNCHANGED <<cfg, pending, lp, cl, net, dgs, rxn, ctxDone, now>>

\* ... then, under the lock, remove the entry; then retryFn decides what is next
CancelLock(c) ==
    /\ cs[c].pc = "cancellock" /\ LockFree
    /\ LET x == cfg.xid[c]
           e == pending[x]
           mine == e # 0 /\ (cfg.cancelChecksIdentity => e = cs[c].ent)
           r == cs[c]
           more == cfg.tries < 0 \/ r.try + 1 < cfg.tries
       IN /\ IF mine THEN /\ ents' = [ents EXCEPT ![e].closed = TRUE]
                          /\ pending' = [pending EXCEPT ![x] = 0]
                     ELSE UNCHANGED <<ents, pending>>
          /\ IF r.res = "deadline"
             THEN IF more THEN Set(c, [r EXCEPT !.pc = "sendpre", !.res = None, !.try = @ + 1, !.tmo = @ * 2])
                          ELSE Set(c, [r EXCEPT !.pc = "returned", !.res = "noresp", !.try = @ + 1, !.retAt = now])
             ELSE Set(c, [r EXCEPT !.pc = "returned", !.retAt = now])
    /\ UNCHANGED <<cfg, lp, cl, net, dgs, rxn, ctxDone, now>>

\* ------------------------------------------------------------- receive loop
Dropped(d) == \/ dgs[d].kind = "undec"
              \/ cfg.v4 /\ dgs[d].kind \in {"wrongop", "wronghw"}
\* ReadFrom returns the next datagram; undecodable / foreign ones are dropped at once
LoopRead ==
    /\ lp.pc = "read" /\ ~cl.connClosed /\ net # <<>>
    /\ net' = Tail(net) /\ rxn' = rxn + 1
    /\ lp' = IF Dropped(Head(net)) THEN lp ELSE [pc |-> "prelock", msg |-> Head(net)]
    /\ UNCHANGED <<cfg, cs, ents, pending, cl, dgs, ctxDone, now>>
\* ReadFrom fails because the connection has been closed - whatever error the connection reports then: the loop ends.
\* (loopSurvivesClose is the wrong design in which the loop goes on unless it recognises the error)
LoopExit ==
    /\ lp.pc = "read" /\ cl.connClosed /\ ~cfg.loopSurvivesClose
    /\ lp' = [pc |-> "exited", msg |-> 0]
    /\ UNCHANGED <<cfg, cs, ents, pending, cl, net, dgs, rxn, ctxDone, now>>
\* ReadFrom fails on an open connection (ICMP port unreachable, interface down, a frame the raw layer cannot read): the
\* loop ends (a step of the environment, like the arrival of a datagram), and that is all - calls in flight and later calls get no answers any more, they keep their schedule and
\* their outcomes; Close still returns.  (readErrEndsCalls is the wrong design in which the loop releases the callers.)
LoopReadErr ==
    /\ lp.pc = "read" /\ ~cl.connClosed /\ cfg.rfault
    /\ lp' = [pc |-> "exited", msg |-> 0]
    /\ cl' = IF cfg.readErrEndsCalls THEN [cl EXCEPT !.doneClosed = TRUE] ELSE cl
    /\ UNCHANGED <<cfg, cs, ents, pending, net, dgs, rxn, ctxDone, now>>
\* take the lock and look the transaction up
LoopLock ==
    /\ lp.pc = "prelock"
    /\ LET x == dgs[lp.msg].xid IN
       lp' = IF x \in Xids /\ pending[x] # 0 THEN [lp EXCEPT !.pc = "select"] ELSE [pc |-> "read", msg |-> 0]
    /\ UNCHANGED <<cfg, cs, ents, pending, cl, net, dgs, rxn, ctxDone, now>>
LoopEntry == pending[dgs[lp.msg].xid]
\* select arm <-p.done: close the channel and forget the transaction
LoopSelDone ==
    /\ lp.pc = "select" /\ ents[LoopEntry].done
    /\ ents' = [ents EXCEPT ![LoopEntry].closed = TRUE]
    /\ pending' = [pending EXCEPT ![dgs[lp.msg].xid] = 0]
    /\ lp' = [pc |-> "read", msg |-> 0]
    /\ UNCHANGED <<cfg, cs, cl, net, dgs, rxn, ctxDone, now>>
\* select arm p.ch <- msg: possible when the buffer has room (blocks otherwise, lock held)
LoopSelSend ==
    /\ lp.pc = "select" /\ Len(ents[LoopEntry].ch) < cfg.bufcap
    /\ ents' = [ents EXCEPT ![LoopEntry].ch = Append(@, lp.msg), ![LoopEntry].hist = Append(@, lp.msg)]
    /\ lp' = [pc |-> "read", msg |-> 0]
    /\ UNCHANGED <<cfg, cs, pending, cl, net, dgs, rxn, ctxDone, now>>

\* -------------------------------------------------------------------- Close
CloseStart ==                       \* CAS closed 0->1; conn.Close()
    /\ cl.closer = "idle"
    /\ cl' = [cl EXCEPT !.connClosed = TRUE, !.closer = "predone", !.closeAt = now]
    /\ UNCHANGED <<cfg, cs, ents, pending, lp, net, dgs, rxn, ctxDone, now>>
CloseDone ==                        \* close(c.done)
    /\ cl.closer = "predone"
    /\ cl' = [cl EXCEPT !.doneClosed = TRUE, !.closer = "waiting"]
    /\ UNCHANGED <<cfg, cs, ents, pending, lp, net, dgs, rxn, ctxDone, now>>
CloseAgain ==                       \* any further Close: the flag is already set, nothing happens, it returns at once
    /\ cl.closer # "idle"
    /\ UNCHANGED vars
CloseReturn ==                      \* wg.Wait() returns once the receive loop has exited
    /\ cl.closer = "waiting" /\ lp.pc = "exited"
    /\ cl' = [cl EXCEPT !.closer = "returned"]
    /\ UNCHANGED <<cfg, cs, ents, pending, lp, net, dgs, rxn, ctxDone, now>>

\* -------------------------------------------------------------- environment
Inject(a) ==
    /\ dgs' = Append(dgs, a)
    /\ net' = Append(net, Len(dgs) + 1)
    /\ UNCHANGED <<cfg, cs, ents, pending, lp, cl, rxn, ctxDone, now>>
CtxCancel(c) ==
    /\ ~ctxDone[c]
    /\ ctxDone' = [ctxDone EXCEPT ![c] = TRUE]
    /\ cs' = [cs EXCEPT ![c].ctxAt = now]
    /\ UNCHANGED <<cfg, ents, pending, lp, cl, net, dgs, rxn, now>>

CallerStep(c) == \/ SendLock(c) \/ Transmit(c) \/ TransmitFail(c) \/ WakeRecv(c) \/ WakeTimeout(c) \/ WakeCtx(c)
                 \/ WakeClosed(c) \/ Proceed(c) \/ CancelDone(c) \/ CancelLock(c)
LoopStep == LoopRead \/ LoopExit \/ LoopLock \/ LoopSelDone \/ LoopSelSend
CloseStep == CloseDone \/ CloseReturn
Internal == (\E c \in Callers : CallerStep(c)) \/ LoopStep \/ CloseStep

\* time passes; in urgent mode (the semantics of testing/synctest with a scheduler that never
\* holds a runnable goroutine back) only when no internal step is possible
Tick ==
    /\ cfg.timed
    /\ cfg.urgent => ~ENABLED Internal
    /\ now' = now + 1
    /\ UNCHANGED <<cfg, cs, ents, pending, lp, cl, net, dgs, rxn, ctxDone>>

\* ------------------------------------------------------------------ helpers
Pow2(n) == 2 ^ n
Max2(a, b) == IF a > b THEN a ELSE b
Budget == cfg.T * (Pow2(cfg.tries) - 1)          \* only meaningful for tries >= 0
Active(c) == cs[c].pc \notin {"idle", "returned"}
FirstGood(h) == IF \E i \in DOMAIN h : dgs[h[i]].kind = "good"
                THEN h[CHOOSE i \in DOMAIN h : dgs[h[i]].kind = "good" /\ \A j \in 1..(i - 1) : dgs[h[j]].kind # "good"]
                ELSE 0

\* --------------------------------------------------------------- properties
TypeOK == /\ \A x \in Xids : pending[x] \in 0..Len(ents)
          /\ lp.pc \in {"read", "prelock", "select", "exited"}
          /\ \A c \in Callers : cs[c].pc \in {"idle", "sendpre", "txpre", "wait", "woken", "cancelpre", "cancellock", "returned"}

\* C10 -- a call only ever returns a response to its own transaction ...
OwnTransaction ==
    \A c \in Callers : cs[c].res = "msg" =>
        LET d == cs[c].got IN
        /\ dgs[d].xid = cfg.xid[c]
        /\ dgs[d].kind = "good"                       \* decodable, passed the filter, matcher accepted
        /\ d \in {ents[cs[c].ent].hist[i] : i \in DOMAIN ents[cs[c].ent].hist}   \* delivered to this try's entry
\* ... and it is the first acceptable one delivered to that try
FirstAcceptable ==
    \A c \in Callers : cs[c].res = "msg" => cs[c].got = FirstGood(ents[cs[c].ent].hist)
\* a channel is closed only after its own call asked for it: nobody can read nil from it
ChanClosedOnlyAfterOwnDone == \A e \in DOMAIN ents : ents[e].closed => ents[e].done
NoNilDelivery == \A c \in Callers : cs[c].res # "nil"
\* an entry in the map is always open and belongs to a call that is between registration and cancel
PendingEntriesLive ==
    \A x \in Xids : pending[x] # 0 =>
        LET e == pending[x] IN
        /\ ~ents[e].closed /\ ents[e].xid = x
        /\ cs[ents[e].owner].ent = e /\ cs[ents[e].owner].pc \in {"txpre", "wait", "woken", "cancelpre", "cancellock"}
\* at most one registered call per transaction id; a colliding call is refused
RefuseWhilePending ==
    [][\A c \in Callers : (SendLock(c) /\ pending[cfg.xid[c]] # 0) => (cs'[c].res = "inuse" /\ pending' = pending)]_vars
\* dropped datagrams do not disturb any call
Isolation == [][(LoopRead /\ lp' = lp) => UNCHANGED <<cs, ents, pending>>]_vars
\* the channel never holds more than its capacity
Capacity == \A e \in DOMAIN ents : Len(ents[e].ch) <= cfg.bufcap

\* C11 -- completion
IdReusable == \A c \in Callers : cs[c].pc = "returned" /\ cs[c].ent # 0 => pending[cfg.xid[c]] # cs[c].ent
Deadline == (cfg.timed /\ cfg.urgent /\ cfg.tries >= 0) =>
                \A c \in Callers : Active(c) => now <= cs[c].start + Budget
CtxPrompt == (cfg.timed /\ cfg.urgent) =>
                \A c \in Callers : (Active(c) /\ ctxDone[c]) => now = Max2(cs[c].ctxAt, cs[c].start)
ClosePrompt == (cfg.timed /\ cfg.urgent) =>
                \A c \in Callers : (Active(c) /\ cl.doneClosed) => now = Max2(cl.closeAt, cs[c].start)
CloseStopsLoop == cl.closer = "returned" => lp.pc = "exited"
\* calls are released early by Close and by nothing else
DoneOnlyByClose == cl.doneClosed => cl.closer \in {"waiting", "returned"}
\* C12 -- retransmission schedule
Schedule == (cfg.timed /\ cfg.urgent) =>
                \A c \in Callers : \A i \in DOMAIN cs[c].txs :
                    cs[c].txs[i].at = cfg.T * (Pow2(i - 1) - 1) /\ cs[c].txs[i].try = i
NoRespAtBudget == (cfg.timed /\ cfg.urgent /\ cfg.tries >= 0) =>
                \A c \in Callers : (cs[c].pc = "returned" /\ cs[c].res = "noresp" /\ ~cl.doneClosed) =>
                    /\ Len(cs[c].txs) = cfg.tries
                    /\ cs[c].retAt = cs[c].start + Budget
NoTxAfterAccept == [][\A c \in Callers : (cs[c].res = "msg" /\ cs'[c].calls = cs[c].calls) => cs'[c].txs = cs[c].txs]_vars
=============================================================================
