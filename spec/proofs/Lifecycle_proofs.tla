-------------------------- MODULE Lifecycle_proofs --------------------------
(* Machine-checked proofs (TLAPS) that the intended design of Lifecycle.tla -  *)
(* no field keeps a reference into a buffer, no read-only operation writes,    *)
(* encodings are fresh buffers - satisfies C08 / C20 for EVERY set of fields   *)
(* and buffer contents and for behaviours of any length (TLC checks three      *)
(* fields and three contents).                                                 *)
EXTENDS Lifecycle, TLAPS

ASSUME Correct == AliasedFields = {} /\ MutatingReads = {} /\ PooledEncode = FALSE

AllOwn == \A f \in Fields : val[f].k = "own"

LEMMA InitOwn == Init => AllOwn
  BY DEF Init, AllOwn, Own

LEMMA NextOwn == AllOwn /\ [Next]_vars => AllOwn'
<1> SUFFICES ASSUME AllOwn, [Next]_vars PROVE AllOwn'
  OBVIOUS
<1>1. CASE \E c \in Contents : Decode(c)
  BY <1>1, Correct DEF Decode, AllOwn, Own
<1>2. CASE \E b \in DOMAIN heap, c \in Contents : Scribble(b, c)
  BY <1>2 DEF Scribble, AllOwn
<1>3. CASE \E f \in Fields : Read(f)
  BY <1>3, Correct DEF Read, AllOwn
<1>4. CASE Encode
  BY <1>4 DEF Encode, AllOwn
<1>5. CASE UNCHANGED vars
  BY <1>5 DEF vars, AllOwn
<1> QED BY <1>1, <1>2, <1>3, <1>4, <1>5 DEF Next

THEOREM OwnInvariant == Spec => []AllOwn
  BY InitOwn, NextOwn, PTL DEF Spec

\* what is observable does not depend on the heap when every field owns its contents
LEMMA ObsOwn == ASSUME AllOwn, val' = val PROVE Obs' = Obs
  BY DEF AllOwn, Obs, Resolve

LEMMA ScribbleStep == AllOwn /\ [Next]_vars => ((\E b \in DOMAIN heap, c \in Contents : Scribble(b, c)) => Obs' = Obs)
  BY ObsOwn DEF Scribble

LEMMA ReadStep == AllOwn /\ [Next]_vars => ((\E f \in Fields : Read(f)) => Obs' = Obs)
  BY ObsOwn, Correct DEF Read

THEOREM C08_ScribbleInvisible == Spec => ScribbleInvisible
<1>1. AllOwn /\ [Next]_vars => [(\E b \in DOMAIN heap, c \in Contents : Scribble(b, c)) => Obs' = Obs]_vars
  BY ScribbleStep
<1> QED BY <1>1, OwnInvariant, PTL DEF Spec, ScribbleInvisible

THEOREM C20_ReadOnly == Spec => ReadOnly
<1>1. AllOwn /\ [Next]_vars => [(\E f \in Fields : Read(f)) => Obs' = Obs]_vars
  BY ReadStep
<1> QED BY <1>1, OwnInvariant, PTL DEF Spec, ReadOnly

\* ---- C08, second clause: an encoding handed out is not changed by later encodings
ASSUME NonEmpty == Fields # {} /\ Contents # {}
Bufs == {"in", "pool", "out1", "out2"}
TypeOK == /\ heap \in [Bufs -> Contents]
          /\ val \in [Fields -> [k : {"own"}, c : Contents]]
          /\ outs \in Seq([b : {"out1", "out2"}, c : Contents])
          /\ Len(outs) <= 2
          /\ (Len(outs) >= 1 => outs[1].b = "out1")
          /\ (Len(outs) = 2 => outs[2].b = "out2")

LEMMA InitType == Init => TypeOK
<1> SUFFICES ASSUME Init PROVE TypeOK
  OBVIOUS
<1>1. (CHOOSE c \in Contents : TRUE) \in Contents
  BY NonEmpty
<1>2. heap \in [Bufs -> Contents]
  BY <1>1 DEF Init, Bufs
<1>3. val \in [Fields -> [k : {"own"}, c : Contents]]
  BY <1>1 DEF Init, Own
<1>4. outs = <<>>
  BY DEF Init
<1> QED BY <1>2, <1>3, <1>4 DEF TypeOK

LEMMA NextType == TypeOK /\ [Next]_vars => TypeOK'
<1> SUFFICES ASSUME TypeOK, [Next]_vars PROVE TypeOK'
  OBVIOUS
<1>1. CASE \E c \in Contents : Decode(c)
  BY <1>1, Correct DEF Decode, TypeOK, Own, Bufs
<1>2. CASE \E b \in DOMAIN heap, c \in Contents : Scribble(b, c)
  BY <1>2 DEF Scribble, TypeOK, Bufs
<1>3. CASE \E f \in Fields : Read(f)
  BY <1>3, Correct DEF Read, TypeOK
<1>4. CASE Encode
  <2>1. PICK f0 \in Fields : f0 = CHOOSE f \in Fields : TRUE
    BY NonEmpty
  <2>2. Obs[f0] \in Contents
    BY DEF Obs, Resolve, TypeOK
  <2>3. CASE Len(outs) = 0
    BY <1>4, <2>1, <2>2, <2>3, Correct DEF Encode, TypeOK, Bufs
  <2>4. CASE Len(outs) = 1
    BY <1>4, <2>1, <2>2, <2>4, Correct DEF Encode, TypeOK, Bufs
  <2> QED BY <1>4, <2>3, <2>4 DEF Encode, TypeOK
<1>5. CASE UNCHANGED vars
  BY <1>5 DEF vars, TypeOK
<1> QED BY <1>1, <1>2, <1>3, <1>4, <1>5 DEF Next

THEOREM TypeInvariant == Spec => []TypeOK
  BY InitType, NextType, PTL DEF Spec

LEMMA EncodeStep == TypeOK /\ [Next]_vars => (Encode => \A i \in DOMAIN outs : heap'[outs[i].b] = heap[outs[i].b])
<1> SUFFICES ASSUME TypeOK, Encode, NEW i \in DOMAIN outs PROVE heap'[outs[i].b] = heap[outs[i].b]
  OBVIOUS
<1>1. Len(outs) = 1 /\ i = 1
  BY DEF Encode, TypeOK
<1>2. outs[1].b = "out1"
  BY <1>1 DEF TypeOK
<1>3. heap' = [heap EXCEPT !["out2"] = Obs[CHOOSE f \in Fields : TRUE]]
  BY <1>1, Correct DEF Encode
<1> QED BY <1>1, <1>2, <1>3 DEF TypeOK, Bufs

THEOREM C08_EncodeFresh == Spec => EncodeFresh
<1>1. TypeOK /\ [Next]_vars => [Encode => \A i \in DOMAIN outs : heap'[outs[i].b] = heap[outs[i].b]]_vars
  BY EncodeStep
<1> QED BY <1>1, TypeInvariant, PTL DEF Spec, EncodeFresh
=============================================================================
