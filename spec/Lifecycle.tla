------------------------------ MODULE Lifecycle ------------------------------
(* Life of one decoded / constructed message value with respect to MEMORY and  *)
(* READ-ONLY USE (C08, C20):                                                   *)
(*   - a value is decoded from a caller-owned input buffer; the caller may     *)
(*     overwrite that buffer afterwards (Scribble);                            *)
(*   - encoding returns a buffer the caller may overwrite;                     *)
(*   - accessors and printing (Read) may be called any number of times.        *)
(* None of these may change what is observable about the value: its fields,    *)
(* its printed form, its encoding.                                             *)
(*                                                                             *)
(* Memory is explicit: a field of the value is either an owned copy or a       *)
(* reference into a buffer.  The switches name what a wrong implementation     *)
(* would do; with all of them empty/FALSE the properties hold, with any of     *)
(* them set TLC produces the counterexample (non-vacuity).                     *)
EXTENDS Integers, Sequences, FiniteSets, TLC

CONSTANTS Fields,          \* names of the fields of the value
          AliasedFields,   \* fields that keep a reference into the input buffer (must be {})
          MutatingReads,   \* read-only operations that in fact modify a field (must be {})
          PooledEncode,    \* encoding returns a shared buffer instead of a fresh one (must be FALSE)
          Contents         \* possible buffer contents

VARIABLES heap,     \* buffer id -> contents ("in", "out1", "out2", "pool")
          val,      \* field -> [own |-> contents] or [ref |-> buffer id]
          outs,     \* buffer ids handed out by Encode so far, with the contents they had when returned
          phase
vars == <<heap, val, outs, phase>>

Own(c) == [k |-> "own", c |-> c]
Ref(b) == [k |-> "ref", b |-> b]
Resolve(x) == IF x.k = "own" THEN x.c ELSE heap[x.b]
Obs == [f \in Fields |-> Resolve(val[f])]            \* what accessors / printing / re-encoding see

Init == /\ heap = [b \in {"in", "pool", "out1", "out2"} |-> CHOOSE c \in Contents : TRUE]
        /\ val = [f \in Fields |-> Own(CHOOSE c \in Contents : TRUE)]
        /\ outs = <<>> /\ phase = "fresh"

Decode(c) == /\ phase = "fresh"
             /\ heap' = [heap EXCEPT !["in"] = c]
             /\ val' = [f \in Fields |-> IF f \in AliasedFields THEN Ref("in") ELSE Own(c)]
             /\ phase' = "live" /\ outs' = outs
Scribble(b, c) == /\ phase = "live" /\ b \in {"in"} \cup {outs[i].b : i \in DOMAIN outs}
                  /\ heap' = [heap EXCEPT ![b] = c]
                  /\ UNCHANGED <<val, outs, phase>>
Read(f) == /\ phase = "live"
           /\ val' = IF f \in MutatingReads THEN [val EXCEPT ![f] = Own(CHOOSE c \in Contents : c # Resolve(val[f]))] ELSE val
           /\ UNCHANGED <<heap, outs, phase>>
Encode == /\ phase = "live" /\ Len(outs) < 2
          /\ LET b == IF PooledEncode THEN "pool" ELSE (IF Len(outs) = 0 THEN "out1" ELSE "out2")
                 enc == Obs[CHOOSE f \in Fields : TRUE]
             IN /\ heap' = [heap EXCEPT ![b] = enc]
                /\ outs' = Append(outs, [b |-> b, c |-> enc])
          /\ UNCHANGED <<val, phase>>
Next == \/ \E c \in Contents : Decode(c)
        \/ \E b \in DOMAIN heap, c \in Contents : Scribble(b, c)
        \/ \E f \in Fields : Read(f)
        \/ Encode
Spec == Init /\ [][Next]_vars

\* C08: overwriting the source buffer or a returned encoding changes nothing observable
ScribbleInvisible == [][(\E b \in DOMAIN heap, c \in Contents : Scribble(b, c)) => Obs' = Obs]_vars
\* C08: an encoding, once returned, is not changed by later encodings
EncodeFresh == [][Encode => \A i \in DOMAIN outs : heap'[outs[i].b] = heap[outs[i].b]]_vars
\* C20: reading / printing leaves every observation unchanged
ReadOnly == [][(\E f \in Fields : Read(f)) => Obs' = Obs]_vars
=============================================================================
