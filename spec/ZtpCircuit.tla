----------------------------- MODULE ZtpCircuit -----------------------------
(* Interface names in relay information: ztpv4.ParseCircuitID (RFC 3046       *)
(* circuit-id sub-option) and ztpv6.ParseRemoteID (remote-id, then             *)
(* interface-id of the innermost relay).  The library matches a list of        *)
(* regular expressions in order; here each expression is a sequence of tokens  *)
(* and M is a backtracking matcher with the leftmost-first, greedy semantics   *)
(* of those expressions.  Strings are byte strings; the correspondence holds   *)
(* for ASCII input (the library matches UTF-8 runes).                          *)
(* Part of the extended conformance (./check ext).                            *)
EXTENDS Ztp, Dhcp6Mods

NoCaps == [slot |-> <<>>, mod |-> <<>>, port |-> <<>>, subport |-> <<>>, vlan |-> <<>>, none |-> <<>>]
IsDigit(x) == x >= 48 /\ x <= 57
HasAt(s, i, w) == i + Len(w) - 1 <= Len(s) /\ SubSeq(s, i, i + Len(w) - 1) = w
RECURSIVE DigitRun(_, _), LineRun(_, _)
DigitRun(s, i) == IF i <= Len(s) /\ IsDigit(s[i]) THEN 1 + DigitRun(s, i + 1) ELSE 0
LineRun(s, i) == IF i <= Len(s) /\ s[i] # 10 THEN 1 + LineRun(s, i + 1) ELSE 0       \* "." does not match a newline

\* tokens: lit (a literal), alt (one of two literals), any ("."), digit ("[0-9]"), digits ("[0-9]+", greedy),
\* rest (".*", greedy), opt (an optional group, taken when possible).  n names the capture ("none": not kept).
\* M returns <<>> (no match from position i) or <<captures>>; end = the expression ends with "$" (end of text).
RECURSIVE M(_, _, _, _, _), TryLens(_, _, _, _, _, _, _, _)
M(toks, s, i, caps, end) ==
    IF toks = <<>> THEN (IF end /\ i # Len(s) + 1 THEN <<>> ELSE <<caps>>)
    ELSE LET k == Head(toks)
             r == Tail(toks)
         IN CASE k.t = "lit" -> IF HasAt(s, i, k.s) THEN M(r, s, i + Len(k.s), caps, end) ELSE <<>>
              [] k.t = "alt" -> LET x == IF HasAt(s, i, k.a) THEN M(r, s, i + Len(k.a), caps, end) ELSE <<>> IN
                                IF x # <<>> THEN x
                                ELSE IF HasAt(s, i, k.b) THEN M(r, s, i + Len(k.b), caps, end) ELSE <<>>
              [] k.t = "any" -> IF i <= Len(s) /\ s[i] # 10 THEN M(r, s, i + 1, caps, end) ELSE <<>>
              [] k.t = "digit" -> IF i <= Len(s) /\ IsDigit(s[i]) THEN M(r, s, i + 1, [caps EXCEPT ![k.n] = <<s[i]>>], end) ELSE <<>>
              [] k.t = "digits" -> TryLens(r, s, i, caps, end, k.n, DigitRun(s, i), 1)
              [] k.t = "rest" -> TryLens(r, s, i, caps, end, k.n, LineRun(s, i), 0)
              [] k.t = "opt" -> LET x == M(k.toks \o r, s, i, caps, end) IN IF x # <<>> THEN x ELSE M(r, s, i, caps, end)
TryLens(r, s, i, caps, end, n, len, min) ==            \* greedy: the longest run first
    IF len < min THEN <<>>
    ELSE LET x == M(r, s, i + len, [caps EXCEPT ![n] = SubSeq(s, i, i + len - 1)], end) IN
         IF x # <<>> THEN x ELSE TryLens(r, s, i, caps, end, n, len - 1, min)
\* the leftmost match of one expression (only position 1 when it starts with "^")
RECURSIVE FindFrom(_, _, _)
FindFrom(p, s, i) == IF i > Len(s) + 1 THEN <<>>
                     ELSE LET x == M(p.toks, s, i, NoCaps, p.end) IN
                          IF x # <<>> THEN x ELSE IF p.start THEN <<>> ELSE FindFrom(p, s, i + 1)
\* the first expression of the list that matches decides
RECURSIVE MatchFirst(_, _)
MatchFirst(ps, s) == IF ps = <<>> THEN <<>>
                     ELSE LET x == FindFrom(Head(ps), s, 1) IN IF x # <<>> THEN x ELSE MatchFirst(Tail(ps), s)

Circuit4Patterns == <<
    \* Juniper QFX et-0/0/0:0.0 and xe-0/0/0:0.0
    [start |-> TRUE, end |-> TRUE, toks |-> <<[t |-> "alt", a |-> <<101, 116>>, b |-> <<120, 101>>],
         [t |-> "lit", s |-> <<45>>],
         [t |-> "digits", n |-> "slot"],
         [t |-> "lit", s |-> <<47>>],
         [t |-> "digits", n |-> "mod"],
         [t |-> "lit", s |-> <<47>>],
         [t |-> "digits", n |-> "port"],
         [t |-> "lit", s |-> <<58>>],
         [t |-> "digits", n |-> "subport"],
         [t |-> "rest", n |-> "none"]>>],
    \* Juniper PTX et-0/0/0.0 (the dot of the pattern stands for any character)
    [start |-> TRUE, end |-> TRUE, toks |-> <<[t |-> "lit", s |-> <<101, 116, 45>>],
         [t |-> "digits", n |-> "slot"],
         [t |-> "lit", s |-> <<47>>],
         [t |-> "digits", n |-> "mod"],
         [t |-> "lit", s |-> <<47>>],
         [t |-> "digits", n |-> "port"],
         [t |-> "any"],
         [t |-> "digits", n |-> "subport"]>>],
    \* Juniper EX ge-0/0/0.0 and anything after it
    [start |-> TRUE, end |-> FALSE, toks |-> <<[t |-> "lit", s |-> <<103, 101, 45>>],
         [t |-> "digits", n |-> "slot"],
         [t |-> "lit", s |-> <<47>>],
         [t |-> "digits", n |-> "mod"],
         [t |-> "lit", s |-> <<47>>],
         [t |-> "digits", n |-> "port"],
         [t |-> "any"],
         [t |-> "digits", n |-> "subport"],
         [t |-> "rest", n |-> "none"]>>],
    \* Arista Ethernet3/17/1, possibly after a type and a length byte: not anchored at the start
    [start |-> FALSE, end |-> TRUE, toks |-> <<[t |-> "lit", s |-> <<69, 116, 104, 101, 114, 110, 101, 116>>],
         [t |-> "digits", n |-> "slot"],
         [t |-> "lit", s |-> <<47>>],
         [t |-> "digits", n |-> "mod"],
         [t |-> "lit", s |-> <<47>>],
         [t |-> "digits", n |-> "port"]>>],
    \* Juniper QFX et-1/0/61
    [start |-> TRUE, end |-> TRUE, toks |-> <<[t |-> "lit", s |-> <<101, 116, 45>>],
         [t |-> "digits", n |-> "slot"],
         [t |-> "lit", s |-> <<47>>],
         [t |-> "digits", n |-> "mod"],
         [t |-> "lit", s |-> <<47>>],
         [t |-> "digits", n |-> "port"]>>],
    \* Arista Ethernet14:Vlan2001, Ethernet10:2020
    [start |-> FALSE, end |-> TRUE, toks |-> <<[t |-> "lit", s |-> <<69, 116, 104, 101, 114, 110, 101, 116>>],
         [t |-> "digits", n |-> "port"],
         [t |-> "lit", s |-> <<58>>],
         [t |-> "rest", n |-> "vlan"]>>],
    \* Cisco Gi1/10:2020
    [start |-> TRUE, end |-> TRUE, toks |-> <<[t |-> "lit", s |-> <<71, 105>>],
         [t |-> "digits", n |-> "slot"],
         [t |-> "lit", s |-> <<47>>],
         [t |-> "digits", n |-> "port"],
         [t |-> "lit", s |-> <<58>>],
         [t |-> "rest", n |-> "vlan"]>>],
    \* Nexus Ethernet1/3
    [start |-> TRUE, end |-> TRUE, toks |-> <<[t |-> "lit", s |-> <<69, 116, 104, 101, 114, 110, 101, 116>>],
         [t |-> "digits", n |-> "slot"],
         [t |-> "lit", s |-> <<47>>],
         [t |-> "digits", n |-> "port"]>>],
    \* Juniper bundle ae52.0 (one digit of sub-port)
    [start |-> TRUE, end |-> TRUE, toks |-> <<[t |-> "lit", s |-> <<97, 101>>],
         [t |-> "digits", n |-> "port"],
         [t |-> "any"],
         [t |-> "digit", n |-> "subport"]>>],
    \* Arista bundle Port-Channel1
    [start |-> TRUE, end |-> TRUE, toks |-> <<[t |-> "lit", s |-> <<80, 111, 114, 116, 45, 67, 104, 97, 110, 110, 101, 108>>],
         [t |-> "digits", n |-> "port"]>>],
    \* Ciena .OSC-1-2 and .OSC-9-1-2
    [start |-> FALSE, end |-> TRUE, toks |-> <<[t |-> "lit", s |-> <<46, 79, 83, 67>>],
         [t |-> "opt", toks |-> <<[t |-> "lit", s |-> <<45>>], [t |-> "digits", n |-> "none"]>>],
         [t |-> "lit", s |-> <<45>>],
         [t |-> "digits", n |-> "slot"],
         [t |-> "lit", s |-> <<45>>],
         [t |-> "digits", n |-> "port"]>>]
>>
Circuit6Patterns == <<
    \* Arista port and VLAN (digits)
    [start |-> FALSE, end |-> FALSE, toks |-> <<[t |-> "lit", s |-> <<69, 116, 104, 101, 114, 110, 101, 116>>],
         [t |-> "digits", n |-> "port"],
         [t |-> "lit", s |-> <<58>>],
         [t |-> "digits", n |-> "vlan"]>>],
    \* Arista slot, module, port
    [start |-> FALSE, end |-> FALSE, toks |-> <<[t |-> "lit", s |-> <<69, 116, 104, 101, 114, 110, 101, 116>>],
         [t |-> "digits", n |-> "slot"],
         [t |-> "lit", s |-> <<47>>],
         [t |-> "digits", n |-> "mod"],
         [t |-> "lit", s |-> <<47>>],
         [t |-> "digits", n |-> "port"]>>]
>>

CErr == [st |-> "err"]
COk(c) == [st |-> "ok", slot |-> c.slot, mod |-> c.mod, port |-> c.port, subport |-> c.subport, vlan |-> c.vlan]
MatchCircuit(ps, s) == LET x == MatchFirst(ps, s) IN IF x = <<>> THEN CErr ELSE COk(x[1])

\* ztpv4.ParseCircuitID: sub-option 1 of a well-formed relay agent information option
Circuit4(p) ==
    LET raw == Opt4(p, 82) IN
    IF raw = <<>> THEN CErr
    ELSE LET r == DecSubOpts(raw) IN
         IF ~r.ok THEN CErr
         ELSE LET cid == IF \E i \in DOMAIN r.opts : r.opts[i].c = 1
                         THEN (CHOOSE o \in Range(r.opts) : o.c = 1).v ELSE <<>> IN
              IF cid = <<>> THEN CErr ELSE MatchCircuit(Circuit4Patterns, cid)

\* ztpv6.ParseRemoteID: the innermost relay's remote-id, else its interface-id
Circuit6(m) ==
    LET d == DecapIndex(m, -1) IN
    IF ~d.ok \/ ~IsRelay(d.v) THEN CErr
    ELSE LET rid == FirstOpt(d.v.opts, 37)
             iid == FirstOpt(d.v.opts, 18)
             a == IF rid = <<>> THEN CErr ELSE MatchCircuit(Circuit6Patterns, rid[1].v[2])
         IN IF a.st = "ok" THEN a
            ELSE IF iid = <<>> THEN CErr ELSE MatchCircuit(Circuit6Patterns, iid[1].v[1])
=============================================================================
