------------------------------- MODULE Bytes -------------------------------
(* Byte strings are sequences over 0..255.  TLC integers are 32 bit, so      *)
(* 32-bit wire fields are always kept as 4-byte sequences, never as numbers. *)
EXTENDS Integers, Sequences, FiniteSets, SequencesExt, Functions

Byte == 0..255
IsBytes(b) == /\ DOMAIN b = 1..Len(b)
              /\ \A i \in 1..Len(b) : b[i] \in Byte

Min2(a, b) == IF a < b THEN a ELSE b
Max2(a, b) == IF a > b THEN a ELSE b

Sub(b, i, n) == SubSeq(b, i, i + n - 1)          \* n bytes starting at index i (1-based)
From(b, i) == SubSeq(b, i, Len(b))              \* suffix starting at index i
Take(b, n) == SubSeq(b, 1, Min2(n, Len(b)))
Zeros(n) == [i \in 1..n |-> 0]
Fill(n, x) == [i \in 1..n |-> x]
PadTo(b, n) == IF Len(b) >= n THEN b ELSE b \o Zeros(n - Len(b))

BE16(b, i) == b[i] * 256 + b[i + 1]
U16(n) == <<(n \div 256) % 256, n % 256>>
U8(n) == <<n % 256>>

\* index of the first occurrence of x in b, or 0
FirstIndex(b, x) == IF \E i \in 1..Len(b) : b[i] = x
                    THEN CHOOSE i \in 1..Len(b) : b[i] = x /\ \A j \in 1..(i - 1) : b[j] # x
                    ELSE 0
\* b cut before the first occurrence of x (whole b if none)
CutAt(b, x) == LET k == FirstIndex(b, x) IN IF k = 0 THEN b ELSE SubSeq(b, 1, k - 1)

RECURSIVE Concat(_)
Concat(ss) == IF ss = <<>> THEN <<>> ELSE Head(ss) \o Concat(Tail(ss))

\* all byte strings over alphabet A of length exactly n / at most n
RECURSIVE StringsOfLen(_, _)
StringsOfLen(A, n) == IF n = 0 THEN {<<>>}
                      ELSE {<<a>> \o s : a \in A, s \in StringsOfLen(A, n - 1)}
StringsUpTo(A, n) == UNION {StringsOfLen(A, k) : k \in 0..n}

\* ---- RFC 1071 ones'-complement arithmetic (16-bit words, big endian) ----
RECURSIVE SumWords(_, _, _)
SumWords(b, i, acc) ==
    IF i > Len(b) THEN acc
    ELSE LET w == IF i + 1 <= Len(b) THEN b[i] * 256 + b[i + 1] ELSE b[i] * 256
             s == acc + w
         IN SumWords(b, i + 2, (s % 65536) + (s \div 65536))
OnesSum(b) == SumWords(b, 1, 0)                  \* folded 16-bit ones'-complement sum
Checksum(b) == 65535 - OnesSum(b)                \* the value to put in the checksum field
Verifies(b) == OnesSum(b) = 65535                \* sum over data including its checksum
=============================================================================
