------------------------------- MODULE Extract -------------------------------
(* Behaviour of the library beyond the listed properties ("extended            *)
(* conformance", ./check ext): the extractors that turn decoded messages into  *)
(* configuration -- netboot.GetNetConfFromPacketv6 / v4, dhcpv6.ExtractMAC,    *)
(* the DHCPv6 typed option accessors, IsOptionRequested / IsNetboot -- as      *)
(* operators over the value trees of Dhcp6Wire / abstract packets of           *)
(* Dhcp4Wire.  Mismatches here are reported as EXTENDED-MISMATCH, never as a   *)
(* violation of one of the twenty properties.                                  *)
EXTENDS Dhcp6Wire, Dhcp4Opts

First(opts, c) == IF \E i \in DOMAIN opts : opts[i].c = c
                  THEN <<opts[CHOOSE i \in DOMAIN opts : opts[i].c = c /\ \A j \in 1..(i - 1) : opts[j].c # c]>>
                  ELSE <<>>
All(opts, c) == SelectSeq(opts, LAMBDA o : o.c = c)
RECURSIVE FlatMap1(_, _)
FlatMap1(os, k) == IF os = <<>> THEN <<>> ELSE Head(os).v[k] \o FlatMap1(Tail(os), k)

\* ---- DHCPv6 accessors of a message's option list
ClientId6(opts) == LET o == First(opts, 1) IN IF o = <<>> THEN <<>> ELSE o[1].v[1]
Dns6(opts) == LET o == First(opts, 23) IN IF o = <<>> THEN <<>> ELSE o[1].v[1]
Search6(opts) == LET o == First(opts, 24) IN IF o = <<>> THEN <<>> ELSE o[1].v[1]
BootUrl6(opts) == LET o == First(opts, 59) IN IF o = <<>> THEN <<>> ELSE o[1].v[1]
Requested6(opts) == FlatMap1(All(opts, 6), 1)                  \* all ORO options merged (RFC 8415 allows one; some clients send more)
\* NTP server addresses: sub-option 1 of every NTP option, in order
RECURSIVE NtpAddrs(_)
NtpAddrs(os) == IF os = <<>> THEN <<>>
                ELSE FlatMap1(SelectSeq(Head(os).v[1], LAMBDA so : so.c = 1), 1) \o NtpAddrs(Tail(os))
Ntp6(opts) == LET raw == All(opts, 56) IN
              [i \in 1..Len(NtpAddrs(raw)) \div 16 |-> SubSeq(NtpAddrs(raw), 16 * (i - 1) + 1, 16 * i)]
IsRequested6(opts, c) == \E i \in DOMAIN Requested6(opts) : Requested6(opts)[i] = U16(c)
IsNetboot6(opts) == IsRequested6(opts, 59) \/ First(opts, 59) # <<>>

\* netboot.GetNetConfFromPacketv6: addresses of the first IA_NA (/128), DNS, search list, NTP
NetConf6(m) ==
    LET ia == First(m.opts, 3) IN
    IF ia = <<>> THEN [ok |-> FALSE]
    ELSE [ok |-> TRUE,
          addrs |-> LET as == All(ia[1].v[4], 5) IN [i \in 1..Len(as) |-> [ip |-> as[i].v[1], pref |-> as[i].v[2], valid |-> as[i].v[3]]],
          dns |-> Dns6(m.opts), search |-> Search6(m.opts), ntp |-> Ntp6(m.opts)]

\* dhcpv6.ExtractMAC: innermost relay's client link-layer address option, else an EUI-64 peer address,
\* else the link-layer address of an LL / LLT client DUID
RECURSIVE InnermostRelay6(_), InnerMsg6(_)
RelayInner(m) == LET r == First(m.opts, 9) IN IF r = <<>> THEN <<>> ELSE <<r[1].v[1]>>
InnermostRelay6(m) == LET i == RelayInner(m) IN
                      IF i = <<>> THEN <<>> ELSE IF IsRelay(i[1]) THEN InnermostRelay6(i[1]) ELSE <<m>>
InnerMsg6(m) == IF ~IsRelay(m) THEN <<m>> ELSE LET i == RelayInner(m) IN IF i = <<>> THEN <<>> ELSE InnerMsg6(i[1])
Eui48(ip) == IF ip[12] = 255 /\ ip[13] = 254
             THEN <<<<(IF (ip[9] \div 2) % 2 = 1 THEN ip[9] - 2 ELSE ip[9] + 2), ip[10], ip[11], ip[14], ip[15], ip[16]>>>>
             ELSE <<>>
DuidMac(d) == IF d = <<>> THEN <<>>
              ELSE IF d[1] = <<0, 1>> THEN <<d[4]>> ELSE IF d[1] = <<0, 3>> THEN <<d[3]>> ELSE <<>>
ExtractMac6(m) ==
    LET fromMsg(x) == IF x = <<>> THEN <<>> ELSE DuidMac(ClientId6(x[1].opts)) IN
    IF ~IsRelay(m) THEN fromMsg(<<m>>)
    ELSE LET r == InnermostRelay6(m) IN
         IF r = <<>> THEN <<>>                                         \* malformed chain: error
         ELSE LET lla == First(r[1].opts, 79) IN
              IF lla # <<>> THEN <<lla[1].v[2]>>          \* (also when the option carries an empty address: library behaviour)
              ELSE IF Eui48(r[1].peer) # <<>> THEN Eui48(r[1].peer)
              ELSE fromMsg(InnerMsg6(m))

\* ---- DHCPv4
Opt4(p, c) == IF \E i \in DOMAIN p.opts : p.opts[i].c = c THEN (CHOOSE o \in Range(p.opts) : o.c = c).v ELSE <<>>
IsRequested4(p, c) == LET l == Opt4(p, 55) IN l = <<>> \/ \E i \in DOMAIN l : l[i] = c       \* no list: everything is requested
MaskOnes(m) == LET bits == [i \in 1..32 |-> (m[(i - 1) \div 8 + 1] \div (2 ^ (7 - ((i - 1) % 8)))) % 2] IN
               IF \E k \in 0..32 : \A i \in 1..32 : bits[i] = (IF i <= k THEN 1 ELSE 0)
               THEN CHOOSE k \in 0..32 : \A i \in 1..32 : bits[i] = (IF i <= k THEN 1 ELSE 0) ELSE 0
\* netboot.GetNetConfFromPacketv4: yiaddr, subnet mask (canonical, non-zero), lease time, DNS, search list, routers, NTP
NetConf4(p) ==
    LET mask == Access("mask", Opt4(p, 1))
        routers == Access("ips", Opt4(p, 3))
        lease == Access("u32", Opt4(p, 51))
        search == IF Opt4(p, 119) = <<>> THEN [st |-> "absent"] ELSE LabelDecode(Opt4(p, 119))
    IN IF p.yi = <<0, 0, 0, 0>> THEN [ok |-> FALSE]
       ELSE IF ~mask.ok \/ MaskOnes(mask.v) = 0 THEN [ok |-> FALSE]
       ELSE IF search.st = "ok" /\ search.names = <<>> THEN [ok |-> FALSE]
       ELSE IF ~routers.ok THEN [ok |-> FALSE]
       ELSE [ok |-> TRUE, ip |-> p.yi, mask |-> mask.v, lease |-> IF lease.ok THEN lease.v ELSE <<0, 0, 0, 0>>,
             dns |-> Access("ips", Opt4(p, 6)).v, routers |-> routers.v, ntp |-> Access("ips", Opt4(p, 42)).v,
             search |-> IF search.st = "ok" THEN search.names ELSE <<>>, grey |-> search.st = "ok" /\ search.grey]
=============================================================================
