------------------------------ MODULE Dhcp6Mods ------------------------------
(* The rest of the dhcpv6 message API, beyond the builders of Dhcp6Build:      *)
(*   - every typed accessor of MessageOptions, RelayOptions, IdentityOptions,  *)
(*     PDOptions, AddressOptions, PrefixOptions and FourRDOptions as a table   *)
(*     over the option value trees of Dhcp6Wire (code, selection, field);      *)
(*   - the option container operations Add / Update / Del / Get / GetOne;      *)
(*   - the modifier algebra of the dhcpv6 With-functions, NewMessage / NewSolicit and the *)
(*     builders of Dhcp6Build with caller modifiers applied after the defaults.*)
(* Part of the extended conformance (./check ext).                            *)
EXTENDS Dhcp6Build

\* ---- option container
GetAll(opts, c) == SelectSeq(opts, LAMBDA o : o.c = c)
Add6(opts, o) == Append(opts, o)
Update6(opts, o) ==                     \* replaces the first option of that code, appends when there is none
    IF \E i \in DOMAIN opts : opts[i].c = o.c
    THEN LET k == CHOOSE i \in DOMAIN opts : opts[i].c = o.c /\ \A j \in 1..(i - 1) : opts[j].c # o.c
         IN [opts EXCEPT ![k] = o]
    ELSE Append(opts, o)
Del6(opts, c) == SelectSeq(opts, LAMBDA o : o.c # c)

\* ---- accessors: <<>> (absent) | <<v>> (the first) | sequence of v (all)
FirstV(opts, c) == LET o == FirstOpt(opts, c) IN IF o = <<>> THEN <<>> ELSE <<o[1].v>>
AllV(opts, c) == LET os == GetAll(opts, c) IN [i \in DOMAIN os |-> os[i].v]
FieldOr(opts, c, k, def) == LET o == FirstOpt(opts, c) IN IF o = <<>> THEN def ELSE o[1].v[k]
RECURSIVE ConcatField(_, _)
ConcatField(os, k) == IF os = <<>> THEN <<>> ELSE Head(os).v[k] \o ConcatField(Tail(os), k)
FirstWithEnt(opts, c, ent) ==           \* field 2 of the first option of code c whose field 1 (enterprise number) is ent
    LET os == GetAll(opts, c) IN
    IF \E i \in DOMAIN os : os[i].v[1] = ent
    THEN os[CHOOSE i \in DOMAIN os : os[i].v[1] = ent /\ \A j \in 1..(i - 1) : os[j].v[1] # ent].v[2]
    ELSE <<>>
RECURSIVE NtpSrv(_)
NtpSrv(os) == IF os = <<>> THEN <<>>
              ELSE LET subs == SelectSeq(Head(os).v[1], LAMBDA so : so.c = 1) IN
                   [i \in DOMAIN subs |-> subs[i].v[1]] \o NtpSrv(Tail(os))

MsgAccNames == {"ArchTypes", "ClientID", "ServerID", "IANA", "OneIANA", "IATA", "OneIATA", "IAPD", "OneIAPD", "FourRD",
                "Status", "RequestedOptions", "DNS", "DomainSearchList", "BootFileURL", "BootFileParam", "UserClasses",
                "VendorClasses", "VendorClass", "VendorOpts", "VendorOpt", "ElapsedTime", "InformationRefreshTime",
                "FQDN", "DHCP4oDHCP6Server", "NTPServers"}
\* ent: the enterprise number asked for (4 bytes); def: the caller's default refresh time (4 bytes)
MsgAcc(name, opts, ent, def) ==
    CASE name = "ArchTypes" -> FieldOr(opts, 61, 1, <<>>)
      [] name = "ClientID" -> FieldOr(opts, 1, 1, <<>>)
      [] name = "ServerID" -> FieldOr(opts, 2, 1, <<>>)
      [] name = "IANA" -> AllV(opts, 3)
      [] name = "OneIANA" -> FirstV(opts, 3)
      [] name = "IATA" -> AllV(opts, 4)
      [] name = "OneIATA" -> FirstV(opts, 4)
      [] name = "IAPD" -> AllV(opts, 25)
      [] name = "OneIAPD" -> FirstV(opts, 25)
      [] name = "FourRD" -> AllV(opts, 97)
      [] name = "Status" -> FirstV(opts, 13)
      [] name = "RequestedOptions" -> ConcatField(GetAll(opts, 6), 1)       \* several ORO options are merged
      [] name = "DNS" -> FieldOr(opts, 23, 1, <<>>)
      [] name = "DomainSearchList" -> FieldOr(opts, 24, 1, <<>>)
      [] name = "BootFileURL" -> FieldOr(opts, 59, 1, <<>>)
      [] name = "BootFileParam" -> FieldOr(opts, 60, 1, <<>>)
      [] name = "UserClasses" -> FieldOr(opts, 15, 1, <<>>)
      [] name = "VendorClasses" -> AllV(opts, 16)
      [] name = "VendorClass" -> FirstWithEnt(opts, 16, ent)
      [] name = "VendorOpts" -> AllV(opts, 17)
      [] name = "VendorOpt" -> FirstWithEnt(opts, 17, ent)
      [] name = "ElapsedTime" -> FieldOr(opts, 8, 1, <<0, 0>>)
      [] name = "InformationRefreshTime" -> FieldOr(opts, 32, 1, def)
      [] name = "FQDN" -> FirstV(opts, 39)
      [] name = "DHCP4oDHCP6Server" -> FirstV(opts, 88)
      [] name = "NTPServers" -> NtpSrv(GetAll(opts, 56))

RelayAccNames == {"RelayMessage", "InterfaceID", "RemoteID", "ClientLinkLayerAddress"}
RelayAcc(name, opts) ==
    CASE name = "RelayMessage" -> (LET o == FirstOpt(opts, 9) IN IF o = <<>> THEN <<>> ELSE <<o[1].v[1]>>)
      [] name = "InterfaceID" -> FieldOr(opts, 18, 1, <<>>)
      [] name = "RemoteID" -> FirstV(opts, 37)
      [] name = "ClientLinkLayerAddress" -> FirstV(opts, 79)

\* options nested in IA_NA / IA_TA (kind "ia"), IA_PD ("pd"), IA address / IA prefix ("leaf"), 4RD ("4rd")
SubAccNames(kind) == CASE kind = "ia" -> {"Addresses", "OneAddress", "Status"}
                       [] kind = "pd" -> {"Prefixes", "Status"}
                       [] kind = "leaf" -> {"Status"}
                       [] kind = "4rd" -> {"MapRules", "NonMapRule"}
SubAcc(name, opts) ==
    CASE name = "Addresses" -> AllV(opts, 5)
      [] name = "OneAddress" -> FirstV(opts, 5)
      [] name = "Prefixes" -> AllV(opts, 26)
      [] name = "Status" -> FirstV(opts, 13)
      [] name = "MapRules" -> AllV(opts, 98)
      [] name = "NonMapRule" -> FirstV(opts, 99)

\* ---- modifiers.  A modifier is a record [k |-> name, ...]; only the *Message* modifiers change nothing on a relay.
Oro(codes) == [c |-> 6, v |-> <<codes>>]
RECURSIVE AddCodes(_, _)
AddCodes(have, new) ==                  \* OptionCodes.Add: appended unless already there
    IF new = <<>> THEN have
    ELSE AddCodes(IF \E i \in DOMAIN have : have[i] = Head(new) THEN have ELSE Append(have, Head(new)), Tail(new))
EmptyIANA == [c |-> 3, v |-> <<<<0, 0, 0, 0>>, <<0, 0, 0, 0>>, <<0, 0, 0, 0>>, <<>>>>]
EmptyIATA == [c |-> 4, v |-> <<<<0, 0, 0, 0>>, <<>>>>]
EmptyIAPD == [c |-> 25, v |-> <<<<0, 0, 0, 0>>, <<0, 0, 0, 0>>, <<0, 0, 0, 0>>, <<>>>>]
FirstOr(opts, c, def) == LET o == FirstOpt(opts, c) IN IF o = <<>> THEN def ELSE o[1]
MessageOnlyMods == {"WithRequestedOptions", "WithNetboot", "WithIANA", "WithIAID", "WithIATA", "WithIAPD"}
Mod6(m, mod) ==
    LET U(o) == [m EXCEPT !.opts = Update6(@, o)]
        A(o) == [m EXCEPT !.opts = Add6(@, o)]
        k == mod.k
    IN IF IsRelay(m) /\ k \in MessageOnlyMods THEN m     \* these act on client/server messages only
       ELSE
       CASE k = "WithOption" -> U(mod.o)
         [] k = "WithClientID" -> U([c |-> 1, v |-> <<mod.duid>>])
         [] k = "WithServerID" -> U([c |-> 2, v |-> <<mod.duid>>])
         [] k = "WithFQDN" -> U([c |-> 39, v |-> <<mod.flags, <<mod.name>>>>])
         [] k = "WithUserClass" -> A([c |-> 15, v |-> <<<<mod.uc>>>>])
         [] k = "WithArchType" -> A([c |-> 61, v |-> <<<<mod.arch>>>>])
         [] k = "WithDNS" -> U([c |-> 23, v |-> <<mod.ips>>])
         [] k = "WithDomainSearchList" -> U([c |-> 24, v |-> <<mod.names>>])
         [] k = "WithRapidCommit" -> U([c |-> 14, v |-> <<<<>>>>])
         [] k = "WithDHCP4oDHCP6Server" -> U([c |-> 88, v |-> <<mod.ips>>])
         [] k = "WithClientLinkLayerAddress" -> U([c |-> 79, v |-> <<mod.hw, mod.addr>>])
         [] k = "WithInformationRefreshTime" -> U([c |-> 32, v |-> <<mod.secs>>])
         [] k = "WithRequestedOptions" -> U(Oro(AddCodes(ConcatField(GetAll(m.opts, 6), 1), mod.codes)))
         [] k = "WithNetboot" -> U(Oro(AddCodes(ConcatField(GetAll(m.opts, 6), 1), <<<<0, 59>>, <<0, 60>>>>)))
         [] k = "WithIANA" -> LET ia == FirstOr(m.opts, 3, EmptyIANA) IN U([ia EXCEPT !.v[4] = @ \o mod.addrs])
         [] k = "WithIAID" -> LET ia == FirstOr(m.opts, 3, EmptyIANA) IN U([ia EXCEPT !.v[1] = mod.iaid])
         [] k = "WithIATA" -> LET ia == FirstOr(m.opts, 4, EmptyIATA) IN U([ia EXCEPT !.v[1] = mod.iaid, !.v[2] = @ \o mod.addrs])
         [] k = "WithIAPD" -> LET ia == FirstOr(m.opts, 25, EmptyIAPD) IN U([ia EXCEPT !.v[1] = mod.iaid, !.v[4] = @ \o mod.prefixes])
RECURSIVE Mods6(_, _)
Mods6(m, mods) == IF mods = <<>> THEN m ELSE Mods6(Mod6(m, Head(mods)), Tail(mods))

\* ---- builders with modifiers: defaults first, then the caller's modifiers in order
\* NewMessage: a SOLICIT with a fresh transaction id and no options
NewMessage6(xid, mods) == Mods6([mt |-> 1, xid |-> xid, opts |-> <<>>], mods)
\* NewSolicit: client id DUID-LLT(Ethernet, now, hw), ORO(DNS, search list), elapsed time 0, IA_NA whose IAID is the
\* last four bytes of the hardware address; refused when that address has fewer than four bytes
Solicit(hw, xid, time, mods) ==
    IF Len(hw) < 4 THEN Err
    ELSE Ok(Mods6([mt |-> 1, xid |-> xid,
                   opts |-> <<[c |-> 1, v |-> <<<<<<0, 1>>, <<0, 1>>, time, hw>>>>], ORODefault, Elapsed0>>],
                  <<[k |-> "WithIAID", iaid |-> SubSeq(hw, Len(hw) - 3, Len(hw))]>> \o mods))
WithMods(r, mods) == IF r.ok THEN Ok(Mods6(r.v, mods)) ELSE r
AdvertiseM(sol, mods) == WithMods(Advertise(sol), mods)
RequestM(adv, xid, mods) == WithMods(Request(adv, xid), mods)
ReplyM(msg, mods) ==          \* the rapid-commit marker is itself a (first) modifier: a caller's WithOption(14) replaces it
    LET r == Reply(msg) IN IF r.ok THEN Ok(Mods6(r.v, mods)) ELSE r
=============================================================================
