------------------------------- MODULE RawUdp -------------------------------
(* RFC 791 / RFC 768 / RFC 1071: the IPv4+UDP frames written and read by      *)
(* nclient4's BroadcastRawUDPConn (and, for layout only, client4's             *)
(* MakeRawUDPPacket).                                                          *)
EXTENDS Bytes

\* an endpoint is [ip |-> 4 bytes, port |-> 0..65535]
IpHdrLen == 20
UdpHdrLen == 8

IpHeaderNoSum(totalLen, src, dst) ==
    <<69, 0>> \o U16(totalLen) \o <<0, 0, 0, 0, 64, 17, 0, 0>> \o src \o dst      \* v4, IHL 5, TOS 0, id 0, no flags, TTL 64, UDP
WithSum(hdr, at, sum) == [i \in 1..Len(hdr) |-> IF i = at THEN sum \div 256 ELSE IF i = at + 1 THEN sum % 256 ELSE hdr[i]]

IpHeader(totalLen, src, dst) == LET h == IpHeaderNoSum(totalLen, src, dst) IN WithSum(h, 11, Checksum(h))

Pseudo(src, dst, udpLen) == src \o dst \o <<0, 17>> \o U16(udpLen)
UdpHeaderNoSum(sport, dport, udpLen) == U16(sport) \o U16(dport) \o U16(udpLen) \o <<0, 0>>
\* the checksum value RFC 768 asks for (before the 0 -> 0xFFFF substitution)
UdpSum(payload, src, dst) ==
    LET ul == UdpHdrLen + Len(payload) IN
    Checksum(Pseudo(src.ip, dst.ip, ul) \o UdpHeaderNoSum(src.port, dst.port, ul) \o payload)

\* The frame for payload sent from src to dst, with the UDP checksum field given
FrameWith(payload, src, dst, usum) ==
    LET ul == UdpHdrLen + Len(payload) IN
    IpHeader(IpHdrLen + ul, src.ip, dst.ip)
      \o WithSum(UdpHeaderNoSum(src.port, dst.port, ul), 7, usum)
      \o payload

\* RFC 768: a computed checksum of zero is transmitted as all ones; an all-zero field means
\* "no checksum computed" and is accepted by every receiver.  Both transmissions are allowed
\* for that (1 in 65536) case; otherwise exactly the computed value.
AllowedUdpSums(payload, src, dst) ==
    LET c == UdpSum(payload, src, dst) IN IF c = 0 THEN {0, 65535} ELSE {c}
IsFrameFor(f, payload, src, dst) ==
    \E s \in AllowedUdpSums(payload, src, dst) : f = FrameWith(payload, src, dst, s)

\* independent receiver-side verification (RFC 1071: the sum over the data including the
\* checksum is all ones)
HeaderVerifies(f) == Verifies(SubSeq(f, 1, (f[1] % 16) * 4))
UdpVerifies(f) ==
    LET hl == (f[1] % 16) * 4
        tl == BE16(f, 3)
        dg == SubSeq(f, hl + 1, tl)
    IN BE16(dg, 7) = 0 \/ OnesSum(Pseudo(Sub(f, 13, 4), Sub(f, 17, 4), Len(dg)) \o dg) \in {65535, 0}

\* ------------------------------------------------------------------ reading
\* What a read of one frame yields for a connection bound to `bound`
\* ([ip |-> 4 bytes or <<>> for any, port]): "skip" or the payload and source.
\* frameLen is the number of bytes the link layer handed over (may include padding).
Deliver(f, bound) ==
    IF Len(f) < IpHdrLen THEN [skip |-> TRUE]
    ELSE LET hl == (f[1] % 16) * 4
             tl == BE16(f, 3)
         IN IF f[1] \div 16 # 4 \/ hl < IpHdrLen \/ hl > tl \/ tl > Len(f) THEN [skip |-> TRUE]
            ELSE IF f[10] # 17 THEN [skip |-> TRUE]
            ELSE IF tl - hl < UdpHdrLen THEN [skip |-> TRUE]        \* no room for a UDP header
            ELSE LET dport == BE16(f, hl + 3)
                     dip == Sub(f, 17, 4)
                 IN IF (bound.port # -1 /\ dport # bound.port) \/ (bound.ip # <<>> /\ bound.ip # dip) THEN [skip |-> TRUE]   \* port -1: not bound at all
                    ELSE [skip |-> FALSE,
                          payload |-> SubSeq(f, hl + UdpHdrLen + 1, tl),      \* bounded by the IP total length
                          src |-> [ip |-> Sub(f, 13, 4), port |-> BE16(f, hl + 1)]]

\* reading a sequence of frames: the deliveries of the matching well-formed ones, in order,
\* each cut to the caller's buffer length
RECURSIVE ReadFrames(_, _, _)
ReadFrames(frames, bound, buflen) ==
    IF frames = <<>> THEN <<>>
    ELSE LET d == Deliver(Head(frames), bound) IN
         (IF d.skip THEN <<>> ELSE <<[payload |-> Take(d.payload, buflen), src |-> d.src]>>)
         \o ReadFrames(Tail(frames), bound, buflen)
=============================================================================
