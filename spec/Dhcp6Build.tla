----------------------------- MODULE Dhcp6Build -----------------------------
(* RFC 8415 sections 9, 16, 18, 19: relay encapsulation / decapsulation and   *)
(* the message builders of the dhcpv6 package, as operators over the value    *)
(* trees of Dhcp6Wire.tla (C16).  A result is [ok |-> BOOLEAN, v |-> value].  *)
EXTENDS Dhcp6Wire

Err == [ok |-> FALSE, v |-> <<>>]
Ok(v) == [ok |-> TRUE, v |-> v]

FirstOpt(opts, c) == IF \E i \in DOMAIN opts : opts[i].c = c
                     THEN <<opts[CHOOSE i \in DOMAIN opts : opts[i].c = c /\ \A j \in 1..(i - 1) : opts[j].c # c]>>
                     ELSE <<>>                        \* <<>> or a one-element sequence
HasOpt(opts, c) == FirstOpt(opts, c) # <<>>

\* RFC 8415 19.1: the relayed message travels in a Relay Message option; hop count one more than
\* the hop count of a relay message being relayed, zero for a client message
Encap(m, mt, link, peer) ==
    IF mt \notin {12, 13} THEN Err
    ELSE Ok([mt |-> mt, hops |-> IF IsRelay(m) THEN (m.hops + 1) % 256 ELSE 0, link |-> link, peer |-> peer,
             opts |-> <<[c |-> 9, v |-> <<m>>]>>])
\* one level of decapsulation (a non-relay message is returned as it is)
Decap(m) == IF ~IsRelay(m) THEN Ok(m)
            ELSE LET r == FirstOpt(m.opts, 9) IN IF r = <<>> THEN Err ELSE Ok(r[1].v[1])
RECURSIVE Inner(_)
Inner(m) == IF ~IsRelay(m) THEN Ok(m) ELSE LET d == Decap(m) IN IF d.ok THEN Inner(d.v) ELSE Err
RECURSIVE Depth(_)
Depth(m) == IF ~IsRelay(m) THEN 0 ELSE LET d == Decap(m) IN IF d.ok THEN 1 + Depth(d.v) ELSE 1
\* DecapsulateRelayIndex: index 0 = content of the outermost relay, ...; -1 = the innermost relay
RECURSIVE DecapN(_, _), InnermostRelay(_)
DecapN(m, n) == IF n = 0 THEN Ok(m) ELSE LET d == Decap(m) IN IF d.ok THEN DecapN(d.v, n - 1) ELSE Err
InnermostRelay(m) == LET d == Decap(m) IN IF ~d.ok THEN Err ELSE IF IsRelay(d.v) THEN InnermostRelay(d.v) ELSE Ok(m)
DecapIndex(m, i) == IF ~IsRelay(m) THEN Ok(m)
                    ELSE IF i < -1 THEN Err
                    ELSE IF i = -1 THEN InnermostRelay(m)
                    ELSE DecapN(m, i + 1)

\* the chain of relay levels, outermost first: [link, peer, iid, rid]
RECURSIVE Levels(_)
Levels(m) == IF ~IsRelay(m) THEN Ok(<<>>)
             ELSE LET d == Decap(m) IN
                  IF ~d.ok THEN Err
                  ELSE LET rest == Levels(d.v) IN
                       IF ~rest.ok THEN Err
                       ELSE Ok(<<[link |-> m.link, peer |-> m.peer, iid |-> FirstOpt(m.opts, 18), rid |-> FirstOpt(m.opts, 37)]>> \o rest.v)
\* RFC 8415 19.3: the relay-reply mirrors the relay-forward chain level by level
RECURSIVE Rebuild(_, _, _)
Rebuild(levels, k, m) ==       \* wrap m in levels k, k-1, ..., 1
    IF k = 0 THEN m
    ELSE LET e == Encap(m, 13, levels[k].link, levels[k].peer).v IN
         Rebuild(levels, k - 1, [e EXCEPT !.opts = @ \o levels[k].iid \o levels[k].rid])
RelayRepl(relay, msg) ==
    IF ~IsRelay(relay) \/ relay.mt # 12 THEN Err
    ELSE LET ls == Levels(relay) IN IF ~ls.ok THEN Err ELSE Ok(Rebuild(ls.v, Len(ls.v), msg))

\* RFC 8415 18.3.9 / 18.2.2 / 18.3.x builders
ORODefault == [c |-> 6, v |-> <<<<<<0, 23>>, <<0, 24>>>>>>]
Elapsed0 == [c |-> 8, v |-> <<<<0, 0>>>>]
Advertise(sol) ==
    IF IsRelay(sol) \/ sol.mt # 1 \/ ~HasOpt(sol.opts, 1) THEN Err
    ELSE Ok([mt |-> 2, xid |-> sol.xid, opts |-> FirstOpt(sol.opts, 1)])
\* the REQUEST gets a fresh transaction id (passed in from the observed result)
Request(adv, xid) ==
    IF IsRelay(adv) \/ adv.mt # 2 \/ ~HasOpt(adv.opts, 1) \/ ~HasOpt(adv.opts, 2) \/ ~HasOpt(adv.opts, 3) THEN Err
    ELSE Ok([mt |-> 3, xid |-> xid,
             opts |-> FirstOpt(adv.opts, 1) \o FirstOpt(adv.opts, 2) \o <<Elapsed0>> \o FirstOpt(adv.opts, 3)
                      \o FirstOpt(adv.opts, 25) \o <<ORODefault>> \o FirstOpt(adv.opts, 16)])
Reply(msg) ==
    IF IsRelay(msg) THEN Err
    ELSE IF msg.mt = 1 /\ ~HasOpt(msg.opts, 14) THEN Err
    ELSE IF msg.mt \notin {1, 3, 4, 5, 6, 8, 11} THEN Err
    ELSE IF ~HasOpt(msg.opts, 1) THEN Err
    ELSE Ok([mt |-> 7, xid |-> msg.xid,
             opts |-> FirstOpt(msg.opts, 1) \o (IF msg.mt = 1 THEN <<[c |-> 14, v |-> <<<<>>>>]>> ELSE <<>>)])
=============================================================================
