------------------------------- MODULE Ztp -------------------------------
(* Zero-touch-provisioning vendor-data extraction (ztpv4.ParseVendorData,     *)
(* ztpv6.ParseVendorData): the case table of the vendor string formats,       *)
(* transcribed as operators over byte strings.  Part of the extended          *)
(* conformance (./check ext), not one of the twenty properties.               *)
(* Result: [st |-> "ok", vendor, model, serial] | [st |-> "err"].             *)
EXTENDS Extract

S_Arista == <<65, 114, 105, 115, 116, 97, 59>>          \* "Arista;"
S_Cisco == <<67, 105, 115, 99, 111, 59>>            \* "Cisco;"
S_Zpe == <<90, 80, 69, 83, 121, 115, 116, 101, 109, 115, 58>>         \* "ZPESystems:"
S_JunDash == <<74, 117, 110, 105, 112, 101, 114, 45>>        \* "Juniper-"
S_JunColon == <<74, 117, 110, 105, 112, 101, 114, 58>>       \* "Juniper:"
S_Nvos == <<78, 86, 79, 83, 35, 35>>             \* "NVOS##"
S_1271 == <<49, 50, 55, 49>>               \* decimal enterprise number of Ciena
S_Fpr41 == <<70, 80, 82, 52, 49, 48, 48>>
S_Fpr93 == <<70, 80, 82, 57, 51, 48, 48>>
N_Ciena == <<67, 105, 101, 110, 97, 32, 67, 111, 114, 112, 111, 114, 97, 116, 105, 111, 110>>
N_CiscoSys == <<67, 105, 115, 99, 111, 32, 83, 121, 115, 116, 101, 109, 115>>
N_Mellanox == <<77, 101, 108, 108, 97, 110, 111, 120, 32, 84, 101, 99, 104, 110, 111, 108, 111, 103, 105, 101, 115, 32, 76, 84, 68>>
Semi == 59  Colon == 58  Dash == 45  Hash == 35
EntCisco == <<0, 0, 0, 9>>
EntMellanox == <<0, 0, 129, 25>>          \* 33049

HasPrefix(s, p) == Len(s) >= Len(p) /\ SubSeq(s, 1, Len(p)) = p
\* strings.Split with a non-empty separator: pieces between non-overlapping occurrences, scanned left to right
RECURSIVE SplitFrom(_, _, _, _)
SplitFrom(s, sep, i, start) ==
    IF i + Len(sep) - 1 > Len(s) THEN <<SubSeq(s, start, Len(s))>>
    ELSE IF SubSeq(s, i, i + Len(sep) - 1) = sep
         THEN <<SubSeq(s, start, i - 1)>> \o SplitFrom(s, sep, i + Len(sep), i + Len(sep))
         ELSE SplitFrom(s, sep, i + 1, start)
ZSplit(s, sep) == SplitFrom(s, sep, 1, 1)
RECURSIVE ZJoin(_, _)
ZJoin(ps, sep) == IF Len(ps) = 0 THEN <<>> ELSE IF Len(ps) = 1 THEN ps[1] ELSE ps[1] \o sep \o ZJoin(Tail(ps), sep)

ZOk(v, m, s) == [st |-> "ok", vendor |-> v, model |-> m, serial |-> s]
ZErr == [st |-> "err"]
None == [st |-> "none"]

\* ---- DHCPv4: class identifier (60) first, then the vendor-identifying vendor class (124)
Class4(vc, host, cid) ==
    CASE HasPrefix(vc, S_Arista) -> LET p == ZSplit(vc, <<Semi>>) IN IF Len(p) < 4 THEN ZErr ELSE ZOk(p[1], p[2], p[4])
      [] HasPrefix(vc, S_Zpe) -> LET p == ZSplit(vc, <<Colon>>) IN IF Len(p) < 3 THEN ZErr ELSE ZOk(p[1], p[2], p[3])
      [] HasPrefix(vc, S_JunDash) ->
            LET p == ZSplit(vc, <<Dash>>) IN
            IF Len(p) < 3 THEN (IF host = <<>> THEN ZErr ELSE ZOk(p[1], p[2], host))     \* serial in the host name option
            ELSE ZOk(p[1], ZJoin(SubSeq(p, 2, Len(p) - 1), <<Dash>>), p[Len(p)])          \* the model may contain dashes
      [] HasPrefix(vc, S_JunColon) -> LET p == ZSplit(vc, <<Colon>>) IN IF Len(p) = 3 THEN ZOk(p[1], p[2], p[3]) ELSE ZErr
      [] HasPrefix(vc, S_1271) ->
            LET p == ZSplit(vc, <<Dash>>) IN
            IF Len(p) # 3 THEN ZErr ELSE IF cid = <<>> THEN ZErr ELSE ZOk(N_Ciena, p[2] \o <<Dash>> \o p[3], cid)
      [] vc \in {S_Fpr41, S_Fpr93} -> IF cid = <<>> THEN ZErr ELSE ZOk(N_CiscoSys, vc, cid)
      [] OTHER -> None

\* SN:...;PID:... fields of the first Cisco entry; later fields override earlier ones
RECURSIVE CiscoFields(_, _, _)
CiscoFields(fs, model, serial) ==
    IF fs = <<>> THEN ZOk(N_CiscoSys, model, serial)
    ELSE LET p == ZSplit(Head(fs), <<Colon>>) IN
         IF Len(p) # 2 THEN ZErr
         ELSE IF p[1] = <<83, 78>> THEN CiscoFields(Tail(fs), model, p[2])             \* "SN"
         ELSE IF p[1] = <<80, 73, 68>> THEN CiscoFields(Tail(fs), p[2], serial)        \* "PID"
         ELSE CiscoFields(Tail(fs), model, serial)
Vivc4(raw) ==
    IF raw = <<>> THEN None
    ELSE LET r == Interp("vivc", raw) IN
         IF ~r.ok THEN None                                                           \* malformed option: as if absent
         ELSE LET cs == SelectSeq(r.v, LAMBDA e : e.ent = EntCisco) IN
              IF cs = <<>> THEN None ELSE CiscoFields(ZSplit(cs[1].data, <<Semi>>), <<>>, <<>>)

Ztp4(p) ==
    LET c == Class4(Opt4(p, 60), TrimNul(Opt4(p, 12)), Opt4(p, 61)) IN
    IF c.st # "none" THEN c
    ELSE LET v == Vivc4(Opt4(p, 124)) IN IF v.st # "none" THEN v ELSE ZErr

\* ---- DHCPv6: vendor options (17) win over vendor class (16); options of the outermost message only
\* serial of a Ciena device: enterprise identifier of the DUID-EN client id of the innermost message
CienaSerial6(m) ==
    LET im == InnerMsg6(m) IN
    IF im = <<>> THEN <<>>
    ELSE LET d == ClientId6(im[1].opts) IN IF d # <<>> /\ d[1] = <<0, 2>> THEN d[3] ELSE <<>>
RECURSIVE Scan6(_, _)
Scan6(ds, m) ==
    IF ds = <<>> THEN ZErr
    ELSE LET d == Head(ds) IN
         CASE HasPrefix(d, S_Arista) \/ HasPrefix(d, S_Cisco) ->
                 LET p == ZSplit(d, <<Semi>>) IN IF Len(p) < 4 THEN ZErr ELSE ZOk(p[1], p[2], p[4])
           [] HasPrefix(d, S_Zpe) -> LET p == ZSplit(d, <<Colon>>) IN IF Len(p) < 3 THEN ZErr ELSE ZOk(p[1], p[2], p[3])
           [] HasPrefix(d, S_Nvos) -> LET p == ZSplit(d, <<Hash, Hash>>) IN IF Len(p) < 3 THEN ZErr ELSE ZOk(p[1], p[2], p[3])
           [] HasPrefix(d, S_1271) ->
                 LET p == ZSplit(d, <<Dash>>) IN
                 IF Len(p) < 3 THEN ZErr ELSE ZOk(N_Ciena, p[2] \o <<Dash>> \o p[3], CienaSerial6(m))
           [] OTHER -> Scan6(Tail(ds), m)
\* Mellanox spreads the data over sub-options 1 (model) and 3 (serial); the last instance of each wins
LastSub(subs, c) == LET s == SelectSeq(subs, LAMBDA o : o.c = c) IN IF s = <<>> THEN <<>> ELSE s[Len(s)].v[1]
Ztp6(m) ==
    LET o16 == First(m.opts, 16)
        o17 == First(m.opts, 17) IN
    IF o16 = <<>> /\ o17 = <<>> THEN ZErr
    ELSE IF o17 # <<>> THEN
         (IF o17[1].v[1] = EntMellanox
          THEN LET model == LastSub(o17[1].v[2], 1) serial == LastSub(o17[1].v[2], 3) IN
               IF model = <<>> \/ serial = <<>> THEN ZErr ELSE ZOk(N_Mellanox, model, serial)
          ELSE Scan6([i \in 1..Len(o17[1].v[2]) |-> o17[1].v[2][i].v[1]], m))
    ELSE Scan6(o16[1].v[2], m)
=============================================================================
