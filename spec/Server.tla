------------------------------- MODULE Server -------------------------------
(* The serving loop of server4.Server.Serve / server6.Server.Serve:           *)
(*   read a datagram, decode it, skip it when it does not decode, otherwise    *)
(*   start the handler in its own goroutine with (conn, peer, message); return *)
(*   only when reading fails (which is also how Close stops it).               *)
(* Handlers run concurrently with the loop and may outlive any number of later *)
(* reads; the message they were given must stay the decoding of their own      *)
(* datagram.  Serve may be running in several goroutines on one server         *)
(* (Loops): each loop reads into its own buffer.                               *)
EXTENDS Integers, Sequences, FiniteSets, TLC

CONSTANTS V4,                \* BOOLEAN: DHCPv4 peer rule (sender without address -> limited broadcast)
          Loops,             \* the goroutines running Serve on this server
          StopOnParseError,  \* deliberately wrong design switches (must be FALSE for the real servers)
          ReuseReadBuffer,   \*   one read buffer per loop, kept across iterations
          ServerWideBuffer   \*   one read buffer per server, shared by its loops

VARIABLES net,       \* datagrams waiting in the socket: sequence of [kind, sender, port, id]
          narr,      \* number of datagrams that ever arrived
          pc,        \* per loop: "loop" | "blocked" | "parse" | "failed" | "returned"
          cur,       \* per loop: the datagram just read, its index in reads and what its buffer now holds
          reads,     \* sequence of all datagrams read so far
          spawned,   \* handler invocations: sequence of [id, peer, content, done]
          closed,    \* the connection has been closed
          ret        \* per loop: why Serve returned
vars == <<net, narr, pc, cur, reads, spawned, closed, ret>>

Kinds == {"valid", "undec", "empty", "err"}
Senders == {"ip", "noip", "zeroip", "nonudp"}      \* nonudp: the connection reports a sender that is not a UDP address
NoDgram == [kind |-> "none", ri |-> 0, content |-> 0]

Init == /\ net = <<>> /\ narr = 0 /\ pc = [l \in Loops |-> "loop"] /\ cur = [l \in Loops |-> NoDgram] /\ reads = <<>>
        /\ spawned = <<>> /\ closed = FALSE /\ ret = [l \in Loops |-> "none"]

\* the peer handed to the handler
PeerOf(d) == IF d.sender = "nonudp" THEN [addr |-> "nonudp", port |-> 0]
             ELSE IF V4 /\ d.sender \in {"noip", "zeroip"} THEN [addr |-> "bcast", port |-> d.port]
             ELSE [addr |-> d.sender, port |-> d.port]
\* the DHCPv4 server answers over UDP only: a datagram whose sender is not a UDP address is logged and skipped
\* (a deviation of server4 from "every datagram that decodes"; server6 hands any sender to the handler)
Dispatchable(d) == d.kind = "valid" /\ ~(V4 /\ d.sender = "nonudp")
Skipped(d) == d.kind \in {"undec", "empty"} \/ (V4 /\ d.kind = "valid" /\ d.sender = "nonudp")

Arrive(kind, sender, port) ==
    /\ net' = Append(net, [kind |-> kind, sender |-> sender, port |-> port, id |-> narr + 1])
    /\ narr' = narr + 1
    /\ UNCHANGED <<pc, cur, reads, spawned, closed, ret>>

CallRead(l) == /\ pc[l] = "loop" /\ pc' = [pc EXCEPT ![l] = "blocked"]
               /\ UNCHANGED <<net, narr, cur, reads, spawned, closed, ret>>

\* ReadFrom returns a datagram (or a read error that is not caused by Close)
Read(l) ==
    /\ pc[l] = "blocked" /\ ~closed /\ net # <<>>
    /\ LET d == Head(net)
           mine == [kind |-> d.kind, sender |-> d.sender, port |-> d.port, id |-> d.id, ri |-> Len(reads) + 1, content |-> d.id]
       IN /\ net' = Tail(net) /\ reads' = Append(reads, d)
          \* a buffer shared by the loops of a server is overwritten under the feet of a loop that is still decoding
          /\ cur' = [m \in Loops |-> IF m = l THEN mine
                                     ELSE IF ServerWideBuffer /\ d.kind # "err" /\ pc[m] = "parse" THEN [cur[m] EXCEPT !.content = d.id]
                                     ELSE cur[m]]
          /\ pc' = [pc EXCEPT ![l] = IF d.kind = "err" THEN "failed" ELSE "parse"]
          /\ UNCHANGED <<ret, closed>>
          \* a read buffer kept across iterations would be overwritten under the feet of running handlers
          /\ spawned' = IF (ReuseReadBuffer \/ ServerWideBuffer) /\ d.kind # "err"
                        THEN [h \in DOMAIN spawned |-> IF spawned[h].done \/ (~ServerWideBuffer /\ spawned[h].loop # l) THEN spawned[h]
                                                       ELSE [spawned[h] EXCEPT !.content = d.id]]
                        ELSE spawned
    /\ UNCHANGED narr
\* the failed read makes this Serve return; its deferred Close closes the connection under the other loops
ReadErrReturn(l) == /\ pc[l] = "failed"
                    /\ pc' = [pc EXCEPT ![l] = "returned"] /\ ret' = [ret EXCEPT ![l] = "readerr"] /\ closed' = TRUE
                    /\ UNCHANGED <<net, narr, cur, reads, spawned>>
ReadClosed(l) == /\ pc[l] = "blocked" /\ closed
                 /\ pc' = [pc EXCEPT ![l] = "returned"] /\ ret' = [ret EXCEPT ![l] = "closed"]
                 /\ UNCHANGED <<net, narr, cur, reads, spawned, closed>>
ParseFail(l) == /\ pc[l] = "parse" /\ Skipped(cur[l])
                /\ IF StopOnParseError THEN pc' = [pc EXCEPT ![l] = "returned"] /\ ret' = [ret EXCEPT ![l] = "parseerr"] /\ closed' = TRUE
                   ELSE pc' = [pc EXCEPT ![l] = "loop"] /\ UNCHANGED <<ret, closed>>
                /\ UNCHANGED <<net, narr, cur, reads, spawned>>
Spawn(l) == /\ pc[l] = "parse" /\ Dispatchable(cur[l])
            /\ spawned' = Append(spawned, [id |-> cur[l].id, peer |-> PeerOf(cur[l]), content |-> cur[l].content, done |-> FALSE, loop |-> l])
            /\ pc' = [pc EXCEPT ![l] = "loop"]
            /\ UNCHANGED <<net, narr, cur, reads, closed, ret>>
HandlerFinish(h) == /\ h \in DOMAIN spawned /\ ~spawned[h].done
                    /\ spawned' = [spawned EXCEPT ![h].done = TRUE]
                    /\ UNCHANGED <<net, narr, pc, cur, reads, closed, ret>>
CloseCall == /\ ~closed /\ closed' = TRUE
             /\ UNCHANGED <<net, narr, pc, cur, reads, spawned, ret>>
\* Close may be called by anybody at any time - the owner, a handler that has seen enough, a deferred call after Serve
\* has returned; once the connection is closed another Close changes nothing
CloseAgain == closed /\ UNCHANGED vars

LoopStep(l) == CallRead(l) \/ Read(l) \/ ReadErrReturn(l) \/ ReadClosed(l) \/ ParseFail(l) \/ Spawn(l)

\* --------------------------------------------------------------- properties (C14)
ValidRead == {i \in DOMAIN reads : Dispatchable(reads[i])}
InParse == {cur[l].ri : l \in {m \in Loops : pc[m] = "parse" /\ Dispatchable(cur[m])}}
Handled == ValidRead \ InParse
\* exactly once for each datagram that decodes, never for one that does not; in read order when one loop serves
ExactlyOnce == /\ Len(spawned) = Cardinality(Handled)
               /\ \A h \in DOMAIN spawned : \E i \in Handled : reads[i].id = spawned[h].id
               /\ \A g, h \in DOMAIN spawned : g # h => spawned[g].id # spawned[h].id
               /\ Cardinality(Loops) = 1 => \A g, h \in DOMAIN spawned : g < h => spawned[g].id < spawned[h].id
PeerRule == \A h \in DOMAIN spawned : \E i \in DOMAIN reads :
               reads[i].id = spawned[h].id /\ spawned[h].peer = PeerOf(reads[i])
\* the message a handler holds is the decoding of its own datagram, also after later reads
OwnMessage == \A h \in DOMAIN spawned : spawned[h].content = spawned[h].id
\* Serve returns only when reading failed or the server was closed
ReturnOnlyOnError == \A l \in Loops : pc[l] = "returned" => ret[l] \in {"readerr", "closed"}
LoopSurvives == [][\A l \in Loops : ParseFail(l) => pc'[l] = "loop"]_vars
=============================================================================
