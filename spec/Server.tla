------------------------------- MODULE Server -------------------------------
(* The serving loop of server4.Server.Serve / server6.Server.Serve:           *)
(*   read a datagram, decode it, skip it when it does not decode, otherwise    *)
(*   start the handler in its own goroutine with (conn, peer, message); return *)
(*   only when reading fails (which is also how Close stops it).               *)
(* Handlers run concurrently with the loop and may outlive any number of later *)
(* reads; the message they were given must stay the decoding of their own      *)
(* datagram.                                                                   *)
EXTENDS Integers, Sequences, FiniteSets, TLC

CONSTANTS V4,                \* BOOLEAN: DHCPv4 peer rule (sender without address -> limited broadcast)
          StopOnParseError,  \* deliberately wrong design switches (must be FALSE for the real servers)
          ReuseReadBuffer

VARIABLES net,       \* datagrams waiting in the socket: sequence of [kind, sender, port, id]
          narr,      \* number of datagrams that ever arrived
          pc,        \* "loop" | "blocked" | "parse" | "returned"
          cur,       \* the datagram just read
          reads,     \* sequence of all datagrams read so far
          spawned,   \* handler invocations: sequence of [id, peer, content, done]
          closed,    \* the connection has been closed
          ret        \* why Serve returned
vars == <<net, narr, pc, cur, reads, spawned, closed, ret>>

Kinds == {"valid", "undec", "empty", "err"}
Senders == {"ip", "noip", "zeroip"}

Init == /\ net = <<>> /\ narr = 0 /\ pc = "loop" /\ cur = [kind |-> "none"] /\ reads = <<>>
        /\ spawned = <<>> /\ closed = FALSE /\ ret = "none"

\* the peer handed to the handler
PeerOf(d) == IF V4 /\ d.sender \in {"noip", "zeroip"} THEN [addr |-> "bcast", port |-> d.port]
             ELSE [addr |-> d.sender, port |-> d.port]

Arrive(kind, sender, port) ==
    /\ net' = Append(net, [kind |-> kind, sender |-> sender, port |-> port, id |-> narr + 1])
    /\ narr' = narr + 1
    /\ UNCHANGED <<pc, cur, reads, spawned, closed, ret>>

CallRead == /\ pc = "loop" /\ pc' = "blocked"
            /\ UNCHANGED <<net, narr, cur, reads, spawned, closed, ret>>

\* ReadFrom returns a datagram (or a read error that is not caused by Close)
Read == /\ pc = "blocked" /\ ~closed /\ net # <<>>
        /\ cur' = Head(net) /\ net' = Tail(net) /\ reads' = Append(reads, Head(net))
        /\ IF Head(net).kind = "err"
           THEN pc' = "returned" /\ ret' = "readerr" /\ closed' = TRUE       \* defer s.Close()
           ELSE pc' = "parse" /\ UNCHANGED <<ret, closed>>
        \* a shared read buffer would be overwritten under the feet of running handlers
        /\ spawned' = IF ReuseReadBuffer /\ Head(net).kind # "err"
                      THEN [h \in DOMAIN spawned |-> IF spawned[h].done THEN spawned[h]
                                                     ELSE [spawned[h] EXCEPT !.content = Head(net).id]]
                      ELSE spawned
        /\ UNCHANGED narr
ReadClosed == /\ pc = "blocked" /\ closed
              /\ pc' = "returned" /\ ret' = "closed"
              /\ UNCHANGED <<net, narr, cur, reads, spawned, closed>>
ParseFail == /\ pc = "parse" /\ cur.kind \in {"undec", "empty"}
             /\ IF StopOnParseError THEN pc' = "returned" /\ ret' = "parseerr" /\ closed' = TRUE
                ELSE pc' = "loop" /\ UNCHANGED <<ret, closed>>
             /\ UNCHANGED <<net, narr, cur, reads, spawned>>
Spawn == /\ pc = "parse" /\ cur.kind = "valid"
         /\ spawned' = Append(spawned, [id |-> cur.id, peer |-> PeerOf(cur), content |-> cur.id, done |-> FALSE])
         /\ pc' = "loop"
         /\ UNCHANGED <<net, narr, cur, reads, closed, ret>>
HandlerFinish(h) == /\ h \in DOMAIN spawned /\ ~spawned[h].done
                    /\ spawned' = [spawned EXCEPT ![h].done = TRUE]
                    /\ UNCHANGED <<net, narr, pc, cur, reads, closed, ret>>
CloseCall == /\ ~closed /\ closed' = TRUE
             /\ UNCHANGED <<net, narr, pc, cur, reads, spawned, ret>>

LoopStep == CallRead \/ Read \/ ReadClosed \/ ParseFail \/ Spawn

\* --------------------------------------------------------------- properties (C14)
ValidRead == {i \in DOMAIN reads : reads[i].kind = "valid"}
Handled == IF pc = "parse" /\ cur.kind = "valid" THEN ValidRead \ {Len(reads)} ELSE ValidRead
\* exactly once for each datagram that decodes, never for one that does not, in read order
ExactlyOnce == /\ Len(spawned) = Cardinality(Handled)
               /\ \A h \in DOMAIN spawned : \E i \in Handled : reads[i].id = spawned[h].id
               /\ \A g, h \in DOMAIN spawned : g < h => spawned[g].id < spawned[h].id
PeerRule == \A h \in DOMAIN spawned : \E i \in DOMAIN reads :
               reads[i].id = spawned[h].id /\ spawned[h].peer = PeerOf(reads[i])
\* the message a handler holds is the decoding of its own datagram, also after later reads
OwnMessage == \A h \in DOMAIN spawned : spawned[h].content = spawned[h].id
\* Serve returns only when reading failed or the server was closed
ReturnOnlyOnError == pc = "returned" => ret \in {"readerr", "closed"}
LoopSurvives == [][ParseFail => pc' = "loop"]_vars
=============================================================================
