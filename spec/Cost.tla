-------------------------------- MODULE Cost --------------------------------
(* C09: decoding cost is bounded -- linear size, at most quadratic work.       *)
(*                                                                             *)
(* Cost semantics of the decoders specified in Dhcp4Wire / Dhcp6Wire / Label:  *)
(*  - a flat option list is decoded in one pass: every payload byte is copied  *)
(*    a constant number of times (value copy, container growth);               *)
(*  - every level of option nesting (relay message, identity association,      *)
(*    IA address / prefix, vendor options, 4RD, NTP) takes one copy of the     *)
(*    remainder of its container when it is decoded and one when it is         *)
(*    re-encoded: the "one copy of the input per level of nesting";            *)
(*  - a name list costs its own length per name ... as long as names are not   *)
(*    amplified by compression pointers (see the known finding for C09).       *)
(* The machine below explores all ways of nesting within n bytes and shows the *)
(* work stays within the bound; the bound operators are then evaluated by TLC  *)
(* on measurements of the real decoder (Trace_Cost).                           *)
EXTENDS Integers, Sequences, TLC

\* bounds, in KiB, for an input of n bytes with nesting depth d (constants: >= 4x the worst
\* measurement of a correct decoder on the witness families, see DESIGN.md section 5/C09)
AllocBoundKiB(n, d) == (256 * n) \div 1024 + (8 * (n * d)) \div 1024 + 64
SizeBoundKiB(n) == (64 * n) \div 1024 + 16

\* The known finding (names amplified by compression pointers: a name of n/2 octets followed by n/4 pointers to it
\* decodes to n^2/8 octets) has bounds of its own, so that anything worse than what is known is still reported:
\* decoding allocates about twice the decoded names and retains them once; re-encoding hands the original bytes back.
FanKiB(n) == ((n \div 8) * n) \div 1024                       \* n^2 / 8, in KiB (32-bit arithmetic: divide first)
FanAllocBoundKiB(n) == (5 * FanKiB(n)) \div 2 + AllocBoundKiB(n, 1)
FanSizeBoundKiB(n) == (3 * FanKiB(n)) \div 2 + SizeBoundKiB(n)

CONSTANTS N, MinHeader      \* MC: input length, smallest container header
VARIABLES rem, depth, work
vars == <<rem, depth, work>>
Init == rem = N /\ depth = 0 /\ work = N          \* the flat pass over the input
\* descend into a nested container whose header takes h bytes: the remainder is copied once for
\* decoding and once for re-encoding
Descend(h) == /\ h >= MinHeader /\ h <= rem
              /\ work' = work + 2 * (rem - h) /\ rem' = rem - h /\ depth' = depth + 1
Next == \E h \in MinHeader..N : Descend(h)
Spec == Init /\ [][Next]_vars
\* linear in the input plus one (double) copy per level: at most quadratic, small constant
WorkBound == work <= N + 2 * N * depth
DepthBound == depth * MinHeader <= N
Quadratic == work <= N + (2 * N * N) \div MinHeader
=============================================================================
