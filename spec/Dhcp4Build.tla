----------------------------- MODULE Dhcp4Build -----------------------------
(* RFC 2131 sections 4.3 / 4.4 (and RFC 3046, RFC 6842): the DHCPv4 packet    *)
(* builders as compositions of modifiers over the abstract packets of         *)
(* Dhcp4Wire.tla (C15).  Every builder is                                      *)
(*     ApplyAll(caller's modifiers, ApplyAll(builder defaults, Base(xid)))     *)
(* so caller-supplied modifiers are applied last and prevail.                  *)
EXTENDS Dhcp4Wire, Label

ZeroIP == <<0, 0, 0, 0>>
Base(xid) == [op |-> 1, htype |-> 1, hops |-> 0, xid |-> xid, secs |-> 0, flags |-> 0,
              ci |-> ZeroIP, yi |-> ZeroIP, si |-> ZeroIP, gi |-> ZeroIP,
              ch |-> Zeros(6), sn |-> <<>>, fn |-> <<>>, opts |-> <<>>]

OptVal(p, c) == IF \E i \in DOMAIN p.opts : p.opts[i].c = c
                THEN (CHOOSE o \in Range(p.opts) : o.c = c).v ELSE <<>>
HasOpt(p, c) == \E i \in DOMAIN p.opts : p.opts[i].c = c
SetOpt(p, c, v) == [p EXCEPT !.opts = SortOpts(Append(SelectSeq(@, LAMBDA o : o.c # c), [c |-> c, v |-> v]))]
DelOpt(p, c) == [p EXCEPT !.opts = SelectSeq(@, LAMBDA o : o.c # c)]

\* parameter request list: add the codes that are not yet requested, in order
RECURSIVE AddCodes(_, _)
AddCodes(list, cs) == IF cs = <<>> THEN list
                      ELSE AddCodes(IF \E i \in DOMAIN list : list[i] = Head(cs) THEN list ELSE Append(list, Head(cs)), Tail(cs))
BitSet(flags) == IF flags >= 32768 THEN flags ELSE flags + 32768
BitClear(flags) == IF flags >= 32768 THEN flags - 32768 ELSE flags

\* modifier descriptors
Apply(m, p) ==
    CASE m.k = "xid" -> [p EXCEPT !.xid = m.v]
      [] m.k = "ci" -> [p EXCEPT !.ci = m.v]
      [] m.k = "yi" -> [p EXCEPT !.yi = m.v]
      [] m.k = "si" -> [p EXCEPT !.si = m.v]
      [] m.k = "gi" -> [p EXCEPT !.gi = m.v]
      [] m.k = "htype" -> [p EXCEPT !.htype = m.v]
      [] m.k = "hw" -> [p EXCEPT !.ch = m.v]
      [] m.k = "bcast" -> [p EXCEPT !.flags = IF m.v THEN BitSet(@) ELSE BitClear(@)]
      [] m.k = "opt" -> SetOpt(p, m.c, m.v)
      [] m.k = "names" -> SetOpt(p, 119, LabelEncode(m.v))          \* WithDomainSearchList: RFC 3397 / RFC 1035 encoding of the names
      [] m.k = "del" -> DelOpt(p, m.c)
      [] m.k = "reqopts" -> SetOpt(p, 55, AddCodes(OptVal(p, 55), m.v))
      [] m.k = "relay" -> [p EXCEPT !.flags = BitClear(@), !.gi = m.v, !.hops = (@ + 1) % 256]
      \* echo an option of another packet when it is present with a non-empty value
      [] m.k = "copy" -> IF OptVal(m.src, m.c) # <<>> THEN SetOpt(p, m.c, OptVal(m.src, m.c)) ELSE p
      \* answer a packet: opposite opcode, same transaction id, hardware type/address, flags
      [] m.k = "reply" -> [p EXCEPT !.op = IF m.src.op = 1 THEN 2 ELSE 1, !.htype = m.src.htype,
                                    !.xid = m.src.xid, !.ch = m.src.ch, !.flags = m.src.flags]
RECURSIVE ApplyAll(_, _)
ApplyAll(ms, p) == IF ms = <<>> THEN p ELSE ApplyAll(Tail(ms), Apply(Head(ms), p))

M(k, v) == [k |-> k, v |-> v]
MOpt(c, v) == [k |-> "opt", c |-> c, v |-> v]
MCopy(src, c) == [k |-> "copy", src |-> src, c |-> c]
MsgType(t) == MOpt(53, <<t>>)
DefaultPRL == M("reqopts", <<1, 3, 15, 6>>)

Defaults(builder, in) ==
    CASE builder = "Discovery" -> <<M("hw", in.hw), DefaultPRL, MsgType(1)>>
      [] builder = "Inform" -> <<M("hw", in.hw), MsgType(8), M("ci", in.ip)>>
      [] builder = "RequestFromOffer" -> <<[k |-> "reply", src |-> in], MsgType(3), M("ci", in.ci), MOpt(50, in.yi),
                                           MCopy(in, 54), DefaultPRL>>
      [] builder = "RenewFromAck" -> <<[k |-> "reply", src |-> in], MsgType(3), M("ci", in.yi), M("bcast", FALSE), DefaultPRL>>
      [] builder = "ReplyFromRequest" -> <<[k |-> "reply", src |-> in], M("gi", in.gi), MCopy(in, 82), MCopy(in, 61)>>
      [] builder = "ReleaseFromACK" -> <<MsgType(7), M("ci", in.yi), M("hw", in.ch), M("bcast", FALSE), MCopy(in, 54)>>
      [] builder = "New" -> <<>>

Build(builder, in, mods, xid) == ApplyAll(mods, ApplyAll(Defaults(builder, in), Base(xid)))
\* the transaction id is drawn at random unless a modifier / the answered packet determines it
=============================================================================
