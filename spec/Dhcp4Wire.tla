----------------------------- MODULE Dhcp4Wire -----------------------------
(* RFC 2131 figure 1 / RFC 2132 / RFC 3396 wire format of a DHCPv4 packet,   *)
(* written from the RFCs: the reference semantics against which the library's*)
(* ToBytes / FromBytes are judged.                                           *)
(*                                                                           *)
(* An abstract packet is a record                                            *)
(*   [op, htype, hops, xid(4), secs, flags, ci(4), yi(4), si(4), gi(4),      *)
(*    ch (0..ChaddrLen bytes), sn, fn (byte strings without NUL),            *)
(*    opts : sequence of [c |-> code, v |-> bytes], ascending distinct codes]*)
EXTENDS Bytes

CONSTANTS ChunkMax,    \* max value bytes per option instance (255)
          MinLen,      \* BOOTP minimum packet length (300)
          ChaddrLen,   \* 16
          SnameLen,    \* 64
          FileLen      \* 128

Cookie == <<99, 130, 83, 99>>
FixedLen == 28 + ChaddrLen + SnameLen + FileLen       \* 236
OptPad == 0
OptEnd == 255
OptAgentInfo == 82

Fail == [ok |-> FALSE]

\* ------------------------------------------------------------------ options
CodeLess(a, b) == a.c < b.c
SortOpts(opts) == SortSeq(opts, CodeLess)
\* wire order: ascending codes, relay agent information (82) last (RFC 3046 2.1)
WireOrder(opts) == LET s == SortOpts(opts) IN
    SelectSeq(s, LAMBDA o : o.c # OptAgentInfo) \o SelectSeq(s, LAMBDA o : o.c = OptAgentInfo)

\* RFC 3396: a value longer than ChunkMax travels as consecutive instances
RECURSIVE Split(_)
Split(v) == IF Len(v) <= ChunkMax THEN <<v>>
            ELSE <<SubSeq(v, 1, ChunkMax)>> \o Split(SubSeq(v, ChunkMax + 1, Len(v)))

Inst(c, chunk) == <<c, Len(chunk)>> \o chunk
RECURSIVE EncChunks(_, _)
EncChunks(c, chunks) == IF chunks = <<>> THEN <<>>
                        ELSE Inst(c, Head(chunks)) \o EncChunks(c, Tail(chunks))
EncOpt(o) == EncChunks(o.c, Split(o.v))
RECURSIVE EncOptSeq(_)
EncOptSeq(os) == IF os = <<>> THEN <<>> ELSE EncOpt(Head(os)) \o EncOptSeq(Tail(os))
\* codes 0 (pad) and 255 (end) are never emitted as options
Emittable(opts) == SelectSeq(opts, LAMBDA o : o.c # OptPad /\ o.c # OptEnd)
EncOptsArea(opts) == EncOptSeq(WireOrder(Emittable(opts)))

\* options scanner: pad bytes skipped, End stops, every instance inside the buffer.
\* Result: instances in order of appearance.  "needEnd" is TRUE for packets, FALSE for
\* sub-option spaces (relay agent information, vendor options).
RECURSIVE Scan(_, _, _, _)
Scan(b, i, acc, needEnd) ==
    IF i > Len(b) THEN [ok |-> ~needEnd, inst |-> acc]
    ELSE IF b[i] = OptPad THEN Scan(b, i + 1, acc, needEnd)
    ELSE IF b[i] = OptEnd THEN [ok |-> TRUE, inst |-> acc]
    ELSE IF i + 1 > Len(b) THEN [ok |-> FALSE, inst |-> acc, lone |-> TRUE]  \* code without length byte
    ELSE LET n == b[i + 1] IN
         IF i + 1 + n > Len(b) THEN [ok |-> FALSE, inst |-> acc]
         ELSE Scan(b, i + 2 + n, Append(acc, [c |-> b[i], v |-> Sub(b, i + 2, n)]), needEnd)

\* concatenate the instances of each code in order of appearance (RFC 3396 section 7)
InstCodes(inst) == {inst[i].c : i \in DOMAIN inst}
RECURSIVE ValueOf(_, _)
ValueOf(inst, c) == IF inst = <<>> THEN <<>>
                    ELSE (IF Head(inst).c = c THEN Head(inst).v ELSE <<>>) \o ValueOf(Tail(inst), c)
Group(inst) == LET cs == SetToSortSeq(InstCodes(inst), <) IN
               [k \in 1..Len(cs) |-> [c |-> cs[k], v |-> ValueOf(inst, cs[k])]]

\* ------------------------------------------------------------------- header
NulPad(s, n) == LET t == Take(s, n - 1) IN t \o Zeros(n - Len(t))
Header(p) == <<p.op, p.htype, Len(p.ch) % 256, p.hops>> \o p.xid \o U16(p.secs) \o U16(p.flags)
             \o p.ci \o p.yi \o p.si \o p.gi
             \o PadTo(Take(p.ch, ChaddrLen), ChaddrLen)
             \o NulPad(p.sn, SnameLen) \o NulPad(p.fn, FileLen)

Enc4(p) == PadTo(Header(p) \o Cookie \o EncOptsArea(p.opts) \o <<OptEnd>>, MinLen)

\* canonical form of an abstract packet: what any decoder must recover from Enc4(p)
Canon(p) == [p EXCEPT !.opts = SortOpts(Emittable(p.opts)),
                      !.sn = Take(p.sn, SnameLen - 1), !.fn = Take(p.fn, FileLen - 1),
                      !.ch = Take(p.ch, ChaddrLen)]

HeaderFields(b) ==
    LET hlen == Min2(b[3], ChaddrLen) IN
    [op |-> b[1], htype |-> b[2], hops |-> b[4], xid |-> Sub(b, 5, 4),
     secs |-> BE16(b, 9), flags |-> BE16(b, 11),
     ci |-> Sub(b, 13, 4), yi |-> Sub(b, 17, 4), si |-> Sub(b, 21, 4), gi |-> Sub(b, 25, 4),
     ch |-> Sub(b, 29, hlen),
     sn |-> CutAt(Sub(b, 29 + ChaddrLen, SnameLen), 0),
     fn |-> CutAt(Sub(b, 29 + ChaddrLen + SnameLen, FileLen), 0)]

Dec4(b) ==
    IF Len(b) < FixedLen + 4 THEN Fail
    ELSE IF Sub(b, FixedLen + 1, 4) # Cookie THEN Fail
    ELSE LET area == From(b, FixedLen + 5)
             sc == IF area = <<>> THEN [ok |-> TRUE, inst |-> <<>>] ELSE Scan(area, 1, <<>>, TRUE)
         IN IF ~sc.ok THEN Fail
            ELSE [ok |-> TRUE, val |-> HeaderFields(b) @@ [opts |-> Group(sc.inst)]]

\* sub-option spaces: Options.FromBytes (End optional)
DecSubOpts(b) == LET sc == Scan(b, 1, <<>>, FALSE) IN
                 IF sc.ok THEN [ok |-> TRUE, opts |-> Group(sc.inst)] ELSE sc

\* ------------------------------------------------- canonical-form validator
\* A declarative description of what Enc4 output must look like; shares nothing with
\* EncOptsArea.  (C07)
EndIndex(b) == \* index of the End option found by scanning, 0 if none
    LET RECURSIVE Walk(_)
        Walk(i) == IF i > Len(b) THEN 0
                   ELSE IF b[i] = OptEnd THEN i
                   ELSE IF b[i] = OptPad THEN 0         \* canonical form has no pad before End
                   ELSE IF i + 1 > Len(b) \/ i + 1 + b[i + 1] > Len(b) THEN 0
                   ELSE Walk(i + 2 + b[i + 1])
    IN Walk(FixedLen + 5)

Canonical(b) ==
    /\ Len(b) >= MinLen
    /\ Len(b) >= FixedLen + 5
    /\ Sub(b, FixedLen + 1, 4) = Cookie
    /\ LET e == EndIndex(b)
           inst == Scan(From(b, FixedLen + 5), 1, <<>>, TRUE).inst
           n == Len(inst)
           rank(c) == IF c = OptAgentInfo THEN 256 ELSE c
       IN /\ e > 0
          /\ \A i \in (e + 1)..Len(b) : b[i] = OptPad                 \* exactly one End, then padding
          /\ (Len(b) > MinLen => e = Len(b))                          \* padding only up to MinLen
          /\ \A i \in 1..n : Len(inst[i].v) <= ChunkMax /\ inst[i].c \notin {OptPad, OptEnd}
          /\ \A i \in 1..(n - 1) : rank(inst[i].c) <= rank(inst[i + 1].c)   \* ascending, 82 last
          /\ \A i \in 1..(n - 1) : inst[i].c = inst[i + 1].c =>             \* split only when full
                 Len(inst[i].v) = ChunkMax /\ Len(inst[i + 1].v) > 0
=============================================================================
