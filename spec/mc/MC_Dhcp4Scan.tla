---------------------------- MODULE MC_Dhcp4Scan ----------------------------
(* The DHCPv4 options-area scanner as a step machine (one byte-level decision*)
(* per action), explored for EVERY options area over a structural alphabet up*)
(* to a fixed length.  Cross-checks the recursive operator Dhcp4Wire!Scan    *)
(* (used as the trace oracle for C04) against an independently phrased       *)
(* formulation, and checks totality/termination.                             *)
EXTENDS Dhcp4Wire, TLC

CONSTANTS Alphabet, MaxLen

VARIABLES buf, pos, inst, st     \* st \in {"run", "accept", "reject"}
vars == <<buf, pos, inst, st>>

Init == /\ buf \in StringsUpTo(Alphabet, MaxLen)
        /\ pos = 1 /\ inst = <<>> /\ st = "run"

AtEnd == pos > Len(buf)
StepExhausted == /\ st = "run" /\ AtEnd
                 /\ st' = "reject"                    \* ran off the end without End
                 /\ UNCHANGED <<buf, pos, inst>>
StepPad == /\ st = "run" /\ ~AtEnd /\ buf[pos] = OptPad
           /\ pos' = pos + 1 /\ UNCHANGED <<buf, inst, st>>
StepEnd == /\ st = "run" /\ ~AtEnd /\ buf[pos] = OptEnd
           /\ st' = "accept" /\ UNCHANGED <<buf, pos, inst>>
IsOpt == ~AtEnd /\ buf[pos] \notin {OptPad, OptEnd}
Fits == pos + 1 <= Len(buf) /\ pos + 1 + buf[pos + 1] <= Len(buf)
StepOpt == /\ st = "run" /\ IsOpt /\ Fits
           /\ inst' = Append(inst, [c |-> buf[pos], v |-> Sub(buf, pos + 2, buf[pos + 1])])
           /\ pos' = pos + 2 + buf[pos + 1]
           /\ UNCHANGED <<buf, st>>
StepOverrun == /\ st = "run" /\ IsOpt /\ ~Fits
               /\ st' = "reject" /\ UNCHANGED <<buf, pos, inst>>
Next == StepExhausted \/ StepPad \/ StepEnd \/ StepOpt \/ StepOverrun
Spec == Init /\ [][Next]_vars

\* the machine's verdict equals the recursive operator's (empty area is accepted by the
\* packet decoder before scanning starts, so it is excluded here)
Agrees == st # "run" =>
            LET r == Scan(buf, 1, <<>>, TRUE) IN
            /\ r.ok = (st = "accept")
            /\ (st = "accept" => r.inst = inst)
\* progress measure: position strictly increases until a verdict
Terminates == pos <= Len(buf) + 1
Deterministic == [][\/ pos' > pos \/ st' # st]_vars
\* grouped value: code maps to the concatenation of its instances in order of appearance
GroupLemma == st = "accept" =>
     LET g == Group(inst) IN
     /\ \A k \in 1..(Len(g) - 1) : g[k].c < g[k + 1].c
     /\ \A k \in 1..Len(g) : g[k].v = Concat([j \in 1..Len(SelectSeq(inst, LAMBDA x : x.c = g[k].c)) |->
                                               SelectSeq(inst, LAMBDA x : x.c = g[k].c)[j].v])
=============================================================================
