\* behaviour generation (tlc -simulate): long scripts, complete behaviours printed as CASE lines
SPECIFICATION MCSpec
CONSTANTS
  V4 = TRUE
  Loops = {1, 2}
  ServerWideBuffer = FALSE
  StopOnParseError = FALSE
  ReuseReadBuffer = FALSE
  MaxReads = 8
  Ports = {68, 1068}
  EmitCases = TRUE
INVARIANTS Emit
CHECK_DEADLOCK FALSE
