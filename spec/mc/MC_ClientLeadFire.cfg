\* deliberately wrong design: the one-shot transmission (Release) goes through send() and forgets its registration.
\* TLC must find that the transaction id is not reusable afterwards.
SPECIFICATION Spec
CONSTANTS
  Callers = {1}
  Xids = {7}
  None = "none"
  T = 1
  Tries = 1
  BufCap = 1
  V4 = TRUE
  XidOf <- XidAll7
  Urgent = FALSE
  Timed = FALSE
  CancelChecksIdentity = TRUE
  TimerPerIteration = FALSE
  MaxDgrams = 0
  DgramAttrs <- AttrsGR
  MaxNow = 0
  AllowClose = FALSE
  AllowCtx = FALSE
  MaxCalls = 2
  WFault = FALSE
  TimeoutCarriesOver = FALSE
  WriteErrKeepsEntry = FALSE
  AllowFire = TRUE
  FireRegisters = TRUE
  RFault = FALSE
  ReadErrEndsCalls = FALSE
  LoopSurvivesClose = FALSE
  MaxTry = 1
INVARIANTS IdReusable
CHECK_DEADLOCK FALSE
