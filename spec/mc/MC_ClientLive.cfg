\* C11 liveness under weak fairness (smallest configuration): every started call returns, Close returns
SPECIFICATION Fair
CONSTANTS
  Callers = {1}
  Xids = {7}
  None = "none"
  T = 1
  Tries = 2
  BufCap = 1
  V4 = TRUE
  XidOf <- XidAll7
  Urgent = TRUE
  Timed = TRUE
  CancelChecksIdentity = TRUE
  TimerPerIteration = FALSE
  MaxDgrams = 1
  DgramAttrs <- AttrsGR
  MaxNow = 4
  AllowClose = TRUE
  AllowCtx = TRUE
  MaxCalls = 1
  WFault = FALSE
  TimeoutCarriesOver = FALSE
  WriteErrKeepsEntry = FALSE
  AllowFire = FALSE
  FireRegisters = FALSE
  RFault = TRUE
  ReadErrEndsCalls = FALSE
  LoopSurvivesClose = FALSE
  MaxTry = 2
PROPERTIES EventuallyReturns CloseReturns
CHECK_DEADLOCK FALSE
