\* deliberately wrong design: a call starts from the timeout the previous call on that client ended with.
\* TLC must find the history (first call answered on a retransmission, second call off schedule).
SPECIFICATION Spec
CONSTANTS
  Callers = {1}
  Xids = {7}
  None = "none"
  T = 1
  Tries = 2
  BufCap = 1
  V4 = TRUE
  XidOf <- XidAll7
  Urgent = TRUE
  Timed = TRUE
  CancelChecksIdentity = TRUE
  TimerPerIteration = FALSE
  MaxDgrams = 1
  DgramAttrs <- AttrsGR
  MaxNow = 8
  AllowClose = FALSE
  AllowCtx = FALSE
  MaxCalls = 2
  WFault = FALSE
  TimeoutCarriesOver = TRUE
  WriteErrKeepsEntry = FALSE
  AllowFire = FALSE
  FireRegisters = FALSE
  RFault = FALSE
  ReadErrEndsCalls = FALSE
  LoopSurvivesClose = FALSE
  MaxTry = 2
INVARIANTS Schedule
CHECK_DEADLOCK FALSE
