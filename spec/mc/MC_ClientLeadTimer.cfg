\* deliberately wrong design (timer re-armed on every wait-loop iteration): TLC must find a schedule that
\* breaks the retransmission schedule; replayed into the real clients
SPECIFICATION Spec
CONSTANTS
  Callers = {1}
  Xids = {7}
  None = "none"
  T = 2
  Tries = 2
  BufCap = 1
  V4 = TRUE
  XidOf <- XidAll7
  Urgent = TRUE
  Timed = TRUE
  CancelChecksIdentity = TRUE
  TimerPerIteration = TRUE
  MaxDgrams = 2
  DgramAttrs <- AttrsR
  MaxNow = 8
  AllowClose = FALSE
  AllowCtx = FALSE
  MaxCalls = 1
  WFault = FALSE
  TimeoutCarriesOver = FALSE
  WriteErrKeepsEntry = FALSE
  AllowFire = FALSE
  FireRegisters = FALSE
  RFault = FALSE
  ReadErrEndsCalls = FALSE
  LoopSurvivesClose = FALSE
  MaxTry = 2
INVARIANTS Schedule
CHECK_DEADLOCK FALSE
