\* C11/C12: virtual time with urgent internal steps (testing/synctest semantics); one caller,
\* T = 2 units, 3 tries (budget 14), datagrams arriving at any instant, ctx cancel and Close at any instant
SPECIFICATION Spec
CONSTANTS
  Callers = {1}
  Xids = {7}
  None = "none"
  T = 2
  Tries = 2
  BufCap = 1
  V4 = TRUE
  XidOf <- XidAll7
  Urgent = TRUE
  Timed = TRUE
  CancelChecksIdentity = TRUE
  TimerPerIteration = FALSE
  MaxDgrams = 3
  DgramAttrs <- AttrsGR
  MaxNow = 7
  AllowClose = TRUE
  AllowCtx = TRUE
  MaxCalls = 1
  WFault = FALSE
  TimeoutCarriesOver = FALSE
  WriteErrKeepsEntry = FALSE
  AllowFire = FALSE
  FireRegisters = FALSE
  RFault = TRUE
  ReadErrEndsCalls = FALSE
  LoopSurvivesClose = FALSE
  MaxTry = 2
INVARIANTS TypeOK OwnTransaction FirstAcceptable ChanClosedOnlyAfterOwnDone NoNilDelivery PendingEntriesLive Capacity IdReusable CloseStopsLoop Deadline CtxPrompt ClosePrompt Schedule NoRespAtBudget DoneOnlyByClose
PROPERTIES NoTxAfterAccept
CHECK_DEADLOCK FALSE
