SPECIFICATION Spec
CONSTANTS
  ChunkMax = 255
  MinLen = 300
  ChaddrLen = 16
  SnameLen = 64
  FileLen = 128
  MaxMods = 2
INVARIANTS ReplyCorrelates RequestCorrelates RenewRules ReleaseRules LastModifierPrevails
CHECK_DEADLOCK FALSE
