\* deliberately wrong design (cancel() does not check entry identity): TLC must find the schedule in
\* which a call reads nil from a channel closed by another call's cancel; the schedule is replayed
\* into the real clients
SPECIFICATION Spec
CONSTANTS
  Callers = {1, 2}
  Xids = {7}
  None = "none"
  T = 1
  Tries = 1
  BufCap = 1
  V4 = TRUE
  XidOf <- XidAll7
  Urgent = FALSE
  Timed = FALSE
  CancelChecksIdentity = FALSE
  TimerPerIteration = FALSE
  MaxDgrams = 2
  DgramAttrs <- AttrsGR
  MaxNow = 0
  AllowClose = FALSE
  AllowCtx = TRUE
  MaxCalls = 1
  WFault = FALSE
  TimeoutCarriesOver = FALSE
  WriteErrKeepsEntry = FALSE
  AllowFire = FALSE
  FireRegisters = FALSE
  RFault = FALSE
  ReadErrEndsCalls = FALSE
  LoopSurvivesClose = FALSE
  MaxTry = 1
INVARIANTS NoNilDelivery
CHECK_DEADLOCK FALSE
