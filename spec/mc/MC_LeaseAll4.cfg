SPECIFICATION Spec
CONSTANTS
  Proto = 4
  Tries = 2
  MaxReplies = 1
  Rapid = FALSE
  Inform = FALSE
  EmitCases = TRUE
INVARIANTS Emit
CHECK_DEADLOCK FALSE
