SPECIFICATION Spec
CONSTANTS
  Alphabet = {0, 255, 1}
  MaxLen = 3
  MaxFrames = 1
INVARIANTS WriterOK ReaderOK
CHECK_DEADLOCK FALSE
