------------------------------ MODULE MC_Dhcp6 ------------------------------
(* Small-scope exploration of the DHCPv6 wire specification itself:           *)
(*  (a) the TLV scanner as a step machine over every byte string of a small   *)
(*      structural alphabet (totality, agreement with the recursive operator),*)
(*  (b) a lifecycle machine that builds option lists from representative      *)
(*      values of every option type, nests them (IA -> address -> status,     *)
(*      relay message), encodes and decodes: Dec6(Enc6(m)) = m.               *)
EXTENDS Dhcp6Wire, TLC
CONSTANTS Alphabet, MaxLen, MaxAdds, MaxDepth

VARIABLES mode, buf, pos, acc, st, msg, nadd
vars == <<mode, buf, pos, acc, st, msg, nadd>>

Z(n) == Zeros(n)
\* representative option values: boundary field values for every known type
Atoms == {
  [c |-> 1, v |-> <<<<<<0, 1>>, <<0, 1>>, <<0, 0, 0, 9>>, <<1, 2, 3>>>>>>],            \* DUID-LLT
  [c |-> 2, v |-> <<<<<<0, 4>>, Z(16)>>>>],                                            \* DUID-UUID
  [c |-> 1, v |-> <<<<<<0, 9>>, <<>>>>>>],                                             \* opaque, empty
  [c |-> 6, v |-> <<<<<<0, 23>>, <<255, 255>>>>>>],
  [c |-> 6, v |-> <<<<>>>>],
  [c |-> 8, v |-> <<<<255, 255>>>>],
  [c |-> 13, v |-> <<<<0, 6>>, <<111, 107>>>>],
  [c |-> 15, v |-> <<<<<<>>, <<7>>>>>>],
  [c |-> 16, v |-> <<<<0, 0, 1, 0>>, <<<<1, 2>>>>>>],
  [c |-> 17, v |-> <<<<255, 255, 255, 255>>, <<[c |-> 1, v |-> <<<<9>>>>], [c |-> 9, v |-> <<<<>>>>]>>>>],
  [c |-> 18, v |-> <<<<>>>>],
  [c |-> 23, v |-> <<<<Z(16)>>>>],
  [c |-> 24, v |-> <<<<<<97, 46, 98>>, <<99>>>>>>],
  [c |-> 32, v |-> <<<<255, 255, 255, 255>>>>],
  [c |-> 37, v |-> <<<<0, 0, 0, 1>>, <<>>>>],
  [c |-> 39, v |-> <<<<1>>, <<<<97>>>>>>],
  [c |-> 56, v |-> <<<<[c |-> 1, v |-> <<Z(16)>>], [c |-> 3, v |-> <<<<<<97>>>>>>], [c |-> 9, v |-> <<<<1>>>>]>>>>],
  [c |-> 59, v |-> <<<<104>>>>],
  [c |-> 60, v |-> <<<<<<>>, <<1, 2>>>>>>],
  [c |-> 61, v |-> <<<<<<0, 7>>>>>>],
  [c |-> 62, v |-> <<<<1>>, <<2>>, <<3>>>>],
  [c |-> 79, v |-> <<<<0, 1>>, <<1, 2, 3, 4, 5, 6>>>>],
  [c |-> 88, v |-> <<<<>>>>],
  [c |-> 98, v |-> <<<<32>>, <<128>>, <<7>>, <<128>>, <<10, 0, 0, 0>>, Z(16)>>],
  [c |-> 99, v |-> <<<<129>>, <<5>>, <<5, 220>>>>],
  [c |-> 99, v |-> <<<<0>>, <<0>>, <<0, 0>>>>],
  [c |-> 135, v |-> <<<<2, 35>>>>],
  [c |-> 300, v |-> <<<<1, 2, 3>>>>],
  [c |-> 14, v |-> <<<<>>>>] }
\* containers around an inner option list
Wrap(k, inner) ==
  CASE k = 3 -> [c |-> 3, v |-> <<<<0, 0, 0, 1>>, <<0, 0, 14, 16>>, <<255, 255, 255, 255>>, inner>>]
    [] k = 4 -> [c |-> 4, v |-> <<<<9, 9, 9, 9>>, inner>>]
    [] k = 5 -> [c |-> 5, v |-> <<Z(16), <<0, 0, 0, 0>>, <<0, 0, 0, 1>>, inner>>]
    [] k = 25 -> [c |-> 25, v |-> <<<<1, 1, 1, 1>>, <<0, 0, 0, 0>>, <<0, 0, 0, 0>>, inner>>]
    [] k = 26 -> [c |-> 26, v |-> <<<<0, 0, 0, 1>>, <<0, 0, 0, 2>>, <<64>>, <<32, 1>> \o Z(14), inner>>]
    [] k = 97 -> [c |-> 97, v |-> <<inner>>]
    [] k = 9 -> [c |-> 9, v |-> <<[mt |-> 1, xid |-> <<1, 2, 3>>, opts |-> inner]>>]
    [] k = 912 -> [c |-> 9, v |-> <<[mt |-> 12, hops |-> 1, link |-> Z(16), peer |-> Z(16), opts |-> inner]>>]

Init == \/ /\ mode = "scan" /\ buf \in StringsUpTo(Alphabet, MaxLen)
           /\ pos = 1 /\ acc = <<>> /\ st = "run" /\ msg = <<>> /\ nadd = 0
        \/ /\ mode = "build" /\ buf = <<>> /\ pos = 0 /\ acc = <<>> /\ st = "build" /\ msg = <<>> /\ nadd = 0

\* (a) scanner step machine over buf taken as an options area of a message
AtEnd == pos > Len(buf)
ScanStep ==
    /\ mode = "scan" /\ st = "run"
    /\ IF AtEnd THEN st' = "yes" /\ UNCHANGED <<pos, acc>>
       ELSE IF pos + 3 > Len(buf) THEN st' = "no" /\ UNCHANGED <<pos, acc>>
       ELSE LET c == BE16(buf, pos) n == BE16(buf, pos + 2) IN
            IF pos + 3 + n > Len(buf) THEN st' = "no" /\ UNCHANGED <<pos, acc>>
            ELSE LET o == DecOpt("main", c, Sub(buf, pos + 4, n)) IN
                 IF o.st = "no" THEN st' = "no" /\ UNCHANGED <<pos, acc>>
                 ELSE pos' = pos + 4 + n /\ acc' = Append(acc, o.v) /\ st' = st
    /\ UNCHANGED <<mode, buf, msg, nadd>>
\* (b) building: add an atom, or wrap everything built so far in a container
Add(a) == /\ mode = "build" /\ st = "build" /\ nadd < MaxAdds /\ acc' = Append(acc, a) /\ nadd' = nadd + 1
          /\ UNCHANGED <<mode, buf, pos, st, msg>>
WrapAll(k) == /\ mode = "build" /\ st = "build" /\ acc # <<>> /\ pos < MaxDepth
              /\ acc' = <<Wrap(k, acc)>> /\ pos' = pos + 1
              /\ UNCHANGED <<mode, buf, st, msg, nadd>>
Finish == /\ mode = "build" /\ st = "build"
          /\ msg' = [mt |-> 7, xid |-> <<170, 187, 204>>, opts |-> acc]
          /\ buf' = Enc6(msg') /\ st' = "built"
          /\ UNCHANGED <<mode, pos, acc, nadd>>
Next == ScanStep \/ (\E a \in Atoms : Add(a)) \/ (\E k \in {3, 4, 5, 25, 26, 97, 9, 912} : WrapAll(k)) \/ Finish
Spec == Init /\ [][Next]_vars

ScanAgrees == (mode = "scan" /\ st # "run") =>
                 LET r == DecOptsT("main", buf, 1, <<>>) IN
                 /\ (st = "no") = (r.st = "no")
                 /\ (st = "yes" => r.v = acc)
ScanTerminates == mode = "scan" => pos <= Len(buf) + 1
\* C02 at the specification level: decoding the encoding gives the value back, unambiguously
RoundTrip == st = "built" => Dec6(buf) = [st |-> "yes", v |-> msg]
\* the encoding tiles exactly: re-encoding the decoded value reproduces the bytes
Reencode == st = "built" => Enc6(Dec6(buf).v) = buf
=============================================================================
