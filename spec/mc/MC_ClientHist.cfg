\* C10/C11 with call histories: two callers on one transaction id, each may call twice on the same client;
\* writes may fail at any time (link down); untimed
SPECIFICATION Spec
CONSTANTS
  Callers = {1, 2}
  Xids = {7}
  None = "none"
  T = 1
  Tries = 1
  BufCap = 1
  V4 = TRUE
  XidOf <- XidAll7
  Urgent = FALSE
  Timed = FALSE
  CancelChecksIdentity = TRUE
  TimerPerIteration = FALSE
  MaxDgrams = 2
  DgramAttrs <- AttrsGR
  MaxNow = 0
  AllowClose = TRUE
  AllowCtx = FALSE
  MaxCalls = 2
  WFault = TRUE
  TimeoutCarriesOver = FALSE
  WriteErrKeepsEntry = FALSE
  AllowFire = TRUE
  FireRegisters = FALSE
  RFault = TRUE
  ReadErrEndsCalls = FALSE
  LoopSurvivesClose = FALSE
  MaxTry = 1
INVARIANTS TypeOK OwnTransaction FirstAcceptable ChanClosedOnlyAfterOwnDone NoNilDelivery PendingEntriesLive Capacity IdReusable CloseStopsLoop DoneOnlyByClose
PROPERTIES RefuseWhilePending Isolation NoTxAfterAccept
CHECK_DEADLOCK FALSE
