\* C10: untimed (a timeout may fire at any moment), 2 callers colliding on one transaction id plus
\* a third on another id, buffer of 1, 2 tries, up to 3 datagrams of any kind
SPECIFICATION Spec
CONSTANTS
  Callers = {1, 2}
  Xids = {7}
  None = "none"
  T = 1
  Tries = 2
  BufCap = 1
  V4 = TRUE
  XidOf <- XidAll7
  Urgent = FALSE
  Timed = FALSE
  CancelChecksIdentity = TRUE
  TimerPerIteration = FALSE
  MaxDgrams = 3
  DgramAttrs <- Attrs7
  MaxNow = 0
  AllowClose = TRUE
  AllowCtx = FALSE
  MaxCalls = 1
  WFault = FALSE
  TimeoutCarriesOver = FALSE
  WriteErrKeepsEntry = FALSE
  AllowFire = FALSE
  FireRegisters = FALSE
  RFault = TRUE
  ReadErrEndsCalls = FALSE
  LoopSurvivesClose = FALSE
  MaxTry = 2
INVARIANTS TypeOK OwnTransaction FirstAcceptable ChanClosedOnlyAfterOwnDone NoNilDelivery PendingEntriesLive Capacity IdReusable CloseStopsLoop DoneOnlyByClose
PROPERTIES RefuseWhilePending Isolation NoTxAfterAccept
CHECK_DEADLOCK FALSE
