---------------------------- MODULE MC_Dhcp6Build ----------------------------
(* A relay chain machine: a client message is encapsulated level by level with *)
(* any link/peer address and any subset of interface-id / remote-id options;   *)
(* at every state the C16 identities are checked.                              *)
EXTENDS Dhcp6Build, TLC
CONSTANTS MaxDepth, InnerTypes
VARIABLES orig, cur, depth
vars == <<orig, cur, depth>>
Addr(k) == Fill(16, k)
Cid == [c |-> 1, v |-> <<<<<<0, 3>>, <<0, 1>>, <<1, 2, 3, 4, 5, 6>>>>>>]
Sid == [c |-> 2, v |-> <<<<<<0, 2>>, <<0, 0, 0, 9>>, <<7>>>>>>]
Iana == [c |-> 3, v |-> <<<<1, 2, 3, 4>>, <<0, 0, 0, 0>>, <<0, 0, 0, 0>>, <<>>>>]
Iapd == [c |-> 25, v |-> <<<<1, 2, 3, 4>>, <<0, 0, 0, 0>>, <<0, 0, 0, 0>>, <<>>>>]
Rapid == [c |-> 14, v |-> <<<<>>>>]
VClass == [c |-> 16, v |-> <<<<0, 0, 0, 1>>, <<<<97>>>>>>]
Iid(k) == [c |-> 18, v |-> <<<<k>>>>]
Rid(k) == [c |-> 37, v |-> <<<<0, 0, 0, k>>, <<k, k>>>>]
OptSets == {s \in SUBSET {"cid", "sid", "iana", "iapd", "rapid", "vclass"} : TRUE}
OptsOf(s) == (IF "cid" \in s THEN <<Cid>> ELSE <<>>) \o (IF "rapid" \in s THEN <<Rapid>> ELSE <<>>)
             \o (IF "sid" \in s THEN <<Sid>> ELSE <<>>) \o (IF "iana" \in s THEN <<Iana>> ELSE <<>>)
             \o (IF "iapd" \in s THEN <<Iapd>> ELSE <<>>) \o (IF "vclass" \in s THEN <<VClass>> ELSE <<>>)
Init == /\ orig \in {[mt |-> t, xid |-> <<1, 2, 3>>, opts |-> OptsOf(s)] : t \in InnerTypes, s \in OptSets}
        /\ cur = orig /\ depth = 0
Wrap(link, peer, withIid, withRid) ==
    /\ depth < MaxDepth
    /\ LET e == Encap(cur, 12, Addr(link), Addr(peer)).v IN
       cur' = [e EXCEPT !.opts = (IF withIid THEN <<Iid(depth + 1)>> ELSE <<>>) \o @ \o (IF withRid THEN <<Rid(depth + 1)>> ELSE <<>>)]
    /\ depth' = depth + 1 /\ orig' = orig
Next == \E l \in {1, 2}, p \in {3}, i \in BOOLEAN, r \in BOOLEAN : Wrap(l, p, i, r)
Spec == Init /\ [][Next]_vars

ReplyMsg == [mt |-> 7, xid |-> <<1, 2, 3>>, opts |-> <<Cid>>]
\* encapsulating and decapsulating returns the original; the innermost message is found at any depth,
\* also after a trip over the wire
Identity == /\ Inner(cur) = Ok(orig)
            /\ Depth(cur) = depth
            /\ (depth > 0 => cur.hops = depth - 1)
            /\ (depth > 0 => DecapIndex(cur, depth - 1) = Ok(orig))
            /\ LET w == Dec6(Enc6(cur)) IN w.st = "yes" /\ Inner(w.v) = Ok(orig)
\* the relay-reply has the same depth, the same link and peer address and echoed options at every level,
\* and carries the reply innermost
ReplyMirrors == depth > 0 =>
    LET r == RelayRepl(cur, ReplyMsg) IN
    /\ r.ok /\ Depth(r.v) = depth /\ Inner(r.v) = Ok(ReplyMsg)
    /\ LET a == Levels(cur).v b == Levels(r.v).v IN
       \A k \in 1..depth : a[k].link = b[k].link /\ a[k].peer = b[k].peer /\ a[k].iid = b[k].iid /\ a[k].rid = b[k].rid
\* builders keep the transaction id and echo identifiers; wrong types / missing options are rejected
Builders ==
    /\ LET a == Advertise(orig) IN a.ok <=> (orig.mt = 1 /\ HasOpt(orig.opts, 1))
    /\ LET a == Advertise(orig) IN a.ok => a.v.xid = orig.xid /\ a.v.opts = <<Cid>>
    /\ LET q == Request(orig, <<9, 9, 9>>) IN q.ok <=> (orig.mt = 2 /\ HasOpt(orig.opts, 1) /\ HasOpt(orig.opts, 2) /\ HasOpt(orig.opts, 3))
    /\ LET q == Request(orig, <<9, 9, 9>>) IN q.ok =>
           /\ FirstOpt(q.v.opts, 1) = <<Cid>> /\ FirstOpt(q.v.opts, 2) = <<Sid>> /\ FirstOpt(q.v.opts, 3) = <<Iana>>
           /\ HasOpt(q.v.opts, 25) = HasOpt(orig.opts, 25) /\ HasOpt(q.v.opts, 16) = HasOpt(orig.opts, 16)
    /\ LET p == Reply(orig) IN p.ok => p.v.xid = orig.xid /\ FirstOpt(p.v.opts, 1) = <<Cid>> /\ p.v.mt = 7
=============================================================================
