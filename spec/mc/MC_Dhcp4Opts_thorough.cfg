SPECIFICATION Spec
CONSTANTS
  ChunkMax = 255
  MinLen = 300
  ChaddrLen = 16
  SnameLen = 64
  FileLen = 128
  Alphabet = {0, 1, 2, 4, 33, 255}
  MaxLen = 6
INVARIANTS Total FixedSizes NoPartial SetGet
CHECK_DEADLOCK FALSE
