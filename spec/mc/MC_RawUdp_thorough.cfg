SPECIFICATION Spec
CONSTANTS
  Alphabet = {0, 255, 1}
  MaxLen = 1
  MaxFrames = 2
  Ips <- IpsT
INVARIANTS WriterOK ReaderOK
CHECK_DEADLOCK FALSE
