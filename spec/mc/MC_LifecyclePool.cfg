SPECIFICATION Spec
CONSTANTS
  Fields = {"names", "addr", "id"}
  AliasedFields = {}
  MutatingReads = {}
  PooledEncode = TRUE
  Contents = {"a", "b", "c"}
PROPERTIES ScribbleInvisible EncodeFresh ReadOnly
CHECK_DEADLOCK FALSE
