SPECIFICATION Spec
CONSTANTS
  Proto = 4
  Tries = 2
  MaxReplies = 2
  Rapid = FALSE
  Inform = TRUE
  EmitCases = FALSE
VIEW View
INVARIANTS LeaseRule NakRule RequestRule InformRule Emit
PROPERTIES IgnoreRule
CHECK_DEADLOCK FALSE
