------------------------------ MODULE MC_Label ------------------------------
(* The RFC 1035 name-list decoder explored as a state machine for EVERY byte  *)
(* string over a structural alphabet up to a fixed length (termination,       *)
(* totality, bounded work), and the encode/decode round trip for all small     *)
(* name lists.                                                                 *)
EXTENDS Label, TLC
CONSTANTS Alphabet, MaxLen, Letters, MaxNames, MaxLabels

VARIABLES buf, s, mode, ns
vars == <<buf, s, mode, ns>>

SmallLabels == {<<a>> : a \in Letters} \cup {<<a, c>> : a \in Letters, c \in Letters}
RECURSIVE JoinDots(_)
JoinDots(ls) == IF Len(ls) = 1 THEN ls[1] ELSE ls[1] \o <<Dot>> \o JoinDots(Tail(ls))
SmallNames == UNION {{JoinDots(ls) : ls \in [1..k -> SmallLabels]} : k \in 1..MaxLabels}
NameLists == UNION {[1..k -> SmallNames] : k \in 0..MaxNames}

Init == \/ /\ mode = "decode" /\ buf \in StringsUpTo(Alphabet, MaxLen) /\ s = LInit(buf) /\ ns = <<>>
        \/ /\ mode = "roundtrip" /\ ns \in NameLists /\ buf = LabelEncode(ns) /\ s = LInit(buf)
Next == s.st = "run" /\ s' = LStep(buf, s) /\ UNCHANGED <<buf, mode, ns>>
Spec == Init /\ [][Next]_vars

\* every step makes progress: the decoder terminates within 2n+2 steps and copies at most
\* n bytes per pointer followed
Terminates == s.steps <= 2 * Len(buf) + 2
Total == s.st \in {"run", "ok", "err"}
StepAgreesWithRun == s.st # "run" => LabelDecode(buf) = s
\* C19: encoding a list of valid names and decoding it returns the list, unambiguously
RoundTrip == (mode = "roundtrip" /\ s.st # "run") => s.st = "ok" /\ ~s.grey /\ s.names = ns
=============================================================================
