------------------------------ MODULE MC_Netboot ------------------------------
(* Enumerates every conversation of 0..MaxLen messages (spec -> implementation:  *)
(* each one is printed as a CASE line and replayed into netboot.ConversationTo-  *)
(* Netconf / ConversationToNetconfv4).                                           *)
EXTENDS Netboot, Json
CONSTANTS MaxLen
VARIABLES conv, proto
vars == <<conv, proto>>
Init == conv = <<>> /\ proto \in {4, 6}
Next == /\ Len(conv) < MaxLen
        /\ \E k \in (IF proto = 6 THEN Kinds6 ELSE Kinds4) : conv' = Append(conv, k)
        /\ proto' = proto
Spec == Init /\ [][Next]_vars
Emit == PrintT("CASE " \o ToJson([proto |-> proto, conv |-> conv]))
Total == (IF proto = 6 THEN Netconf6(conv) ELSE Netconf4(conv)) \in {"ok", "err"}
=============================================================================
