SPECIFICATION Spec
CONSTANTS
  MaxLen = 4
INVARIANTS Emit Total
CHECK_DEADLOCK FALSE
