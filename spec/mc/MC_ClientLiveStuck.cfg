\* deliberately wrong design: the receive loop goes on after a read error it does not recognise as "closing".
\* TLC must find that Close then never returns (liveness under weak fairness).
SPECIFICATION Fair
CONSTANTS
  Callers = {1}
  Xids = {7}
  None = "none"
  T = 1
  Tries = 2
  BufCap = 1
  V4 = TRUE
  XidOf <- XidAll7
  Urgent = TRUE
  Timed = TRUE
  CancelChecksIdentity = TRUE
  TimerPerIteration = FALSE
  MaxDgrams = 1
  DgramAttrs <- AttrsGR
  MaxNow = 4
  AllowClose = TRUE
  AllowCtx = TRUE
  MaxCalls = 1
  WFault = FALSE
  TimeoutCarriesOver = FALSE
  WriteErrKeepsEntry = FALSE
  AllowFire = FALSE
  FireRegisters = FALSE
  RFault = TRUE
  ReadErrEndsCalls = FALSE
  LoopSurvivesClose = TRUE
  MaxTry = 2
PROPERTIES CloseReturns
CHECK_DEADLOCK FALSE
