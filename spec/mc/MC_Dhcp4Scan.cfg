SPECIFICATION Spec
CONSTANTS
  ChunkMax = 255
  MinLen = 300
  ChaddrLen = 16
  SnameLen = 64
  FileLen = 128
  Alphabet = {0, 1, 2, 3, 82, 255}
  MaxLen = 5
INVARIANTS Agrees Terminates GroupLemma
PROPERTIES Deterministic
CHECK_DEADLOCK FALSE
