\* behaviour generation (tlc -simulate): long scripts, complete behaviours printed as CASE lines
SPECIFICATION MCSpec
CONSTANTS
  V4 = TRUE
  StopOnParseError = FALSE
  ReuseReadBuffer = FALSE
  MaxReads = 12
  Ports = {68, 1068}
  EmitCases = TRUE
INVARIANTS Emit
CHECK_DEADLOCK FALSE
