\* C11/C12 with call histories: one caller calls twice; T = 1, 2 tries; virtual time, urgent internal steps; write faults
SPECIFICATION Spec
CONSTANTS
  Callers = {1}
  Xids = {7}
  None = "none"
  T = 1
  Tries = 2
  BufCap = 1
  V4 = TRUE
  XidOf <- XidAll7
  Urgent = TRUE
  Timed = TRUE
  CancelChecksIdentity = TRUE
  TimerPerIteration = FALSE
  MaxDgrams = 1
  DgramAttrs <- AttrsGR
  MaxNow = 6
  AllowClose = TRUE
  AllowCtx = TRUE
  MaxCalls = 2
  WFault = TRUE
  TimeoutCarriesOver = FALSE
  WriteErrKeepsEntry = FALSE
  AllowFire = FALSE
  FireRegisters = FALSE
  RFault = TRUE
  ReadErrEndsCalls = FALSE
  LoopSurvivesClose = FALSE
  MaxTry = 2
INVARIANTS TypeOK OwnTransaction FirstAcceptable ChanClosedOnlyAfterOwnDone NoNilDelivery PendingEntriesLive Capacity IdReusable CloseStopsLoop Deadline CtxPrompt ClosePrompt Schedule NoRespAtBudget DoneOnlyByClose
PROPERTIES NoTxAfterAccept
CHECK_DEADLOCK FALSE
