\* exhaustive: all arrival sequences of up to 3 datagrams over kind x sender, Close at any point,
\* handlers finishing in any order (history hidden by the VIEW)
SPECIFICATION MCSpec
CONSTANTS
  V4 = TRUE
  Loops = {1}
  ServerWideBuffer = FALSE
  StopOnParseError = FALSE
  ReuseReadBuffer = TRUE
  MaxReads = 3
  Ports = {68}
  EmitCases = FALSE
VIEW View
INVARIANTS ExactlyOnce PeerRule OwnMessage ReturnOnlyOnError Emit
PROPERTIES LoopSurvives
CHECK_DEADLOCK FALSE
