SPECIFICATION Spec
CONSTANTS
  Proto = 4
  Tries = 2
  MaxReplies = 2
  Rapid = FALSE
  Inform = TRUE
  EmitCases = TRUE
INVARIANTS Emit
CHECK_DEADLOCK FALSE
