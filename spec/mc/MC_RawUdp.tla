----------------------------- MODULE MC_RawUdp -----------------------------
(* Small-scope exploration of RawUdp.tla: a writer emits frames for payloads  *)
(* over an alphabet that stresses checksum carries; the link layer may append *)
(* padding or mangle one header field; a reader bound to an address consumes  *)
(* the frames.  Properties: C18.                                              *)
EXTENDS RawUdp, TLC

CONSTANTS Alphabet, MaxLen, MaxFrames

Ips == {<<10, 0, 0, 1>>, <<255, 255, 255, 255>>, <<0, 0, 0, 0>>}
IpsT == {<<10, 0, 0, 1>>, <<0, 0, 0, 0>>}                 \* the two-frame configuration substitutes this for Ips
Ports == {67, 68, 65535}
Ends == {[ip |-> i, port |-> p] : i \in Ips, p \in Ports}
Bound == [ip |-> <<>>, port |-> 68]

VARIABLES wire,     \* frames on the wire: sequence of [f, good, payload, src]
          got       \* what the reader has returned so far
vars == <<wire, got>>
Init == wire = <<>> /\ got = <<>>

Mangles == {"none", "pad", "proto", "version", "ihl6", "short", "cut", "port", "tlbig"}
Mangle(f, m) ==
    CASE m = "none" -> f
      [] m = "pad" -> f \o <<0, 0, 0>>                                   \* link-layer padding
      [] m = "proto" -> [f EXCEPT ![10] = 6]
      [] m = "version" -> [f EXCEPT ![1] = 101]
      [] m = "ihl6" -> [f EXCEPT ![1] = 70]                               \* header claims 24 bytes
      [] m = "short" -> [f EXCEPT ![4] = 27]                              \* total length leaves 7 bytes
      [] m = "cut" -> SubSeq(f, 1, 23)                                    \* truncated frame
      [] m = "port" -> [f EXCEPT ![24] = 69]
      [] m = "tlbig" -> [f EXCEPT ![3] = 255]
Send(p, s, d, m) ==
    /\ Len(wire) < MaxFrames /\ got = <<>>                             \* frames are sent, then the reader runs once
    /\ LET f == FrameWith(p, s, d, IF UdpSum(p, s, d) = 0 THEN 65535 ELSE UdpSum(p, s, d)) IN
       wire' = Append(wire, [f |-> Mangle(f, m), m |-> m, payload |-> p, src |-> s, dst |-> d])
    /\ got' = got
ReadAll == /\ wire # <<>> /\ got = <<>>
           /\ got' = ReadFrames([i \in 1..Len(wire) |-> wire[i].f], Bound, 1500)
           /\ wire' = wire
Next == \/ \E p \in StringsUpTo(Alphabet, MaxLen), s \in Ends, d \in Ends, m \in Mangles : Send(p, s, d, m)
        \/ ReadAll
Spec == Init /\ [][Next]_vars

\* every unmangled frame is a well-formed IPv4/UDP frame whose checksums verify
WriterOK == \A i \in DOMAIN wire : wire[i].m = "none" =>
    LET f == wire[i].f IN
    /\ f[1] = 69 /\ (BE16(f, 3) = Len(f)) /\ f[10] = 17
    /\ (BE16(f, 25) = (Len(f) - 20))
    /\ HeaderVerifies(f) /\ UdpVerifies(f)
    /\ SubSeq(f, 29, Len(f)) = wire[i].payload
    /\ IsFrameFor(f, wire[i].payload, wire[i].src, wire[i].dst)
\* the reader returns exactly the payloads of the frames addressed to the bound port, in order;
\* padding never leaks into a payload, mangled frames are skipped
Expected(i) == (wire[i].m \in {"none", "pad"}) /\ (wire[i].dst.port = 68)
ReaderOK == got # <<>> =>
    LET idx == {i \in DOMAIN wire : Expected(i)}
        ord == SetToSortSeq(idx, <)
    IN /\ Len(got) = Len(ord)
       /\ \A k \in 1..Len(ord) : got[k].payload = wire[ord[k]].payload /\ got[k].src = wire[ord[k]].src
=============================================================================
