SPECIFICATION Spec
CONSTANTS
  N = 40
  MinHeader = 4
INVARIANTS WorkBound DepthBound Quadratic
CHECK_DEADLOCK FALSE
