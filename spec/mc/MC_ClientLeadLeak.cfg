\* deliberately wrong design: a failed write returns without cancelling the registration.
\* TLC must find that the transaction id is not reusable afterwards.
SPECIFICATION Spec
CONSTANTS
  Callers = {1}
  Xids = {7}
  None = "none"
  T = 1
  Tries = 1
  BufCap = 1
  V4 = TRUE
  XidOf <- XidAll7
  Urgent = FALSE
  Timed = FALSE
  CancelChecksIdentity = TRUE
  TimerPerIteration = FALSE
  MaxDgrams = 0
  DgramAttrs <- AttrsGR
  MaxNow = 0
  AllowClose = FALSE
  AllowCtx = FALSE
  MaxCalls = 2
  WFault = TRUE
  TimeoutCarriesOver = FALSE
  WriteErrKeepsEntry = TRUE
  AllowFire = FALSE
  FireRegisters = FALSE
  RFault = FALSE
  ReadErrEndsCalls = FALSE
  LoopSurvivesClose = FALSE
  MaxTry = 1
INVARIANTS IdReusable
CHECK_DEADLOCK FALSE
