---------------------------- MODULE MC_Dhcp4Build ----------------------------
(* C15 at the specification level: for small input packets and modifier lists  *)
(* of length <= 2, the correlation properties of replies and requests hold and *)
(* caller-supplied modifiers prevail.                                          *)
EXTENDS Dhcp4Build, TLC
CONSTANTS MaxMods
VARIABLES in, mods, out, builder
vars == <<in, mods, out, builder>>
IPs == {<<0, 0, 0, 0>>, <<10, 0, 0, 1>>}
Inputs == {[Base(<<x, x, x, x>>) EXCEPT !.op = o, !.flags = f, !.gi = g, !.yi = y, !.ci = y, !.ch = <<1, 2, 3, 4, 5, 6>>,
                                        !.opts = os] :
             x \in {0, 255}, o \in {1, 2}, f \in {0, 32768, 1}, g \in IPs, y \in IPs,
             os \in {<<>>, <<[c |-> 54, v |-> <<9, 9, 9, 9>>]>>, <<[c |-> 61, v |-> <<1, 2>>], [c |-> 82, v |-> <<1, 1, 7>>]>>,
                     <<[c |-> 55, v |-> <<3, 99>>], [c |-> 82, v |-> <<>>]>>}}
\* (a tuple, not a set: the descriptors are records of different shapes)
ModPool == <<M("xid", <<7, 7, 7, 7>>), M("ci", <<1, 1, 1, 1>>), M("bcast", TRUE), M("bcast", FALSE), MsgType(5),
             MOpt(82, <<2, 1, 9>>), [k |-> "del", c |-> 55], [k |-> "del", c |-> 53], M("reqopts", <<6, 42>>),
             M("relay", <<10, 9, 9, 9>>), M("gi", <<8, 8, 8, 8>>), M("hw", <<6, 5, 4, 3, 2, 1>>)>>
Builders == {"RequestFromOffer", "RenewFromAck", "ReplyFromRequest", "ReleaseFromACK"}
Init == /\ in \in Inputs /\ builder \in Builders /\ mods = <<>> /\ out = Build(builder, in, <<>>, <<5, 5, 5, 5>>)
AddMod(m) == /\ Len(mods) < MaxMods /\ mods' = Append(mods, m)
             /\ out' = Build(builder, in, mods', <<5, 5, 5, 5>>) /\ UNCHANGED <<in, builder>>
Next == \E i \in 1..Len(ModPool) : AddMod(ModPool[i])
Spec == Init /\ [][Next]_vars

NoMods == mods = <<>>
\* a reply has the opposite opcode and the same xid, hardware type and address, flags and relay address;
\* options 82 and 61 are echoed byte for byte when present with a non-empty value and omitted otherwise
ReplyCorrelates == (builder = "ReplyFromRequest" /\ NoMods) =>
    /\ out.op = 3 - in.op /\ out.xid = in.xid /\ out.htype = in.htype /\ out.ch = in.ch /\ out.flags = in.flags /\ out.gi = in.gi
    /\ \A c \in {82, 61} : IF OptVal(in, c) # <<>> THEN OptVal(out, c) = OptVal(in, c) ELSE ~HasOpt(out, c)
\* a request built from an offer asks for exactly the offered address from the offering server under the offer's xid
RequestCorrelates == (builder = "RequestFromOffer" /\ NoMods) =>
    /\ out.xid = in.xid /\ OptVal(out, 50) = in.yi /\ OptVal(out, 53) = <<3>>
    /\ (OptVal(in, 54) # <<>> => OptVal(out, 54) = OptVal(in, 54))
    /\ OptVal(out, 55) = <<1, 3, 15, 6>>
\* renew: leased address in ciaddr, unicast, no requested-address / server-identifier options
RenewRules == (builder = "RenewFromAck" /\ NoMods) =>
    /\ out.ci = in.yi /\ out.flags < 32768 /\ ~HasOpt(out, 50) /\ ~HasOpt(out, 54) /\ OptVal(out, 53) = <<3>>
ReleaseRules == (builder = "ReleaseFromACK" /\ NoMods) =>
    /\ out.ci = in.yi /\ out.ch = in.ch /\ out.flags < 32768 /\ OptVal(out, 53) = <<7>> /\ out.op = 1
\* the last caller modifier prevails over every default
LastModifierPrevails == mods # <<>> =>
    LET m == mods[Len(mods)] IN
    CASE m.k = "xid" -> out.xid = m.v
      [] m.k = "ci" -> out.ci = m.v
      [] m.k = "gi" -> out.gi = m.v
      [] m.k = "hw" -> out.ch = m.v
      [] m.k = "bcast" -> (out.flags >= 32768) = m.v
      [] m.k = "opt" -> OptVal(out, m.c) = m.v
      [] m.k = "del" -> ~HasOpt(out, m.c)
      [] m.k = "relay" -> out.gi = m.v /\ out.flags < 32768
      [] OTHER -> TRUE
=============================================================================
