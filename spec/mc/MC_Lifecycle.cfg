SPECIFICATION Spec
CONSTANTS
  Fields = {"names", "addr", "id"}
  AliasedFields = {}
  MutatingReads = {}
  PooledEncode = FALSE
  Contents = {"a", "b", "c"}
PROPERTIES ScribbleInvisible EncodeFresh ReadOnly
CHECK_DEADLOCK FALSE
