\* random behaviours of the intended design (tlc -simulate), replayed into the real clients
SPECIFICATION HSpec
CONSTANTS
  Callers = {1, 2, 3}
  Xids = {7, 8}
  None = "none"
  T = 1
  Tries = 2
  BufCap = 1
  V4 = TRUE
  XidOf <- Xid778
  Urgent = FALSE
  Timed = FALSE
  CancelChecksIdentity = TRUE
  TimerPerIteration = FALSE
  MaxDgrams = 6
  DgramAttrs <- Attrs78
  MaxNow = 0
  AllowClose = TRUE
  AllowCtx = TRUE
  MaxCalls = 2
  WFault = TRUE
  TimeoutCarriesOver = FALSE
  WriteErrKeepsEntry = FALSE
  AllowFire = TRUE
  FireRegisters = FALSE
  RFault = TRUE
  ReadErrEndsCalls = FALSE
  LoopSurvivesClose = FALSE
  MaxTry = 2
INVARIANTS EmitWhenQuiet
CHECK_DEADLOCK FALSE
