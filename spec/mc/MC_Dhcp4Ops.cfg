SPECIFICATION Spec
CONSTANTS
  ChunkMax = 255
  MinLen = 300
  ChaddrLen = 16
  SnameLen = 64
  FileLen = 128
  Codes = {1, 53, 82, 200}
  Lens = {0, 3}
  MaxOps = 3
  OnceOnly = FALSE
  AllowDelete = TRUE
INVARIANTS Emit ContentsAreLastWrites
CHECK_DEADLOCK FALSE
