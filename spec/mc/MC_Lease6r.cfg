SPECIFICATION Spec
CONSTANTS
  Proto = 6
  Tries = 2
  MaxReplies = 2
  Rapid = TRUE
  Inform = FALSE
  EmitCases = FALSE
VIEW View
INVARIANTS LeaseRule NakRule RequestRule InformRule Emit
PROPERTIES IgnoreRule
CHECK_DEADLOCK FALSE
