SPECIFICATION Spec
CONSTANTS
  ChunkMax = 255
  MinLen = 300
  ChaddrLen = 16
  SnameLen = 64
  FileLen = 128
  Codes = {1, 12, 53, 82, 200, 254}
  Lens = {2}
  MaxOps = 6
  OnceOnly = TRUE
  AllowDelete = FALSE
INVARIANTS Emit ContentsAreLastWrites
CHECK_DEADLOCK FALSE
