SPECIFICATION Spec
CONSTANTS
  ChunkMax = 255
  MinLen = 300
  ChaddrLen = 16
  SnameLen = 64
  FileLen = 128
  Alphabet = {0, 1, 2, 3, 8, 255}
  MaxLen = 5
  MaxAdds = 2
  MaxDepth = 2
INVARIANTS ScanAgrees ScanTerminates RoundTrip Reencode
CHECK_DEADLOCK FALSE
