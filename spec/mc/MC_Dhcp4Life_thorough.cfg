SPECIFICATION Spec
CONSTANTS
  ChunkMax = 3
  MinLen = 30
  ChaddrLen = 2
  SnameLen = 3
  FileLen = 3
  Codes = {1, 82, 254}
  MaxValLen = 7
  MaxOps = 3
  OpSet = {1, 2}
  FillSet = {0, 255}
  SecSet = {0, 65535}
VIEW View
INVARIANTS RoundTrip CanonicalWire SplitLemma MinLength
PROPERTIES WireIsFunctionOfContents
CHECK_DEADLOCK FALSE
