------------------------------- MODULE MC_Lease -------------------------------
EXTENDS Lease, Json
CONSTANTS EmitCases
View == <<phase, try, txs, inbox, offer, final, result, oi, fi>>
Emit == (EmitCases /\ phase = "done") =>
    PrintT("CASE " \o ToJson([proto |-> Proto, rapid |-> Rapid, inform |-> Inform, tries |-> Tries, script |-> hist, txs |-> txs, result |-> result,
                              offer |-> offer, final |-> final, oi |-> oi, fi |-> fi]))
=============================================================================
