SPECIFICATION Spec
CONSTANTS
  ChunkMax = 255
  MinLen = 300
  ChaddrLen = 16
  SnameLen = 64
  FileLen = 128
  MaxDepth = 4
  InnerTypes = {1, 2, 3, 4, 5, 6, 7, 8, 9, 10, 11}
INVARIANTS Identity ReplyMirrors Builders
CHECK_DEADLOCK FALSE
