---------------------------- MODULE MC_ClientSim ----------------------------
(* Behaviour generator for Client.tla (spec -> implementation).  Same actions *)
(* as MC_Client plus a history variable holding the action labels, printed as *)
(* JSON when a behaviour is complete.  Used (a) with -simulate to obtain      *)
(* random behaviours and (b) with the deliberately wrong design switches to   *)
(* obtain the counterexample schedules that are replayed into the real client.*)
EXTENDS MC_Client, Json

VARIABLE hist
hvars == <<vars, hist>>

H(A, lbl) == A /\ hist' = Append(hist, lbl)

HInit == Init /\ hist = <<>>
HNext ==
    \/ \E c \in Callers :
         \/ H(Start(c), <<"Start", c>>) \/ H(Again(c), <<"Again", c>>)
         \/ (AllowFire /\ (H(Fire(c), <<"Fire", c>>) \/ H(FireFail(c), <<"FireFail", c>>)))
         \/ H(SendLock(c), <<"SendLock", c>>) \/ H(Transmit(c), <<"Transmit", c>>) \/ H(TransmitFail(c), <<"TransmitFail", c>>)
         \/ H(WakeRecv(c), <<"WakeRecv", c>>) \/ H(WakeTimeout(c), <<"WakeTimeout", c>>) \/ H(WakeCtx(c), <<"WakeCtx", c>>)
         \/ H(WakeClosed(c), <<"WakeClosed", c>>) \/ H(Proceed(c), <<"Proceed", c>>)
         \/ H(CancelDone(c), <<"CancelDone", c>>) \/ H(CancelLock(c), <<"CancelLock", c>>)
         \/ AllowCtx /\ H(CtxCancel(c), <<"CtxCancel", c>>)
    \/ H(LoopRead, <<"LoopRead">>) \/ H(LoopExit, <<"LoopExit">>) \/ H(LoopReadErr, <<"LoopReadErr">>) \/ H(LoopLock, <<"LoopLock">>)
    \/ H(LoopSelDone, <<"LoopSelDone">>) \/ H(LoopSelSend, <<"LoopSelSend">>)
    \/ AllowClose /\ H(CloseStart, <<"CloseStart">>)
    \/ H(CloseDone, <<"CloseDone">>) \/ H(CloseReturn, <<"CloseReturn">>)
    \/ \E a \in DgramAttrs : Len(dgs) < MaxDgrams /\ H(Inject(a), <<"Inject", a.xid, a.kind>>)
    \/ now < MaxNow /\ H(Tick, <<"Tick">>)
HSpec == HInit /\ [][HNext]_hvars

Quiet == /\ \A c \in Callers : cs[c].pc = "returned"
         /\ lp.pc \in {"read", "exited"}
SchedJson == ToJson([cfg |-> [T |-> T, tries |-> Tries, bufcap |-> BufCap, xid |-> [i \in 1..Cardinality(Callers) |-> XidOf[i]],
                              urgent |-> Urgent, timed |-> Timed, wfault |-> WFault, rfault |-> RFault],
                     steps |-> hist])
\* printed once per complete behaviour (all calls returned)
EmitWhenQuiet == Quiet => PrintT("CASE " \o SchedJson)
=============================================================================
