---------------------------- MODULE MC_Dhcp4Life ----------------------------
(* Lifecycle machine of one DHCPv4 packet value: construction by option      *)
(* updates/deletions in any order, encoding, decoding of the encoding.       *)
(* Checked exhaustively with scaled size constants so that every boundary    *)
(* (k*ChunkMax-1, k*ChunkMax, k*ChunkMax+1, name capacity, chaddr capacity)  *)
(* lies inside the scope.  Properties: C01 (round trip), C07 (canonical,     *)
(* deterministic, order independent).                                        *)
EXTENDS Dhcp4Wire, TLC

CONSTANTS Codes, MaxValLen, MaxOps, OpSet, FillSet, SecSet

VARIABLES val,    \* abstract packet
          wire,   \* last encoding (<<>> before the first Encode)
          nops,   \* number of construction steps so far
          hist    \* construction history (hidden by VIEW)

vars == <<val, wire, nops, hist>>

Quad(x) == <<x, x, x, x>>
Seq123(n) == [i \in 1..n |-> (i % 250) + 1]      \* distinguishable, NUL-free content

Headers ==
    { [op |-> o, htype |-> h, hops |-> h, xid |-> Quad(x), secs |-> s, flags |-> s,
       ci |-> Quad(x), yi |-> Quad(255 - x), si |-> Quad(x), gi |-> Quad(255 - x),
       ch |-> Seq123(cl), sn |-> Seq123(sl), fn |-> Seq123(fl)] :
         o \in OpSet, h \in FillSet, x \in FillSet, s \in SecSet,
         cl \in 0..ChaddrLen, sl \in {0, SnameLen - 1}, fl \in {0, FileLen - 1} }

Init == /\ val \in {h @@ [opts |-> <<>>] : h \in Headers}
        /\ wire = <<>> /\ nops = 0 /\ hist = <<>>

Without(opts, c) == SelectSeq(opts, LAMBDA o : o.c # c)
ValueFor(c, n) == [i \in 1..n |-> ((c + i) % 255) + 1]

Update(c, n) == /\ nops < MaxOps
                /\ val' = [val EXCEPT !.opts = SortOpts(Append(Without(@, c), [c |-> c, v |-> ValueFor(c, n)]))]
                /\ nops' = nops + 1 /\ hist' = Append(hist, <<"Update", c, n>>)
                /\ UNCHANGED wire
Delete(c) == /\ nops < MaxOps
             /\ val' = [val EXCEPT !.opts = Without(@, c)]
             /\ nops' = nops + 1 /\ hist' = Append(hist, <<"Delete", c>>)
             /\ UNCHANGED wire
Encode == /\ wire' = Enc4(val)
          /\ UNCHANGED <<val, nops, hist>>

Next == \/ \E c \in Codes, n \in 0..MaxValLen : Update(c, n)
        \/ \E c \in Codes : Delete(c)
        \/ Encode

Spec == Init /\ [][Next]_vars
View == <<val, wire>>

\* ---- properties
\* C01: decoding the encoding recovers exactly the packet
RoundTrip == Dec4(Enc4(val)) = [ok |-> TRUE, val |-> Canon(val)]
\* C07: the encoding is in canonical wire form (validator independent of Enc4) ...
CanonicalWire == Canonical(Enc4(val))
\* ... and is a function of the contents only: whatever history led to val, the last
\* encoding (if val did not change since) equals Enc4(val)
WireIsFunctionOfContents == [][Encode => wire' = Enc4(val')]_vars
\* RFC 3396 split lemma
SplitLemma == \A o \in Range(val.opts) :
                 LET ch == Split(o.v) IN
                 /\ Concat(ch) = o.v
                 /\ \A i \in 1..Len(ch) : Len(ch[i]) <= ChunkMax
                 /\ (Len(ch) > 1 => \A i \in 1..Len(ch) : Len(ch[i]) > 0)
MinLength == Len(Enc4(val)) >= MinLen
=============================================================================
