SPECIFICATION Spec
CONSTANTS
  Alphabet = {0, 1, 2, 3, 97, 192, 64}
  MaxLen = 6
  Letters = {97, 98}
  MaxNames = 3
  MaxLabels = 2
INVARIANTS Terminates Total StepAgreesWithRun RoundTrip
CHECK_DEADLOCK FALSE
