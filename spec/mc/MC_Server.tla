------------------------------ MODULE MC_Server ------------------------------
EXTENDS Server, Json
CONSTANTS MaxReads, Ports, EmitCases
VARIABLE hist
hvars == <<vars, hist>>
H(A, lbl) == A /\ hist' = Append(hist, lbl)
MCNext == \/ \E k \in Kinds, s \in Senders, p \in Ports : narr < MaxReads /\ H(Arrive(k, s, p), <<"Arrive", k, s, p>>)
          \/ \E l \in Loops : \/ H(CallRead(l), <<"CallRead", l>>) \/ H(Read(l), <<"Read", l>>) \/ H(ReadClosed(l), <<"ReadClosed", l>>) \/ H(ReadErrReturn(l), <<"ReadErrReturn", l>>)
                             \/ H(ParseFail(l), <<"ParseFail", l>>) \/ H(Spawn(l), <<"Spawn", l>>)
          \/ \E h \in 1..MaxReads : H(HandlerFinish(h), <<"Finish", h>>)
          \/ H(CloseCall, <<"Close">>)
MCInit == Init /\ hist = <<>>
MCSpec == MCInit /\ [][MCNext]_hvars
\* complete behaviours are printed for replay into the real servers
Done == (\A l \in Loops : pc[l] = "returned") /\ \A h \in DOMAIN spawned : spawned[h].done
Emit == (EmitCases /\ Done) => PrintT("CASE " \o ToJson([v4 |-> V4, loops |-> Cardinality(Loops), steps |-> hist]))
View == vars
=============================================================================
