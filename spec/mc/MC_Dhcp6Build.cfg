SPECIFICATION Spec
CONSTANTS
  ChunkMax = 255
  MinLen = 300
  ChaddrLen = 16
  SnameLen = 64
  FileLen = 128
  MaxDepth = 3
  InnerTypes = {1, 2, 3, 7, 11}
INVARIANTS Identity ReplyMirrors Builders
CHECK_DEADLOCK FALSE
