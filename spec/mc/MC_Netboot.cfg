SPECIFICATION Spec
CONSTANTS
  MaxLen = 3
INVARIANTS Emit Total
CHECK_DEADLOCK FALSE
