---------------------------- MODULE MC_Dhcp4Opts ----------------------------
(* Every typed accessor applied to EVERY raw value over a small alphabet up   *)
(* to a fixed length: totality, "ok exactly at the right lengths", set/get.   *)
EXTENDS Dhcp4Opts, TLC
CONSTANTS Alphabet, MaxLen
Kinds == {"ip", "ips", "string", "nulstring", "u32", "u16", "u8", "codes", "mask", "routes", "archs", "userclass", "vivc", "subopts"}
VARIABLES kind, raw, res, done
vars == <<kind, raw, res, done>>
Init == kind \in Kinds /\ raw \in StringsUpTo(Alphabet, MaxLen) /\ res = Bad /\ done = FALSE
Next == ~done /\ done' = TRUE /\ res' = Access(kind, raw) /\ UNCHANGED <<kind, raw>>
Spec == Init /\ [][Next]_vars

Total == res.ok \in BOOLEAN
FixedSizes == done =>
    /\ (kind \in {"ip", "u32", "mask"} => (res.ok <=> Len(raw) = 4))
    /\ (kind = "u16" => (res.ok <=> Len(raw) = 2))
    /\ (kind = "u8" => (res.ok <=> Len(raw) = 1))
    /\ (kind = "ips" => (res.ok <=> (Len(raw) >= 4 /\ Len(raw) % 4 = 0)))
    /\ (kind = "archs" => (res.ok <=> (Len(raw) >= 2 /\ Len(raw) % 2 = 0)))
\* never a partial value: a malformed value yields the default, nothing derived from a prefix
NoPartial == (done /\ ~res.ok) => res.v = Default(kind, raw)
\* set/get: re-encoding a well-formed interpretation gives the raw value back
SetGet == (done /\ res.ok) =>
    /\ (kind = "routes" => \A i \in 1..Len(res.v) : res.v[i].w <= 32)
    /\ (kind = "userclass" => EncUClasses(res.v) = raw)
    /\ (kind = "vivc" => EncVivc(res.v) = raw)
    /\ (kind \in {"ips"} => Concat(res.v) = raw)
=============================================================================
