------------------------------ MODULE MC_Client ------------------------------
(* Exhaustive small-scope configurations of Client.tla (C10, C11, C12).       *)
EXTENDS Client

CONSTANTS T, Tries, BufCap, V4, XidOf, Urgent, Timed, CancelChecksIdentity, TimerPerIteration,
          MaxDgrams, DgramAttrs, MaxNow, AllowClose, AllowCtx, MaxTry,
          MaxCalls, WFault, TimeoutCarriesOver, WriteErrKeepsEntry, AllowFire, FireRegisters,
          RFault, ReadErrEndsCalls, LoopSurvivesClose

\* values for the constants that a .cfg file cannot express (substituted with <-)
XidAll7 == [c \in Callers |-> 7]
Xid78 == [c \in Callers |-> IF c = 1 THEN 7 ELSE 8]
Xid778 == [c \in Callers |-> IF c = 3 THEN 8 ELSE 7]
Attrs7 == {[xid |-> 7, kind |-> "good"], [xid |-> 7, kind |-> "rej"], [xid |-> 9, kind |-> "good"], [xid |-> 7, kind |-> "undec"]}
Attrs7f == Attrs7 \cup {[xid |-> 7, kind |-> "wrongop"], [xid |-> 7, kind |-> "wronghw"]}
Attrs78 == {[xid |-> 7, kind |-> "good"], [xid |-> 7, kind |-> "rej"], [xid |-> 8, kind |-> "good"], [xid |-> 8, kind |-> "rej"]}
AttrsGR == {[xid |-> 7, kind |-> "good"], [xid |-> 7, kind |-> "rej"]}
AttrsR == {[xid |-> 7, kind |-> "rej"]}

Cfg == [T |-> T, tries |-> Tries, bufcap |-> BufCap, v4 |-> V4, xid |-> XidOf, urgent |-> Urgent, timed |-> Timed,
        cancelChecksIdentity |-> CancelChecksIdentity, timerPerIteration |-> TimerPerIteration,
        maxCalls |-> MaxCalls, wfault |-> WFault, timeoutCarriesOver |-> TimeoutCarriesOver,
        writeErrKeepsEntry |-> WriteErrKeepsEntry, fireRegisters |-> FireRegisters,
        rfault |-> RFault, readErrEndsCalls |-> ReadErrEndsCalls, loopSurvivesClose |-> LoopSurvivesClose]

Init == InitWith(Cfg)
EnvInject(xid, kind) == Len(dgs) < MaxDgrams /\ Inject([xid |-> xid, kind |-> kind])
EnvCtx(c) == AllowCtx /\ CtxCancel(c)
EnvClose == AllowClose /\ CloseStart
EnvTick == now < MaxNow /\ Tick
Next == \/ \E c \in Callers : Start(c) \/ Again(c)
        \/ AllowFire /\ \E c \in Callers : Fire(c) \/ FireFail(c)
        \/ Internal
        \/ LoopReadErr
        \/ EnvClose
        \/ \E a \in DgramAttrs : EnvInject(a.xid, a.kind)
        \/ \E c \in Callers : EnvCtx(c)
        \/ EnvTick
Spec == Init /\ [][Next]_vars
\* liveness is checked over a bounded clock: a call is started only while its whole budget still fits (a run that has used
\* up its time may stop), and fairness is on the bounded tick
LiveNext == Next /\ \A c \in Callers : (cs[c].pc = "idle" /\ cs'[c].pc # "idle") => now + Budget <= MaxNow
Fair == Init /\ [][LiveNext]_vars /\ WF_vars(Internal) /\ WF_vars(EnvTick)

Bound == \A c \in Callers : cs[c].try <= MaxTry

\* liveness (checked only in the smallest configuration): every started call returns, Close returns
EventuallyReturns == \A c \in Callers : (cs[c].pc # "idle") ~> (cs[c].pc = "returned")
CloseReturns == (cl.closer # "idle") ~> (cl.closer = "returned")
=============================================================================
