\* deliberately wrong design: a failed read on the open connection releases the callers (closes done) as Close does.
\* TLC must find that calls are then released early by something that is not Close.
SPECIFICATION Spec
CONSTANTS
  Callers = {1}
  Xids = {7}
  None = "none"
  T = 1
  Tries = 1
  BufCap = 1
  V4 = TRUE
  XidOf <- XidAll7
  Urgent = FALSE
  Timed = FALSE
  CancelChecksIdentity = TRUE
  TimerPerIteration = FALSE
  MaxDgrams = 0
  DgramAttrs <- AttrsGR
  MaxNow = 0
  AllowClose = FALSE
  AllowCtx = FALSE
  MaxCalls = 1
  WFault = FALSE
  TimeoutCarriesOver = FALSE
  WriteErrKeepsEntry = FALSE
  AllowFire = FALSE
  FireRegisters = FALSE
  RFault = TRUE
  ReadErrEndsCalls = TRUE
  LoopSurvivesClose = FALSE
  MaxTry = 1
INVARIANTS DoneOnlyByClose
CHECK_DEADLOCK FALSE
