---------------------------- MODULE MC_Dhcp4Ops ----------------------------
(* Behaviour generator for C07 (spec -> implementation): every sequence of   *)
(* option updates / deletions in the scope, with the option contents the      *)
(* specification expects afterwards.  TLC prints one CASE line per history;   *)
(* `vh gen c07` applies each history to a real packet through the public API  *)
(* and records the resulting contents and encoding.                           *)
EXTENDS Dhcp4Wire, TLC, Json

CONSTANTS Codes, Lens, MaxOps, OnceOnly, AllowDelete

VARIABLES opts, hist
vars == <<opts, hist>>

Without(os, c) == SelectSeq(os, LAMBDA o : o.c # c)
ValueFor(c, n) == [i \in 1..n |-> ((c + i) % 255) + 1]
Touched == {hist[i][2] : i \in DOMAIN hist}

Init == opts = <<>> /\ hist = <<>>
Update(c, n) == /\ Len(hist) < MaxOps
                /\ (OnceOnly => c \notin Touched)
                /\ opts' = SortOpts(Append(Without(opts, c), [c |-> c, v |-> ValueFor(c, n)]))
                /\ hist' = Append(hist, <<"U", c, ValueFor(c, n)>>)
Delete(c) == /\ AllowDelete /\ Len(hist) < MaxOps
             /\ opts' = Without(opts, c)
             /\ hist' = Append(hist, <<"D", c>>)
Next == \/ \E c \in Codes, n \in Lens : Update(c, n)
        \/ \E c \in Codes : Delete(c)
Spec == Init /\ [][Next]_vars

\* every history (also the intermediate ones) is a case
Emit == PrintT("CASE " \o ToJson([ops |-> hist, opts |-> opts]))
\* order independence at the specification level: the contents are a function of the last
\* operation per code only
LastOp(c) == LET idx == {i \in DOMAIN hist : hist[i][2] = c} IN
             IF idx = {} THEN <<>> ELSE hist[CHOOSE i \in idx : \A j \in idx : j <= i]
ContentsAreLastWrites ==
    \A c \in Codes : LET lo == LastOp(c) IN
        IF lo = <<>> \/ lo[1] = "D" THEN \A k \in DOMAIN opts : opts[k].c # c
        ELSE \E k \in DOMAIN opts : opts[k] = [c |-> c, v |-> lo[3]]
=============================================================================
