------------------------------- MODULE Netboot -------------------------------
(* What the netboot extractors must return for a conversation (C03: for every  *)
(* conversation, a value or an error -- never a crash).  A conversation is a    *)
(* sequence of message kinds; the outcome is a total function of it.            *)
EXTENDS Integers, Sequences, FiniteSets, TLC

\* DHCPv6 kinds: [t |-> type, url |-> has a boot file URL, iana |-> has an IA_NA, relay |-> is a relay message]
K6(t, url, iana, relay) == [t |-> t, url |-> url, iana |-> iana, relay |-> relay]
Kinds6 == {K6("solicit", FALSE, TRUE, FALSE), K6("advertise", TRUE, TRUE, FALSE), K6("advertise", FALSE, TRUE, FALSE),
           K6("request", FALSE, TRUE, FALSE), K6("reply", TRUE, TRUE, FALSE), K6("reply", TRUE, FALSE, FALSE),
           K6("reply", FALSE, TRUE, FALSE), K6("reply", FALSE, FALSE, FALSE), K6("relay", FALSE, FALSE, TRUE)}
LastOf(conv, t) == IF \E i \in DOMAIN conv : conv[i].t = t
                   THEN <<conv[CHOOSE i \in DOMAIN conv : conv[i].t = t /\ \A j \in (i + 1)..Len(conv) : conv[j].t # t]>>
                   ELSE <<>>
Netconf6(conv) ==
    LET rep == LastOf(conv, "reply") adv == LastOf(conv, "advertise") IN
    IF rep = <<>> THEN "err"                                   \* no REPLY received
    ELSE IF ~rep[1].iana THEN "err"                            \* no address configuration
    ELSE IF rep[1].url THEN "ok"
    ELSE IF adv # <<>> /\ adv[1].url THEN "ok"                 \* fall back to the ADVERTISE's boot file
    ELSE "err"                                                 \* no boot file URL anywhere

\* DHCPv4 kinds: [t, reply |-> BOOTREPLY, yi, mask, router]
K4(t, reply, yi, mask, router) == [t |-> t, reply |-> reply, yi |-> yi, mask |-> mask, router |-> router]
Kinds4 == {K4("discover", FALSE, FALSE, FALSE, FALSE), K4("offer", TRUE, TRUE, TRUE, TRUE), K4("offer", TRUE, FALSE, TRUE, TRUE),
           K4("offer", TRUE, TRUE, FALSE, TRUE), K4("offer", TRUE, TRUE, TRUE, FALSE), K4("offer", FALSE, TRUE, TRUE, TRUE),
           K4("request", FALSE, FALSE, FALSE, FALSE), K4("ack", TRUE, TRUE, TRUE, TRUE)}
Netconf4(conv) ==
    LET offers == SelectSeq(conv, LAMBDA m : m.reply /\ m.t = "offer") IN
    IF offers = <<>> THEN "err"
    ELSE LET o == offers[1] IN IF o.yi /\ o.mask /\ o.router THEN "ok" ELSE "err"
=============================================================================
