------------------------------- MODULE Label -------------------------------
(* RFC 1035 section 3.1 / 4.1.4 domain-name lists (with single-level message  *)
(* compression) and the RFC 4704 section 4.2 trailing partial name, as a step  *)
(* machine; the encoder; and the semantics of the rfc1035label.Labels object.  *)
(*                                                                             *)
(* A name is a byte string in which labels are separated by the byte 46 (".")  *)
(* -- the representation the library exposes; the empty string is the root.    *)
EXTENDS Bytes

Dot == 46
IsPtr(x) == x >= 192

LInit(b) == [pos |-> 1, ret |-> 0, inPtr |-> FALSE, cur |-> <<>>, started |-> FALSE, names |-> <<>>,
             st |-> "run", grey |-> FALSE, work |-> 0, steps |-> 0, partial |-> FALSE]

\* cur: the name read so far; started: at least one label has been read for it
LStep(b, s) ==
  LET t == [s EXCEPT !.steps = @ + 1] IN
  IF s.pos > Len(b) THEN
       \* end of data: a pending name without terminator is a partial name (RFC 4704 4.2)
       [t EXCEPT !.st = "ok", !.names = IF s.cur = <<>> THEN @ ELSE Append(@, s.cur), !.partial = s.cur # <<>>]
  ELSE LET x == b[s.pos] IN
    IF x = 0 THEN
       [t EXCEPT !.names = Append(@, s.cur), !.cur = <<>>, !.started = FALSE,
                 !.pos = IF s.inPtr THEN s.ret ELSE s.pos + 1, !.inPtr = FALSE]
    ELSE IF IsPtr(x) THEN
       IF s.inPtr THEN [t EXCEPT !.st = "err"]                          \* pointer met while following a pointer
       ELSE IF s.pos + 1 > Len(b) THEN [t EXCEPT !.st = "err"]          \* truncated pointer
       ELSE LET off == (x - 192) * 256 + b[s.pos + 1] IN
            [t EXCEPT !.inPtr = TRUE, !.ret = s.pos + 2, !.pos = off + 1,
                      !.grey = @ \/ (off + 1 >= s.pos)]                 \* target not strictly earlier: RFC-undefined
    ELSE
       IF s.pos + x > Len(b) THEN [t EXCEPT !.st = "err"]               \* label truncated by the end of the buffer
       ELSE [t EXCEPT !.cur = (IF s.cur = <<>> THEN <<>> ELSE s.cur \o <<Dot>>) \o Sub(b, s.pos + 1, x),
                      !.pos = s.pos + x + 1,
                      !.grey = @ \/ (x >= 64),                          \* length octets 64..191 are reserved
                      !.work = @ + x]
RECURSIVE LRun(_, _)
LRun(b, s) == IF s.st # "run" THEN s ELSE LRun(b, LStep(b, s))
LabelDecode(b) == LRun(b, LInit(b))

\* three-way verdict: must-reject / must-accept with these names / reject-or-natural-reading
LabelAgrees(b, ok, names) ==
    LET d == LabelDecode(b) IN
    IF d.st = "err" THEN ~ok
    ELSE IF d.grey THEN (~ok \/ names = d.names)
    ELSE ok /\ names = d.names

\* a complete RFC 1035 encoding: it decodes, and its last name is terminated (by the zero octet or by a pointer) - what an
\* encoder must produce for a list of complete names, whichever of the permitted forms (plain, compressed) it chooses
CompleteEncodingOf(b, names) == LET d == LabelDecode(b) IN d.st = "ok" /\ ~d.grey /\ ~d.partial /\ d.names = names

\* ------------------------------------------------------------------ encoder
RECURSIVE SplitDots(_)
SplitDots(n) == LET k == FirstIndex(n, Dot) IN
                IF k = 0 THEN <<n>> ELSE <<SubSeq(n, 1, k - 1)>> \o SplitDots(SubSeq(n, k + 1, Len(n)))
RECURSIVE EncParts(_)
EncParts(ps) == IF ps = <<>> THEN <<>> ELSE <<Len(Head(ps)) % 256>> \o Head(ps) \o EncParts(Tail(ps))
NameEncode(n) == IF n = <<>> THEN <<0>> ELSE EncParts(SplitDots(n)) \o <<0>>
RECURSIVE LabelEncode(_)
LabelEncode(ns) == IF ns = <<>> THEN <<>> ELSE NameEncode(Head(ns)) \o LabelEncode(Tail(ns))

ValidName(n) == n # <<>> /\ \A p \in Range(SplitDots(n)) : Len(p) >= 1 /\ Len(p) <= 63

\* --------------------------------------------------- the Labels object (C19)
\* obj == [parsed : BOOLEAN, orig : bytes, names : sequence of names]
ObjNew(names) == [parsed |-> FALSE, orig |-> <<>>, names |-> names]
ObjParse(b, names) == [parsed |-> TRUE, orig |-> b, names |-> names]
ObjEncode(o) == IF o.parsed /\ (LET d == LabelDecode(o.orig) IN d.st = "err" \/ d.names = o.names)
                THEN o.orig                              \* unchanged since parsing: the original bytes
                ELSE LabelEncode(o.names)                \* changed: uncompressed encoding of the new names
=============================================================================
