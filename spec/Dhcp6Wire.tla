----------------------------- MODULE Dhcp6Wire -----------------------------
(* RFC 8415 (and per-option RFCs) wire format of DHCPv6 messages, relay      *)
(* messages and options, written as LAYOUT TABLES interpreted by one generic *)
(* decoder and one generic encoder.  This is the reference semantics against *)
(* which the library's FromBytes / ToBytes / ParseOption are judged (C02,    *)
(* C05, C06, C16).                                                           *)
(*                                                                           *)
(* Value trees                                                               *)
(*   message : [mt |-> type, xid |-> 3 bytes, opts |-> sequence of options]  *)
(*   relay   : [mt |-> 12|13, hops, link |-> 16 bytes, peer |-> 16 bytes,    *)
(*              opts |-> sequence of options]                                *)
(*   option  : [c |-> code, v |-> sequence of field values]                  *)
(* A field value is a byte string, a sequence of byte strings, a sequence of *)
(* options, a nested message, or an embedded DHCPv4 packet.  All multi-byte  *)
(* numbers stay byte strings (TLC integers are 32 bit).                      *)
(*                                                                           *)
(* Decoding is three-valued: "yes" (must accept, with exactly this value),   *)
(* "no" (must reject), "grey" (the RFCs give the input no meaning: reject or *)
(* the natural reading) -- grey only arises from domain names (Label.tla).   *)
EXTENDS Dhcp4Wire, Label

And3(a, b) == IF a = "no" \/ b = "no" THEN "no" ELSE IF a = "grey" \/ b = "grey" THEN "grey" ELSE "yes"
B3(x) == IF x THEN "yes" ELSE "no"
No == [st |-> "no", v |-> <<>>]

\* ------------------------------------------------------------- layout tables
\* field kinds: F n (n bytes) | REST | OPTS tab | ITEMS16 | U16S | IP16S | LABELS | MSG | V4 | DUID
F(n) == [k |-> "F", n |-> n]
K(k) == [k |-> k, n |-> 0]
OPTS(t) == [k |-> "OPTS", n |-> 0, t |-> t]

Lay(tab, c) ==
    IF tab = "vendor" THEN <<K("REST")>>
    ELSE IF tab = "ntp" THEN
        (CASE c = 1 -> <<F(16)>> [] c = 2 -> <<F(16)>> [] c = 3 -> <<K("LABELS")>> [] OTHER -> <<K("REST")>>)
    ELSE CASE c = 1 \/ c = 2 -> <<K("DUID")>>                                   \* client / server identifier
           [] c = 3 \/ c = 25 -> <<F(4), F(4), F(4), OPTS("main")>>              \* IA_NA, IA_PD: iaid t1 t2 options
           [] c = 4 -> <<F(4), OPTS("main")>>                                    \* IA_TA
           [] c = 5 -> <<F(16), F(4), F(4), OPTS("main")>>                       \* IA address: addr preferred valid options
           [] c = 6 -> <<K("U16S")>>                                             \* option request
           [] c = 8 -> <<F(2)>>                                                  \* elapsed time (10 ms units)
           [] c = 9 -> <<K("MSG")>>                                              \* relay message
           [] c = 13 -> <<F(2), K("REST")>>                                      \* status code, message
           [] c = 15 -> <<K("ITEMS16")>>                                         \* user class
           [] c = 16 -> <<F(4), K("ITEMS16")>>                                   \* vendor class
           [] c = 17 -> <<F(4), OPTS("vendor")>>                                 \* vendor options
           [] c = 18 -> <<K("REST")>>                                            \* interface id
           [] c = 23 \/ c = 88 -> <<K("IP16S")>>                                 \* DNS servers, DHCP4o6 servers
           [] c = 24 -> <<K("LABELS")>>                                          \* domain search list
           [] c = 26 -> <<F(4), F(4), F(1), F(16), OPTS("main")>>                \* IA prefix
           [] c = 32 -> <<F(4)>>                                                 \* information refresh time
           [] c = 37 -> <<F(4), K("REST")>>                                      \* remote id
           [] c = 39 -> <<F(1), K("LABELS")>>                                    \* FQDN
           [] c = 56 -> <<OPTS("ntp")>>                                          \* NTP server
           [] c = 59 -> <<K("REST")>>                                            \* boot file URL
           [] c = 60 -> <<K("ITEMS16")>>                                         \* boot file parameters
           [] c = 61 -> <<K("U16S")>>                                            \* client architecture types
           [] c = 62 -> <<F(1), F(1), F(1)>>                                     \* network interface identifier
           [] c = 79 -> <<F(2), K("REST")>>                                      \* client link-layer address
           [] c = 87 -> <<K("V4")>>                                              \* DHCPv4 message
           [] c = 97 -> <<OPTS("main")>>                                         \* 4RD
           [] c = 98 -> <<F(1), F(1), F(1), F(1), F(4), F(16)>>                  \* 4RD map rule
           [] c = 99 -> <<F(1), F(1), F(2)>>                                     \* 4RD non-map rule
           [] c = 135 -> <<F(2)>>                                                \* relay port
           [] OTHER -> <<K("REST")>>                                             \* unknown: carried verbatim
KnownCodes == {1, 2, 3, 4, 5, 6, 8, 9, 13, 15, 16, 17, 18, 23, 24, 25, 26, 32, 37, 39, 56, 59, 60, 61, 62, 79, 87, 88, 97, 98, 99, 135}

\* per-option rules beyond the layout, on the decoded field values (raw = as on the wire)
Rule(tab, c, v) ==
    IF tab # "main" THEN TRUE
    ELSE CASE c = 15 -> Len(v[1]) >= 1                                   \* user class: at least one class
           [] c = 16 -> Len(v[2]) >= 1                                   \* vendor class: at least one datum
           [] c = 61 -> Len(v[1]) >= 1                                   \* at least one architecture
           [] c = 26 -> v[3][1] <= 128                                   \* prefix length
           [] c = 98 -> v[1][1] <= 32 /\ v[2][1] <= 128                  \* 4RD prefix lengths
           [] OTHER -> TRUE

\* normalisations a decoder is allowed to apply (no semantic content), applied to the raw value
RECURSIVE Dedup(_, _)
Dedup(s, seen) == IF s = <<>> THEN <<>>
                  ELSE IF Head(s) \in seen THEN Dedup(Tail(s), seen)
                  ELSE <<Head(s)>> \o Dedup(Tail(s), seen \cup {Head(s)})
BitAnd(x, m) == \* x AND m for the two masks used below
    IF m = 128 THEN (x \div 128) * 128 ELSE (x \div 128) * 128 + (x % 2)
NormOpt(tab, c, v) ==
    IF tab # "main" THEN v
    ELSE CASE c = 6 -> <<Dedup(v[1], {})>>                                               \* duplicate requested codes
           [] c = 26 -> IF v[3][1] = 0 THEN [v EXCEPT ![4] = Zeros(16)] ELSE v            \* /0 carries no prefix
           [] c = 98 -> [v EXCEPT ![4] = <<BitAnd(v[4][1], 128)>>]                         \* reserved flag bits
           [] c = 99 -> [v EXCEPT ![1] = <<BitAnd(v[1][1], 129)>>,
                                  ![2] = IF v[1][1] % 2 = 1 THEN v[2] ELSE <<0>>]          \* reserved bits, absent traffic class
           [] OTHER -> v

\* --------------------------------------------------------------------- DUID
DecDuid(p) ==
    IF Len(p) < 2 THEN No
    ELSE LET t == BE16(p, 1) n == Len(p) IN
         CASE t = 1 -> IF n < 8 THEN No ELSE [st |-> "yes", v |-> <<Sub(p, 1, 2), Sub(p, 3, 2), Sub(p, 5, 4), From(p, 9)>>]
           [] t = 2 -> IF n < 6 THEN No ELSE [st |-> "yes", v |-> <<Sub(p, 1, 2), Sub(p, 3, 4), From(p, 7)>>]
           [] t = 3 -> IF n < 4 THEN No ELSE [st |-> "yes", v |-> <<Sub(p, 1, 2), Sub(p, 3, 2), From(p, 5)>>]
           [] t = 4 -> IF n # 18 THEN No ELSE [st |-> "yes", v |-> <<Sub(p, 1, 2), From(p, 3)>>]
           [] OTHER -> [st |-> "yes", v |-> <<Sub(p, 1, 2), From(p, 3)>>]

\* tiles of fixed width
RECURSIVE Tile(_, _, _)
Tile(p, i, w) == IF i + w - 1 > Len(p) THEN <<>> ELSE <<Sub(p, i, w)>> \o Tile(p, i + w, w)
\* items with a 2-byte length prefix; "bad" if one overruns or bytes are left over
RECURSIVE Items16(_, _, _)
Items16(p, i, acc) ==
    IF i > Len(p) THEN [st |-> "yes", v |-> acc]
    ELSE IF i + 1 > Len(p) THEN No
    ELSE LET n == BE16(p, i) IN
         IF i + 1 + n > Len(p) THEN No ELSE Items16(p, i + 2 + n, Append(acc, Sub(p, i + 2, n)))

\* ----------------------------------------------------------- generic decoder
RECURSIVE DecFields(_, _, _, _, _), DecOptsT(_, _, _, _), DecOpt(_, _, _), Dec6(_)

\* one field of kind f from p starting at offset i (1-based); "rest" kinds take everything left
DecField(f, p, i) ==
    LET rest == From(p, i) IN
    CASE f.k = "F" -> IF i + f.n - 1 > Len(p) THEN No ELSE [st |-> "yes", v |-> Sub(p, i, f.n), nx |-> i + f.n]
      [] f.k = "REST" -> [st |-> "yes", v |-> rest, nx |-> Len(p) + 1]
      [] f.k = "OPTS" -> DecOptsT(f.t, rest, 1, <<>>) @@ [nx |-> Len(p) + 1]
      [] f.k = "ITEMS16" -> Items16(rest, 1, <<>>) @@ [nx |-> Len(p) + 1]
      [] f.k = "U16S" -> IF Len(rest) % 2 # 0 THEN No ELSE [st |-> "yes", v |-> Tile(rest, 1, 2), nx |-> Len(p) + 1]
      [] f.k = "IP16S" -> IF Len(rest) % 16 # 0 THEN No ELSE [st |-> "yes", v |-> Tile(rest, 1, 16), nx |-> Len(p) + 1]
      [] f.k = "LABELS" -> LET d == LabelDecode(rest) IN
                           IF d.st = "err" THEN No
                           ELSE [st |-> IF d.grey THEN "grey" ELSE "yes", v |-> d.names, nx |-> Len(p) + 1]
      [] f.k = "MSG" -> Dec6(rest) @@ [nx |-> Len(p) + 1]
      [] f.k = "V4" -> LET d == Dec4(rest) IN IF d.ok THEN [st |-> "yes", v |-> d.val, nx |-> Len(p) + 1] ELSE No
      [] f.k = "DUID" -> DecDuid(rest) @@ [nx |-> Len(p) + 1]

DecFields(lay, k, p, i, acc) ==
    IF k > Len(lay) THEN (IF i = Len(p) + 1 THEN [st |-> "yes", v |-> acc] ELSE No)      \* no trailing bytes
    ELSE LET r == DecField(lay[k], p, i) IN
         IF r.st = "no" THEN No
         ELSE LET more == DecFields(lay, k + 1, p, r.nx, Append(acc, r.v)) IN
              [st |-> And3(r.st, more.st), v |-> more.v]

DecOpt(tab, c, p) ==
    LET r == DecFields(Lay(tab, c), 1, p, 1, <<>>) IN
    IF r.st = "no" THEN No
    ELSE IF ~Rule(tab, c, r.v) THEN No
    ELSE [st |-> r.st, v |-> [c |-> c, v |-> NormOpt(tab, c, r.v)]]

\* options tile their container exactly as code(2) length(2) payload
DecOptsT(tab, p, i, acc) ==
    IF i > Len(p) THEN [st |-> "yes", v |-> acc]
    ELSE IF i + 3 > Len(p) THEN No
    ELSE LET c == BE16(p, i) n == BE16(p, i + 2) IN
         IF i + 3 + n > Len(p) THEN No
         ELSE LET o == DecOpt(tab, c, Sub(p, i + 4, n)) IN
              IF o.st = "no" THEN No
              ELSE LET more == DecOptsT(tab, p, i + 4 + n, Append(acc, o.v)) IN
                   [st |-> And3(o.st, more.st), v |-> more.v]

IsRelayType(t) == t = 12 \/ t = 13
Dec6(b) ==
    IF Len(b) < 1 THEN No
    ELSE IF IsRelayType(b[1]) THEN
        IF Len(b) < 34 THEN No
        ELSE LET os == DecOptsT("main", b, 35, <<>>) IN
             IF os.st = "no" THEN No
             ELSE [st |-> os.st, v |-> [mt |-> b[1], hops |-> b[2], link |-> Sub(b, 3, 16), peer |-> Sub(b, 19, 16), opts |-> os.v]]
    ELSE IF Len(b) < 4 THEN No
        ELSE LET os == DecOptsT("main", b, 5, <<>>) IN
             IF os.st = "no" THEN No
             ELSE [st |-> os.st, v |-> [mt |-> b[1], xid |-> Sub(b, 2, 3), opts |-> os.v]]
\* nclient6 / MessageFromBytes: a relay type is not a Message
DecMessage6(b) == IF Len(b) >= 1 /\ IsRelayType(b[1]) THEN No ELSE Dec6(b)

\* ----------------------------------------------------------- generic encoder
RECURSIVE EncFieldsS(_, _, _), EncOptsT(_, _), Enc6(_)
EncItems16(items) == Concat([i \in 1..Len(items) |-> U16(Len(items[i])) \o items[i]])
EncField(f, v) ==
    CASE f.k = "F" -> v
      [] f.k = "REST" -> v
      [] f.k = "OPTS" -> EncOptsT(f.t, v)
      [] f.k = "ITEMS16" -> EncItems16(v)
      [] f.k = "U16S" -> Concat(v)
      [] f.k = "IP16S" -> Concat(v)
      [] f.k = "LABELS" -> LabelEncode(v)
      [] f.k = "MSG" -> Enc6(v)
      [] f.k = "V4" -> Enc4(v)
      [] f.k = "DUID" -> Concat(v)
EncFieldsS(lay, vs, k) == IF k > Len(lay) THEN <<>> ELSE EncField(lay[k], vs[k]) \o EncFieldsS(lay, vs, k + 1)
EncOptT(tab, o) == LET body == EncFieldsS(Lay(tab, o.c), o.v, 1) IN U16(o.c) \o U16(Len(body)) \o body
EncOptsT(tab, os) == IF os = <<>> THEN <<>> ELSE EncOptT(tab, Head(os)) \o EncOptsT(tab, Tail(os))
IsRelay(m) == "hops" \in DOMAIN m
Enc6(m) == IF IsRelay(m) THEN <<m.mt, m.hops>> \o m.link \o m.peer \o EncOptsT("main", m.opts)
           ELSE <<m.mt>> \o m.xid \o EncOptsT("main", m.opts)

\* The only change a decode -> encode round may make to a value (C06): an embedded DHCPv4 packet has its
\* server-name / boot-file fields cut to their NUL-terminated capacity (Dhcp4Wire!Canon), recursively.
RECURSIVE Canon6(_), CanonOpts6(_, _), CanonFields6(_, _, _)
CanonField6(f, v) ==
    CASE f.k = "OPTS" -> CanonOpts6(f.t, v)
      [] f.k = "MSG" -> Canon6(v)
      [] f.k = "V4" -> Canon(v)
      [] OTHER -> v
CanonFields6(lay, vs, k) == IF k > Len(lay) THEN <<>> ELSE <<CanonField6(lay[k], vs[k])>> \o CanonFields6(lay, vs, k + 1)
CanonOpts6(tab, os) == [i \in 1..Len(os) |-> [c |-> os[i].c, v |-> CanonFields6(Lay(tab, os[i].c), os[i].v, 1)]]
Canon6(m) == [m EXCEPT !.opts = CanonOpts6("main", m.opts)]

\* the verdict on one recorded decode: outcome `ok` with value `val` for input b
\* (a recorded value whose shape cannot be compared with the specification's value makes TLC stop
\* with a type error; the runner counts that line as a mismatch and goes on)
Same(a, b) == a = b
Agrees6(d, ok, val) ==
    IF d.st = "no" THEN ~ok
    ELSE IF d.st = "grey" THEN (~ok \/ Same(val, d.v))
    ELSE ok /\ Same(val, d.v)
=============================================================================
