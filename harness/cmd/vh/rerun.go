package main

import (
	"bufio"
	"encoding/json"
	"fmt"
	"net"
	"os"

	"github.com/insomniacslk/dhcp/dhcpv4/nclient4"
)

// rerun re-executes the recorded INPUT of each replay line against the library as it is now and
// writes the line with the fresh outcome (so that `./check Cxx --replay f` shows whether the current
// tree still behaves that way). Lines of kinds it cannot re-execute are passed through unchanged.
func rerun(in, out string) {
	f, err := os.Open(in)
	if err != nil {
		panic(err)
	}
	defer f.Close()
	w, _ := os.Create(out)
	defer w.Close()
	bw := bufio.NewWriter(w)
	defer bw.Flush()
	sc := bufio.NewScanner(f)
	sc.Buffer(make([]byte, 1<<20), 1<<28)
	bytesOf := func(v any) []byte {
		l, _ := v.([]any)
		b := make([]byte, len(l))
		for i, x := range l {
			b[i] = byte(x.(float64))
		}
		return b
	}
	n, redone := 0, 0
	for sc.Scan() {
		var e map[string]any
		if json.Unmarshal(sc.Bytes(), &e) != nil {
			bw.Write(sc.Bytes())
			bw.WriteByte('\n')
			continue
		}
		n++
		switch e["op"] {
		case "Dec4":
			e["out"], _ = dec4(bytesOf(e["in"]))
			redone++
		case "Dec4a":
			e["out"], _ = dec4(append(stdHeader4(), bytesOf(e["area"])...))
			redone++
		case "Dec6":
			e["out"], _ = dec6(bytesOf(e["in"]))
			redone++
		case "DecOpt6":
			e["out"] = decOpt6(int(e["code"].(float64)), bytesOf(e["in"]))
			redone++
		case "LDec":
			r, _ := labelDec(bytesOf(e["in"]))
			e["ok"], e["names"] = r["ok"], r["names"]
			if p, ok := r["panic"]; ok {
				e["panic"] = p
			} else {
				delete(e, "panic")
			}
			redone++
		case "Fix4", "Fix6":
			tmp := newOut(out + ".tmp")
			if e["op"] == "Fix4" {
				fix4(tmp, bytesOf(e["in"]), "replay")
			} else {
				fix6(tmp, bytesOf(e["in"]), "replay")
			}
			tmp.Close(nil)
			b, _ := os.ReadFile(out + ".tmp")
			os.Remove(out + ".tmp")
			os.Remove(out + ".tmp.stats")
			var fresh map[string]any
			if json.Unmarshal(b, &fresh) == nil {
				fresh["id"], fresh["cls"] = e["id"], e["cls"]
				e = fresh
			}
			redone++
		case "R":
			var frames [][]byte
			for _, fr := range e["frames"].([]any) {
				frames = append(frames, bytesOf(fr))
			}
			bound := e["bound"].(map[string]any)
			var bip net.IP
			if b := bytesOf(bound["ip"]); len(b) == 4 {
				bip = net.IP(b)
			}
			sconn := &scriptConn{frames: frames}
			c := nclient4.NewBroadcastUDPConn(sconn, &net.UDPAddr{IP: bip, Port: int(bound["port"].(float64))})
			if int(bound["port"].(float64)) == -1 {
				c = nclient4.NewBroadcastUDPConn(sconn, nil)
			}
			var held []*net.UDPAddr
			res := []any{}
			delete(e, "panic")
			func() {
				defer func() {
					if r := recover(); r != nil {
						e["panic"] = fmt.Sprint(r)
					}
				}()
				for {
					b := make([]byte, int(e["buflen"].(float64)))
					k, addr, err := c.ReadFrom(b)
					if err != nil {
						e["end"] = err == errScriptEnd
						return
					}
					held = append(held, addr.(*net.UDPAddr))
					res = append(res, map[string]any{"payload": B(b[:k])})
				}
			}()
			for i, u := range held {
				res[i].(map[string]any)["src"] = endpoint(u.IP, u.Port)
			}
			e["res"] = res
			redone++
		}
		b, _ := json.Marshal(e)
		bw.Write(b)
		bw.WriteByte('\n')
	}
	fmt.Fprintf(os.Stderr, "rerun: %d lines, %d re-executed against the current tree\n", n, redone)
}
