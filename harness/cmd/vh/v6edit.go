package main

import (
	"math/rand"
	"reflect"

	"github.com/insomniacslk/dhcp/dhcpv6"
)

// editInPlace makes the exported state of dst equal to that of src the way a caller of the public API
// would: by assigning exported fields, and — where a slice keeps its length — by assigning its elements
// one by one, so that backing arrays, and whatever a value remembers about its own history in unexported
// fields, stay those of dst.
func editInPlace(dst, src reflect.Value) {
	switch dst.Kind() {
	case reflect.Ptr:
		if !dst.IsNil() && !src.IsNil() && dst.Elem().Type() == src.Elem().Type() {
			editInPlace(dst.Elem(), src.Elem())
		} else if dst.CanSet() {
			dst.Set(src)
		}
	case reflect.Interface:
		if !dst.IsNil() && !src.IsNil() && dst.Elem().Type() == src.Elem().Type() && dst.Elem().Kind() == reflect.Ptr {
			editInPlace(dst.Elem(), src.Elem())
		} else if dst.CanSet() {
			dst.Set(src)
		}
	case reflect.Struct:
		for i := 0; i < dst.NumField(); i++ {
			if dst.Type().Field(i).PkgPath == "" { // exported
				editInPlace(dst.Field(i), src.Field(i))
			}
		}
	case reflect.Slice:
		if dst.Len() == src.Len() && dst.Len() > 0 {
			for i := 0; i < dst.Len(); i++ {
				editInPlace(dst.Index(i), src.Index(i))
			}
		} else if dst.CanSet() {
			dst.Set(src)
		}
	default:
		if dst.CanSet() {
			dst.Set(src)
		}
	}
}

// two messages with the same sequence of option codes and independent contents
func twinMsgs6(rng *rand.Rand, codes []int, depth int) (*dhcpv6.Message, *dhcpv6.Message) {
	mk := func() *dhcpv6.Message {
		m := &dhcpv6.Message{MessageType: dhcpv6.MessageType(1 + rng.Intn(11))}
		copy(m.TransactionID[:], randBytes(rng, 3))
		for _, c := range codes {
			m.AddOption(randOpt6(rng, c, depth))
		}
		return m
	}
	return mk(), mk()
}

// editedMsg6: a message with a history (encoded, printed, or obtained by decoding) whose exported state is
// then changed in place to that of an independent message of the same shape.
func editedMsg6(rng *rand.Rand, codes []int, depth int) (dhcpv6.DHCPv6, string) {
	a, b := twinMsgs6(rng, codes, depth)
	var d dhcpv6.DHCPv6 = a
	cls := "edited-after-encode"
	switch rng.Intn(3) {
	case 0:
		_ = a.ToBytes()
	case 1:
		_ = a.ToBytes()
		_ = a.Summary()
		_ = a.ToBytes()
	default:
		if x, err := dhcpv6.FromBytes(a.ToBytes()); err == nil {
			if m, ok := x.(*dhcpv6.Message); ok {
				d, cls = m, "edited-after-decode"
				if rng.Intn(2) == 0 {
					_ = m.ToBytes()
				}
			}
		}
	}
	func() {
		defer func() { recover() }()
		editInPlace(reflect.ValueOf(d), reflect.ValueOf(dhcpv6.DHCPv6(b)))
	}()
	return d, cls
}
