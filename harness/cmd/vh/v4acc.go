package main

import (
	"fmt"
	"reflect"
	"math/rand"
	"net"
	"sort"
	"time"

	"github.com/insomniacslk/dhcp/dhcpv4"
	"github.com/insomniacslk/dhcp/iana"
	"github.com/insomniacslk/dhcp/rfc1035label"
)

func init() { gens["c17"] = genC17 }

type accessor struct {
	name string
	code uint8
	get  func(p *dhcpv4.DHCPv4) map[string]any
}

func resIP(ip net.IP) map[string]any {
	if ip == nil {
		return map[string]any{"ok": false, "v": []int{}}
	}
	return map[string]any{"ok": true, "v": B(ip)}
}
func resIPs(ips []net.IP) map[string]any {
	if ips == nil {
		return map[string]any{"ok": false, "v": []any{}}
	}
	l := []any{}
	for _, ip := range ips {
		l = append(l, B(ip))
	}
	return map[string]any{"ok": true, "v": l}
}
func resStr(s string) map[string]any { return map[string]any{"ok": true, "v": B([]byte(s))} }

const accDef = 1500 * time.Millisecond // never equals a whole number of seconds

func resDur(d time.Duration) map[string]any {
	if d == accDef {
		return map[string]any{"ok": false, "v": []int{}}
	}
	if d%time.Second != 0 || d < 0 || d/time.Second > 0xffffffff {
		return map[string]any{"ok": true, "v": []int{-1, -1, -1, -1}} // not the reading of any 4-byte value
	}
	return map[string]any{"ok": true, "v": u32b(uint32(d / time.Second))}
}

var accessors = []accessor{
	{"BroadcastAddress", 28, func(p *dhcpv4.DHCPv4) map[string]any { return resIP(p.BroadcastAddress()) }},
	{"RequestedIPAddress", 50, func(p *dhcpv4.DHCPv4) map[string]any { return resIP(p.RequestedIPAddress()) }},
	{"ServerIdentifier", 54, func(p *dhcpv4.DHCPv4) map[string]any { return resIP(p.ServerIdentifier()) }},
	{"Router", 3, func(p *dhcpv4.DHCPv4) map[string]any { return resIPs(p.Router()) }},
	{"NTPServers", 42, func(p *dhcpv4.DHCPv4) map[string]any { return resIPs(p.NTPServers()) }},
	{"NetBIOSNameServers", 44, func(p *dhcpv4.DHCPv4) map[string]any { return resIPs(p.NetBIOSNameServers()) }},
	{"DNS", 6, func(p *dhcpv4.DHCPv4) map[string]any { return resIPs(p.DNS()) }},
	{"DomainName", 15, func(p *dhcpv4.DHCPv4) map[string]any { return resStr(p.DomainName()) }},
	{"RootPath", 17, func(p *dhcpv4.DHCPv4) map[string]any { return resStr(p.RootPath()) }},
	{"ClassIdentifier", 60, func(p *dhcpv4.DHCPv4) map[string]any { return resStr(p.ClassIdentifier()) }},
	{"Message", 56, func(p *dhcpv4.DHCPv4) map[string]any { return resStr(p.Message()) }},
	{"HostName", 12, func(p *dhcpv4.DHCPv4) map[string]any { return resStr(p.HostName()) }},
	{"BootFileNameOption", 67, func(p *dhcpv4.DHCPv4) map[string]any { return resStr(p.BootFileNameOption()) }},
	{"TFTPServerName", 66, func(p *dhcpv4.DHCPv4) map[string]any { return resStr(p.TFTPServerName()) }},
	{"IPAddressLeaseTime", 51, func(p *dhcpv4.DHCPv4) map[string]any { return resDur(p.IPAddressLeaseTime(accDef)) }},
	{"IPAddressRenewalTime", 58, func(p *dhcpv4.DHCPv4) map[string]any { return resDur(p.IPAddressRenewalTime(accDef)) }},
	{"IPAddressRebindingTime", 59, func(p *dhcpv4.DHCPv4) map[string]any { return resDur(p.IPAddressRebindingTime(accDef)) }},
	{"IPv6OnlyPreferred", 108, func(p *dhcpv4.DHCPv4) map[string]any {
		d, ok := p.IPv6OnlyPreferred()
		if !ok {
			return map[string]any{"ok": false, "v": []int{}}
		}
		return resDur(d)
	}},
	{"MaxMessageSize", 57, func(p *dhcpv4.DHCPv4) map[string]any {
		v, err := p.MaxMessageSize()
		if err != nil {
			return map[string]any{"ok": false, "v": []int{}}
		}
		return map[string]any{"ok": true, "v": u16b(v)}
	}},
	{"AutoConfigure", 116, func(p *dhcpv4.DHCPv4) map[string]any {
		v, ok := p.AutoConfigure()
		if !ok {
			return map[string]any{"ok": false, "v": []int{}}
		}
		return map[string]any{"ok": true, "v": []int{int(v)}}
	}},
	{"MessageType", 53, func(p *dhcpv4.DHCPv4) map[string]any {
		return map[string]any{"ok": true, "v": []int{int(p.MessageType())}}
	}},
	{"ParameterRequestList", 55, func(p *dhcpv4.DHCPv4) map[string]any {
		l := p.ParameterRequestList()
		if l == nil {
			return map[string]any{"ok": false, "v": []int{}}
		}
		v := []int{}
		for _, c := range l {
			v = append(v, int(c.Code()))
		}
		return map[string]any{"ok": true, "v": v}
	}},
	{"SubnetMask", 1, func(p *dhcpv4.DHCPv4) map[string]any {
		m := p.SubnetMask()
		if m == nil {
			return map[string]any{"ok": false, "v": []int{}}
		}
		return map[string]any{"ok": true, "v": B(m)}
	}},
	{"ClasslessStaticRoute", 121, func(p *dhcpv4.DHCPv4) map[string]any {
		rs := p.ClasslessStaticRoute()
		if rs == nil {
			return map[string]any{"ok": false, "v": []any{}}
		}
		return map[string]any{"ok": true, "v": projRoutes(rs)}
	}},
	{"ClientArch", 93, func(p *dhcpv4.DHCPv4) map[string]any {
		as := p.ClientArch()
		if as == nil {
			return map[string]any{"ok": false, "v": []any{}}
		}
		l := []any{}
		for _, a := range as {
			l = append(l, u16b(uint16(a)))
		}
		return map[string]any{"ok": true, "v": l}
	}},
	{"UserClass", 77, func(p *dhcpv4.DHCPv4) map[string]any {
		l := []any{}
		for _, s := range p.UserClass() {
			l = append(l, B([]byte(s)))
		}
		return map[string]any{"ok": true, "v": l}
	}},
	{"VIVC", 124, func(p *dhcpv4.DHCPv4) map[string]any {
		ids := p.VIVC()
		if ids == nil {
			return map[string]any{"ok": false, "v": []any{}}
		}
		l := []any{}
		for _, id := range ids {
			l = append(l, map[string]any{"ent": u32b(uint32(id.EntID)), "data": B(id.Data)})
		}
		return map[string]any{"ok": true, "v": l}
	}},
	{"RelayAgentInfo", 82, func(p *dhcpv4.DHCPv4) map[string]any {
		r := p.RelayAgentInfo()
		if r == nil {
			return map[string]any{"ok": false, "v": []any{}}
		}
		return map[string]any{"ok": true, "v": projOptions4(r.Options)}
	}},
}

func projOptions4(o dhcpv4.Options) []any {
	codes := []int{}
	for c := range o {
		codes = append(codes, int(c))
	}
	sort.Ints(codes)
	l := []any{}
	for _, c := range codes {
		l = append(l, map[string]any{"c": c, "v": B(o[uint8(c)])})
	}
	return l
}

// ipForm returns an IPv4 address in one of the two forms a net.IP can have (4 or 16 octets); which one a program holds
// depends on where it got the address from (net.ParseIP and net.IPv4 give 16, To4 and decoders give 4)
func ipForm(rng *rand.Rand, ip net.IP) net.IP {
	v4 := ip.To4()
	if v4 == nil {
		return ip
	}
	if rng.Intn(2) == 0 {
		return net.IPv4(v4[0], v4[1], v4[2], v4[3])
	}
	return append(net.IP(nil), v4...)
}

func projRoutes(rs []*dhcpv4.Route) []any {
	l := []any{}
	for _, r := range rs {
		w, _ := r.Dest.Mask.Size()
		l = append(l, map[string]any{"w": w, "dest": ip4(r.Dest.IP), "router": ip4(r.Router)})
	}
	return l
}

// richBytes: item contents over their whole domain, not only short random bytes: lengths up to what one length octet
// carries, and contents that look like something else (printable text, zeros, all ones)
func richBytes(rng *rand.Rand, min, max int) []byte {
	n := pick(rng, 1, 2, 5, 10, 31, 32, 33, 47, 64, 100, 126, 127, 128, 200, 255, 1+rng.Intn(12), 1+rng.Intn(12))
	if n < min {
		n = min
	}
	if n > max {
		n = max
	}
	b := randBytes(rng, n)
	switch rng.Intn(4) {
	case 0:
		for i := range b {
			b[i] = byte(32 + rng.Intn(95)) // printable ASCII
		}
	case 1:
		for i := range b {
			b[i] = byte(pick(rng, 0, 255, 0, 255, rng.Intn(256)))
		}
	}
	return b
}

// textRaw is structuredRaw whose free bytes - and, where the layout allows, whose length octets - are printable ASCII:
// an accessor must not take a well-formed binary value for text because it happens to look like text
func textRaw(rng *rand.Rand, code uint8, L int) []byte {
	b := make([]byte, L)
	for i := range b {
		b[i] = byte(32 + rng.Intn(95))
	}
	switch code {
	case 77: // user classes whose length octets are printable too: items of 32..126 bytes
		i := 0
		for i < L {
			n := pick(rng, 32, 33, 40, 47, 64, 100, 126)
			if i+1+n > L {
				n = L - i - 1 // the last item takes what is left (short items make the length octet unprintable)
			}
			b[i] = byte(n)
			i += 1 + n
		}
	case 124:
		i := 0
		for i+4 < L {
			n := pick(rng, 32, 40, 64, 100)
			if i+5+n > L {
				n = L - i - 5
			}
			b[i+4] = byte(n)
			i += 5 + n
		}
	case 82:
		i := 0
		for i+1 < L {
			n := pick(rng, 32, 40, 64, 100)
			if i+2+n > L {
				n = L - i - 2
			}
			b[i], b[i+1] = byte(pick(rng, 49, 50, 65)), byte(n)
			i += 2 + n
		}
	case 121:
		i := 0
		for i < L {
			w := 32
			b[i] = byte(w)
			i += 1 + 4 + 4
		}
	}
	return b
}

// structured raw values for an accessor kind (valid encodings and near misses)
func structuredRaw(rng *rand.Rand, code uint8, L int) []byte {
	b := randBytes(rng, L)
	switch code {
	case 121: // routes: make the width bytes plausible
		i := 0
		for i < L {
			w := pick(rng, 0, 1, 8, 9, 16, 24, 25, 32, 33, rng.Intn(41))
			b[i] = byte(w)
			i += 1 + (w+7)/8 + 4
		}
	case 77: // user classes
		i := 0
		for i < L {
			n := pick(rng, 0, 1, 2, 3, rng.Intn(8))
			b[i] = byte(n)
			i += 1 + n
		}
	case 124: // vivc
		i := 0
		for i+4 < L {
			n := pick(rng, 0, 1, 2, 5, rng.Intn(10))
			b[i+4] = byte(n)
			i += 5 + n
		}
	case 82: // relay sub-options
		i := 0
		for i+1 < L {
			b[i] = byte(pick(rng, 1, 2, 5, 11, 0, 255, 151))
			n := pick(rng, 0, 1, 4, rng.Intn(6))
			b[i+1] = byte(n)
			i += 2 + n
		}
	case 12, 66, 67, 15: // strings with trailing / embedded NULs
		for i := range b {
			if rng.Intn(4) == 0 {
				b[i] = 0
			}
		}
		if L > 0 && rng.Intn(2) == 0 {
			b[L-1] = 0
		}
	}
	return b
}

func packetWith(code uint8, raw []byte) (*dhcpv4.DHCPv4, bool) {
	p, err := dhcpv4.New(dhcpv4.WithGeneric(dhcpv4.GenericOptionCode(code), raw))
	if err != nil {
		return nil, false
	}
	q, err := dhcpv4.FromBytes(p.ToBytes()) // through the wire: "for any packet"
	if err != nil {
		return nil, false
	}
	return q, true
}

// rawAcc calls the accessor of that name through reflection and returns what it returned (for the caller to use, and
// misuse, as a consumer may: the values belong to the consumer)
func rawAcc(name string, p *dhcpv4.DHCPv4) []reflect.Value {
	m := reflect.ValueOf(p).MethodByName(name)
	if !m.IsValid() {
		return nil
	}
	var args []reflect.Value
	for i := 0; i < m.Type().NumIn(); i++ {
		args = append(args, reflect.Zero(m.Type().In(i)))
	}
	defer func() { recover() }()
	return m.Call(args)
}

// scribbleValue overwrites every byte the value can reach through slices, pointers and maps
func scribbleValue(v reflect.Value, depth int) {
	if depth > 6 || !v.IsValid() {
		return
	}
	switch v.Kind() {
	case reflect.Ptr, reflect.Interface:
		if !v.IsNil() {
			scribbleValue(v.Elem(), depth+1)
		}
	case reflect.Slice:
		if v.Type().Elem().Kind() == reflect.Uint8 {
			for i := 0; i < v.Len(); i++ {
				if v.Index(i).CanSet() {
					v.Index(i).SetUint(uint64(0xA5 ^ byte(i)))
				}
			}
			return
		}
		for i := 0; i < v.Len(); i++ {
			scribbleValue(v.Index(i), depth+1)
		}
	case reflect.Struct:
		for i := 0; i < v.NumField(); i++ {
			if v.Type().Field(i).IsExported() {
				scribbleValue(v.Field(i), depth+1)
			}
		}
	case reflect.Map:
		for _, k := range v.MapKeys() {
			scribbleValue(v.MapIndex(k), depth+1)
		}
	}
}

// packetInContext: the option under test inside a server's reply that carries every other typed option too (what an
// accessor returns is a function of its own option: not of the opcode, not of the neighbours)
func packetInContext(rng *rand.Rand, code uint8, raw []byte) (*dhcpv4.DHCPv4, bool) {
	ip := func() net.IP { return net.IP(randBytes(rng, 4)) }
	p, err := dhcpv4.New(dhcpv4.WithMessageType(dhcpv4.MessageType(pick(rng, 2, 5, 5, 6, 1, 3))), dhcpv4.WithYourIP(ip()), dhcpv4.WithServerIP(ip()),
		dhcpv4.WithRouter(ip(), ip()), dhcpv4.WithDNS(ip()), dhcpv4.WithNetmask(net.CIDRMask(24, 32)), dhcpv4.WithLeaseTime(3600),
		dhcpv4.WithOption(dhcpv4.OptServerIdentifier(ip())), dhcpv4.WithOption(dhcpv4.OptBroadcastAddress(ip())),
		dhcpv4.WithOption(dhcpv4.OptClasslessStaticRoute(&dhcpv4.Route{Dest: &net.IPNet{IP: net.IPv4(10, 0, 0, 0).To4(), Mask: net.CIDRMask(8, 32)}, Router: ip()})),
		dhcpv4.WithOption(dhcpv4.OptNTPServers(ip())), dhcpv4.WithOption(dhcpv4.OptHostName("h.example")), dhcpv4.WithOption(dhcpv4.OptDomainName("example")),
		dhcpv4.WithOption(dhcpv4.OptBootFileName("boot.efi")), dhcpv4.WithOption(dhcpv4.OptTFTPServerName("tftp.example")),
		dhcpv4.WithOption(dhcpv4.OptRelayAgentInfo(dhcpv4.OptGeneric(dhcpv4.AgentCircuitIDSubOption, []byte("Ethernet1/1")))),
		dhcpv4.WithOption(dhcpv4.OptClientIdentifier([]byte{1, 2, 3, 4, 5, 6, 7})), dhcpv4.WithOption(dhcpv4.OptRFC3004UserClass([]string{"ipxe"})),
		dhcpv4.WithOption(dhcpv4.OptParameterRequestList(dhcpv4.OptionRouter, dhcpv4.OptionClasslessStaticRoute)),
		dhcpv4.WithOption(dhcpv4.OptDomainSearch(&rfc1035label.Labels{Labels: []string{"a.example"}})),
		dhcpv4.WithOption(dhcpv4.OptGeneric(dhcpv4.GenericOptionCode(80), nil)))
	if err != nil {
		return nil, false
	}
	p.OpCode = dhcpv4.OpcodeBootReply
	if rng.Intn(3) == 0 {
		p.OpCode = dhcpv4.OpcodeBootRequest
	}
	p.GatewayIPAddr = ip()
	p.Options[code] = raw
	q, err := dhcpv4.FromBytes(p.ToBytes())
	if err != nil {
		return nil, false
	}
	return q, true
}

func callAcc(a accessor, p *dhcpv4.DHCPv4) (res map[string]any) {
	defer func() {
		if r := recover(); r != nil {
			res = map[string]any{"panic": fmt.Sprint(r), "ok": false, "v": []int{}}
		}
	}()
	return a.get(p)
}

func genC17(o *Out, rng *rand.Rand, tier string) {
	variants := 3
	if tier == "thorough" {
		variants = 40
	}
	// list-valued options whose last element is broken or cut (every element before it is fine): a value that does not parse
	// to the end reads as no value, not as the elements that did
	{
		good := map[uint8][]byte{121: {24, 10, 0, 1, 192, 168, 1, 1, 0, 10, 0, 0, 254}, 3: {10, 0, 0, 1, 10, 0, 0, 2}, 77: {3, 'a', 'b', 'c', 1, 'x'},
			124: {0, 0, 0, 9, 3, 'a', 'b', 'c'}, 93: {0, 7, 0, 9}, 119: {3, 'f', 'o', 'o', 0}}
		tails := map[uint8][][]byte{121: {{33}, {40}, {255}, {24}, {24, 10}, {8, 10, 1, 2, 3}, {0, 1, 2, 3}, {32, 1, 2, 3, 4}, {32, 1, 2, 3, 4, 9, 9, 9}},
			3: {{10}, {10, 0, 0}}, 77: {{4, 'a'}, {0}, {200}}, 124: {{0, 0, 0, 9}, {0, 0, 0, 9, 5, 'a'}, {0, 0}}, 93: {{0}}, 119: {{3, 'f'}, {0xc0}, {64}}}
		for _, a := range accessors {
			for _, t := range tails[a.code] {
				for reps := 0; reps <= 2; reps++ {
					var raw []byte
					for r := 0; r < reps; r++ {
						raw = append(raw, good[a.code]...)
					}
					raw = append(raw, t...)
					if q, ok := packetWith(a.code, raw); ok {
						o.Emit(map[string]any{"op": "Acc", "acc": a.name, "absent": false, "raw": B(raw), "res": callAcc(a, q)}, "raw-broken-tail",
							append([]byte(a.name+"tail"), raw...), true)
					}
				}
			}
		}
	}
	for _, a := range accessors {
		// absent
		p, _ := dhcpv4.New()
		o.Emit(map[string]any{"op": "Acc", "acc": a.name, "absent": true, "raw": []int{}, "res": callAcc(a, p)}, "absent", []byte(a.name), false)
		// absent from packets of every kind: a BOOTP server's reply (no option at all, an address in yiaddr), a relayed request,
		// a full DHCP reply from which just this option is missing - absent is absent
		for k := 0; k < 4; k++ {
			q, _ := dhcpv4.New()
			q.Options = dhcpv4.Options{}
			switch k {
			case 0:
				q.OpCode, q.YourIPAddr, q.ServerIPAddr = dhcpv4.OpcodeBootReply, net.IPv4(192, 0, 2, 9).To4(), net.IPv4(192, 0, 2, 1).To4()
				q.BootFileName = "boot.img"
			case 1:
				q.GatewayIPAddr, q.HopCount = net.IPv4(10, 0, 0, 1).To4(), 1
			case 2:
				if full, ok := packetInContext(rng, 224, []byte{1}); ok {
					q = full
					delete(q.Options, a.code)
				}
			default:
				q.OpCode, q.YourIPAddr = dhcpv4.OpcodeBootReply, net.IPv4(192, 0, 2, 9).To4()
				if w, err := dhcpv4.FromBytes(q.ToBytes()); err == nil {
					q = w
				}
			}
			o.Emit(map[string]any{"op": "Acc", "acc": a.name, "absent": true, "raw": []int{}, "res": callAcc(a, q)}, "absent-in-context", append([]byte(a.name), byte(k)), false)
		}
		for L := 0; L <= 64; L++ {
			for k := 0; k < variants+2; k++ {
				var raw []byte
				switch k {
				case 0:
					raw = make([]byte, L)
				case 1:
					raw = make([]byte, L)
					for i := range raw {
						raw[i] = 255
					}
				default:
					raw = structuredRaw(rng, a.code, L)
				}
				q, ok := packetWith(a.code, raw)
				if !ok { // a packet with this option did not survive the wire: never the reading of any raw value
					o.Emit(map[string]any{"op": "Acc", "acc": a.name, "absent": false, "raw": B(raw), "res": map[string]any{"ok": false, "v": []int{-1}}},
						"raw-"+a.name, append([]byte(a.name), raw...), true)
					continue
				}
				o.Emit(map[string]any{"op": "Acc", "acc": a.name, "absent": false, "raw": B(raw), "res": callAcc(a, q)}, "raw-"+a.name,
					append([]byte(a.name), raw...), true)
				if k >= 1 && L%4 == 0 {
					if qc, ok := packetInContext(rng, a.code, raw); ok {
						o.Emit(map[string]any{"op": "Acc", "acc": a.name, "absent": false, "raw": B(raw), "res": callAcc(a, qc)}, "raw-in-a-full-reply",
							append([]byte("ctx"+a.name), raw...), true)
					}
				}
				// what an accessor hands out is the consumer's: the consumer overwrites it, and the reading of the option -
				// from this packet and from another packet that carries the same bytes - is still the RFC's
				if k >= 2 && L > 0 && L%3 == 0 {
					for _, rv := range rawAcc(a.name, q) {
						scribbleValue(rv, 0)
					}
					o.Emit(map[string]any{"op": "Acc", "acc": a.name, "absent": false, "raw": B(raw), "res": callAcc(a, q)}, "after-result-overwritten",
						append([]byte("own1"+a.name), raw...), true)
					if q2, ok := packetWith(a.code, raw); ok {
						o.Emit(map[string]any{"op": "Acc", "acc": a.name, "absent": false, "raw": B(raw), "res": callAcc(a, q2)}, "after-result-overwritten",
							append([]byte("own2"+a.name), raw...), true)
					}
				}
			}
		}
		// long values travel as several instances
		for _, L := range []int{255, 256, 300, 512} {
			raw := structuredRaw(rng, a.code, L)
			if q, ok := packetWith(a.code, raw); ok {
				o.Emit(map[string]any{"op": "Acc", "acc": a.name, "absent": false, "raw": B(raw), "res": callAcc(a, q)}, "raw-long",
					append([]byte(a.name), raw...), true)
			}
		}
		// values that are printable text from the first to the last octet, length octets included
		for _, L := range []int{1, 4, 8, 16, 33, 34, 41, 48, 64, 65, 66, 67, 80, 96, 100, 127, 128, 130, 160, 200, 254} {
			for k := 0; k < 1+variants/3; k++ {
				raw := textRaw(rng, a.code, L)
				if q, ok := packetWith(a.code, raw); ok {
					o.Emit(map[string]any{"op": "Acc", "acc": a.name, "absent": false, "raw": B(raw), "res": callAcc(a, q)}, "raw-text",
						append([]byte(a.name), raw...), true)
				}
			}
		}
	}
	// DomainSearch goes through the label decoder (three-way verdict)
	for i := 0; i < 300*variants/3; i++ {
		raw := randLabelWire(rng)
		if len(raw) == 0 || len(raw) > 1000 {
			continue
		}
		q, ok := packetWith(119, raw)
		if !ok {
			continue
		}
		res := map[string]any{"ok": false, "names": []any{}}
		func() {
			defer func() {
				if r := recover(); r != nil {
					res["panic"] = fmt.Sprint(r)
				}
			}()
			if l := q.DomainSearch(); l != nil {
				res["ok"], res["names"] = true, namesJSON(l.Labels)
			}
		}()
		o.Emit(map[string]any{"op": "AccLabels", "raw": B(raw), "res": res}, "raw-DomainSearch", raw, true)
	}
	// DomainSearch set -> get: name lists built from scratch, and lists that have a history (parsed from a packet or
	// from bytes, encoded before) and are then edited in place before being set on another packet
	for i := 0; i < 60*variants; i++ {
		var l *rfc1035label.Labels
		switch i % 4 {
		case 0:
			l = &rfc1035label.Labels{Labels: randNames(rng)}
		case 1:
			if q, ok := packetWith(119, (&rfc1035label.Labels{Labels: randNames(rng)}).ToBytes()); ok {
				l = q.DomainSearch()
			}
		case 2:
			l, _ = rfc1035label.FromBytes((&rfc1035label.Labels{Labels: randNames(rng)}).ToBytes())
		default:
			l = &rfc1035label.Labels{Labels: randNames(rng)}
			_ = l.ToBytes()
		}
		if l == nil || len(l.Labels) == 0 {
			continue
		}
		for k := rng.Intn(3); k > 0; k-- {
			l.Labels[rng.Intn(len(l.Labels))] = randName(rng) // in place
		}
		want := namesJSON(l.Labels)
		res := map[string]any{"ok": false, "v": []any{}}
		func() {
			defer func() {
				if r := recover(); r != nil {
					res["panic"] = fmt.Sprint(r)
				}
			}()
			p, _ := dhcpv4.New(dhcpv4.WithOption(dhcpv4.OptDomainSearch(l)))
			if g := p.DomainSearch(); g != nil {
				res["ok"], res["v"] = true, namesJSON(g.Labels)
			}
		}()
		o.Emit(map[string]any{"op": "SetGet", "acc": "DomainSearch", "val": want, "raw": []int{}, "res": res}, "set-get-names",
			[]byte(fmt.Sprint("ds", i, want)), true)
	}
	// set -> get through the typed constructors
	n := 40 * variants
	sgPrev := map[uint8]dhcpv4.Option{}
	setget := func(acc string, opt dhcpv4.Option, val any) {
		var a accessor
		for _, x := range accessors {
			if x.name == acc {
				a = x
			}
		}
		p, _ := dhcpv4.New(dhcpv4.WithOption(opt))
		if sgPrev[opt.Code.Code()].Code != nil && rng.Intn(2) == 0 {
			// the option had another value before (the previous one this generator built for the code): what is set last is what is read
			p, _ = dhcpv4.New(dhcpv4.WithOption(sgPrev[opt.Code.Code()]))
			p.UpdateOption(opt)
		}
		sgPrev[opt.Code.Code()] = opt
		key := append([]byte("sg"+acc), p.Options[opt.Code.Code()]...)
		o.Emit(map[string]any{"op": "SetGet", "acc": acc, "val": val, "raw": B(p.Options[opt.Code.Code()]), "res": callAcc(a, p)}, "set-get", key, true)
		// the value set on this packet is its own: another packet that was given the same stored value (a copy of
		// the option map, an echoed option) and then sets the option again does not change what this one reads
		if raw := p.Options[opt.Code.Code()]; len(raw) > 0 {
			q2, _ := dhcpv4.New()
			q2.Options[opt.Code.Code()] = raw
			other := make([]byte, len(raw))
			for i := range other {
				other[i] = ^raw[i]
			}
			q2.UpdateOption(dhcpv4.OptGeneric(opt.Code, other))
			q2.UpdateOption(dhcpv4.OptGeneric(opt.Code, other[:len(other)/2+1]))
			o.Emit(map[string]any{"op": "SetGet", "acc": acc, "val": val, "raw": B(p.Options[opt.Code.Code()]), "res": callAcc(a, p)}, "set-get-shared", append(key, 2), true)
		}
		// and after a trip over the wire
		if q, err := dhcpv4.FromBytes(p.ToBytes()); err == nil && len(p.Options[opt.Code.Code()]) > 0 {
			o.Emit(map[string]any{"op": "SetGet", "acc": acc, "val": val, "raw": B(p.Options[opt.Code.Code()]), "res": callAcc(a, q)}, "set-get-wire", append(key, 1), true)
		}
	}
	// a number of seconds set as a Duration value and read as raw bytes: the 32-bit field holds lease times (unsigned) and,
	// for the time offset option, offsets either side of UTC (RFC 2132 3.4: two's complement) - every value of either range
	// has one encoding
	setraw := func(code dhcpv4.OptionCode, secs int64) {
		opt := dhcpv4.Option{Code: code, Value: dhcpv4.Duration(time.Duration(secs) * time.Second)}
		p, _ := dhcpv4.New(dhcpv4.WithOption(opt))
		abs := secs
		if secs < 0 {
			abs = -secs
		}
		rec := map[string]any{"op": "SetRaw", "kind": "seconds", "neg": secs < 0, "abs": u32b(uint32(abs)), "raw": B(p.Options[code.Code()]), "wire": []int{}}
		if q, err := dhcpv4.FromBytes(p.ToBytes()); err == nil {
			rec["wire"] = B(q.Options[code.Code()])
		}
		o.Emit(rec, "set-raw-seconds", append([]byte{code.Code()}, []byte(fmt.Sprint(secs))...), true)
	}
	for _, secs := range []int64{0, 1, 3600, 43200, -1, -3600, -18000, -43200, -1 << 31, 1<<31 - 1, 1 << 31, 1<<32 - 1, -int64(rng.Intn(1 << 30)), int64(rng.Intn(1 << 30))} {
		setraw(dhcpv4.OptionTimeOffset, secs)
		if secs >= 0 {
			setraw(dhcpv4.OptionIPAddressLeaseTime, secs)
			setraw(dhcpv4.OptionRenewTimeValue, secs)
		}
	}
	// set -> get through the modifiers that set typed options; one modifier value serves several packets (a client
	// passes the same modifiers to its DISCOVER and to its REQUEST): every packet reads back what was set
	modget := func(acc string, mod dhcpv4.Modifier, val any, code uint8) {
		var a accessor
		for _, x := range accessors {
			if x.name == acc {
				a = x
			}
		}
		for round := 0; round < 3; round++ {
			p, _ := dhcpv4.New()
			if round == 2 {
				p, _ = dhcpv4.NewDiscovery(net.HardwareAddr{2, 0, 0, 0, 0, byte(round)})
				p.DeleteOption(dhcpv4.GenericOptionCode(code)) // (the builder's own default list is not the subject here)
			}
			mod(p)
			o.Emit(map[string]any{"op": "SetGet", "acc": acc, "val": val, "raw": B(p.Options[code]), "res": callAcc(a, p)}, "set-get-modifier",
				append([]byte(fmt.Sprint("mg", acc, round)), p.Options[code]...), true)
		}
	}
	for i := 0; i < n/4+3; i++ {
		var codes []dhcpv4.OptionCode
		cl := []int{}
		seen := map[int]bool{}
		for j := 1 + rng.Intn(6); j > 0; j-- {
			c := 1 + rng.Intn(254)
			if seen[c] {
				continue
			}
			seen[c] = true
			codes = append(codes, dhcpv4.GenericOptionCode(c))
			cl = append(cl, c)
		}
		modget("ParameterRequestList", dhcpv4.WithRequestedOptions(codes...), cl, 55)
		ip, ip2 := ipForm(rng, net.IP(randBytes(rng, 4))), ipForm(rng, net.IP(randBytes(rng, 4)))
		modget("Router", dhcpv4.WithRouter(ip, ip2), []any{B(ip.To4()), B(ip2.To4())}, 3)
		modget("DNS", dhcpv4.WithDNS(ip2), []any{B(ip2.To4())}, 6)
		m := net.CIDRMask(rng.Intn(33), 32)
		modget("SubnetMask", dhcpv4.WithNetmask(m), B(m), 1)
		secs := rng.Uint32()
		modget("IPAddressLeaseTime", dhcpv4.WithLeaseTime(secs), u32b(secs), 51)
		modget("IPv6OnlyPreferred", dhcpv4.WithIPv6OnlyPreferred(secs), u32b(secs), 108)
		mt := 1 + rng.Intn(8)
		modget("MessageType", dhcpv4.WithMessageType(dhcpv4.MessageType(mt)), []int{mt}, 53)
		uc := randNoNul(rng, 1+rng.Intn(12))
		modget("UserClass", dhcpv4.WithUserClass(uc, true), []any{B([]byte(uc))}, 77)
	}
	for i := 0; i < n; i++ {
		ip := net.IP(randBytes(rng, 4))
		if rng.Intn(2) == 0 {
			ip = net.IPv4(ip[0], ip[1], ip[2], ip[3]) // 16-byte form
		}
		setget("BroadcastAddress", dhcpv4.OptBroadcastAddress(ip), B(ip.To4()))
		setget("RequestedIPAddress", dhcpv4.OptRequestedIPAddress(ip), B(ip.To4()))
		setget("ServerIdentifier", dhcpv4.OptServerIdentifier(ip), B(ip.To4()))
		ips := make([]net.IP, 1+rng.Intn(4))
		ipl := []any{}
		for j := range ips {
			ips[j] = ipForm(rng, net.IP(randBytes(rng, 4))) // either form of an IPv4 address, as programs have them
			ipl = append(ipl, B(ips[j].To4()))
		}
		setget("Router", dhcpv4.OptRouter(ips...), ipl)
		setget("DNS", dhcpv4.OptDNS(ips...), ipl)
		setget("NTPServers", dhcpv4.OptNTPServers(ips...), ipl)
		setget("NetBIOSNameServers", dhcpv4.OptNetBIOSNameServers(ips...), ipl)
		s := randNoNul(rng, pick(rng, 1+rng.Intn(30), 1+rng.Intn(30), 64, 128, 255))
		setget("DomainName", dhcpv4.OptDomainName(s), B([]byte(s)))
		setget("HostName", dhcpv4.OptHostName(s), B([]byte(s)))
		setget("RootPath", dhcpv4.OptRootPath(s), B([]byte(s)))
		setget("BootFileNameOption", dhcpv4.OptBootFileName(s), B([]byte(s)))
		setget("TFTPServerName", dhcpv4.OptTFTPServerName(s), B([]byte(s)))
		setget("ClassIdentifier", dhcpv4.OptClassIdentifier(s), B([]byte(s)))
		setget("Message", dhcpv4.OptMessage(s), B([]byte(s)))
		secs := uint32(pick(rng, 0, 1, 3600, 0x7fffffff, rng.Intn(1<<31)))
		if rng.Intn(4) == 0 {
			secs = 0xffffffff - uint32(rng.Intn(3))
		}
		d := time.Duration(secs) * time.Second
		setget("IPAddressLeaseTime", dhcpv4.OptIPAddressLeaseTime(d), u32b(secs))
		setget("IPAddressRenewalTime", dhcpv4.OptRenewTimeValue(d), u32b(secs))
		setget("IPAddressRebindingTime", dhcpv4.OptRebindingTimeValue(d), u32b(secs))
		setget("IPv6OnlyPreferred", dhcpv4.OptIPv6OnlyPreferred(d), u32b(secs))
		sz := uint16(rng.Intn(65536))
		setget("MaxMessageSize", dhcpv4.OptMaxMessageSize(sz), u16b(sz))
		ac := rng.Intn(256)
		setget("AutoConfigure", dhcpv4.OptAutoConfigure(dhcpv4.AutoConfiguration(ac)), []int{ac})
		mt := rng.Intn(256)
		setget("MessageType", dhcpv4.OptMessageType(dhcpv4.MessageType(mt)), []int{mt})
		var codes []dhcpv4.OptionCode
		cl := []int{}
		for j := 1 + rng.Intn(6); j > 0; j-- {
			c := rng.Intn(256)
			codes = append(codes, dhcpv4.GenericOptionCode(c))
			cl = append(cl, c)
		}
		setget("ParameterRequestList", dhcpv4.OptParameterRequestList(codes...), cl)
		m := net.CIDRMask(rng.Intn(33), 32)
		setget("SubnetMask", dhcpv4.OptSubnetMask(m), B(m))
		var routes []*dhcpv4.Route
		for j := 1 + rng.Intn(3); j > 0; j-- {
			w := pick(rng, 0, 1, 7, 8, 9, 24, 25, 32, rng.Intn(33))
			dst := make(net.IP, 4)
			copy(dst, randBytes(rng, (w+7)/8))
			routes = append(routes, &dhcpv4.Route{Dest: &net.IPNet{IP: ipForm(rng, dst), Mask: net.CIDRMask(w, 32)}, Router: ipForm(rng, net.IP(randBytes(rng, 4)))})
		}
		setget("ClasslessStaticRoute", dhcpv4.OptClasslessStaticRoute(routes...), projRoutes(routes))
		var archs []iana.Arch
		al := []any{}
		for j := 1 + rng.Intn(3); j > 0; j-- {
			a := rng.Intn(65536)
			archs = append(archs, iana.Arch(a))
			al = append(al, u16b(uint16(a)))
		}
		setget("ClientArch", dhcpv4.OptClientArch(archs...), al)
		var ucs []string
		ul := []any{}
		for j := 1 + rng.Intn(3); j > 0; j-- {
			u := string(richBytes(rng, 1, 255))
			ucs = append(ucs, u)
			ul = append(ul, B([]byte(u)))
		}
		setget("UserClass", dhcpv4.OptRFC3004UserClass(ucs), ul)
		var ids []dhcpv4.VIVCIdentifier
		vl := []any{}
		for j := 1 + rng.Intn(3); j > 0; j-- {
			id := dhcpv4.VIVCIdentifier{EntID: iana.EnterpriseID(rng.Uint32()), Data: richBytes(rng, 0, 120)}
			if rng.Intn(3) == 0 {
				id.Data = randBytes(rng, rng.Intn(3))
			}
			ids = append(ids, id)
			vl = append(vl, map[string]any{"ent": u32b(uint32(id.EntID)), "data": B(id.Data)})
		}
		setget("VIVC", dhcpv4.OptVIVC(ids...), vl)
		sub := dhcpv4.Options{}
		for j := 1 + rng.Intn(3); j > 0; j-- {
			sub[uint8(1+rng.Intn(200))] = richBytes(rng, 1, 80)
		}
		var subl []dhcpv4.Option
		for c, v := range sub {
			subl = append(subl, dhcpv4.OptGeneric(dhcpv4.GenericOptionCode(c), v))
		}
		setget("RelayAgentInfo", dhcpv4.OptRelayAgentInfo(subl...), projOptions4(sub))
	}
	_ = rfc1035label.NewLabels
}
