package main

import (
	"fmt"
	"math/rand"
	"net"

	"github.com/insomniacslk/dhcp/dhcpv6"
)

func init() { gens["c16"] = genC16 }

func res6(d dhcpv6.DHCPv6, err error) map[string]any {
	if err != nil || d == nil {
		return map[string]any{"ok": false, "v": []any{}}
	}
	return map[string]any{"ok": true, "v": proj6(d)}
}

func guard(f func() map[string]any) (out map[string]any) {
	defer func() {
		if r := recover(); r != nil {
			out = map[string]any{"panic": fmt.Sprint(r), "ok": false, "v": []any{}}
		}
	}()
	return f()
}

// innerMsg6 builds a client/server message with any subset of the options the builders look at
func innerMsg6(rng *rand.Rand) *dhcpv6.Message {
	m := &dhcpv6.Message{MessageType: dhcpv6.MessageType(pick(rng, 1, 1, 2, 2, 3, 4, 5, 6, 7, 8, 9, 10, 11, 0, 14, 20, 21, 22, 23, 36, 37, 100, 255))} // every kind of message can be relayed
	copy(m.TransactionID[:], rxid(rng, 3))
	add := func(c int, p int) {
		if rng.Intn(100) < p {
			m.AddOption(randOpt6(rng, c, 2))
		}
	}
	var order = []int{1, 2, 3, 25, 14, 16, 8, 6, 4}
	rng.Shuffle(len(order), func(i, j int) { order[i], order[j] = order[j], order[i] })
	for _, c := range order {
		switch c {
		case 1:
			add(1, 80)
			add(1, 10) // a second client id: the first one counts
		case 2:
			add(2, 65)
		case 3:
			add(3, 70)
			add(3, 15)
		case 25:
			add(25, 40)
		case 14:
			if rng.Intn(100) < 45 {
				m.AddOption(&dhcpv6.OptionGeneric{OptionCode: dhcpv6.OptionRapidCommit})
			}
		case 16:
			add(16, 40)
		default:
			add(c, 30)
		}
	}
	return m
}

func genC16(o *Out, rng *rand.Rand, tier string) {
	n := 900
	if tier == "thorough" {
		n = 15000
	}
	emit := func(fn string, in dhcpv6.DHCPv6, args map[string]any, out map[string]any, cls string) {
		rec := map[string]any{"op": "B6", "fn": fn, "in": proj6(in), "args": args, "out": out}
		key := append([]byte(fn), in.ToBytes()...)
		key = append(key, []byte(fmt.Sprint(args))...)
		o.Emit(rec, cls, key, true)
	}
	// a trip over the wire, received the way a server receives: into a buffer that is then used for the next datagram
	wire := func(d dhcpv6.DHCPv6) dhcpv6.DHCPv6 {
		buf := d.ToBytes()
		x, err := dhcpv6.FromBytes(buf)
		reuse(buf)
		if err != nil {
			return d
		}
		return x
	}
	// one builder many times over in one process (a client that renews for weeks): the 5th, the 171st, the 600th REQUEST is
	// built like the first
	{
		adv := &dhcpv6.Message{MessageType: dhcpv6.MessageTypeAdvertise, TransactionID: dhcpv6.TransactionID{1, 2, 3}}
		adv.AddOption(dhcpv6.OptClientID(&dhcpv6.DUIDLL{HWType: 1, LinkLayerAddr: net.HardwareAddr{2, 0, 0, 0, 0, 1}}))
		adv.AddOption(dhcpv6.OptServerID(&dhcpv6.DUIDEN{EnterpriseNumber: 9, EnterpriseIdentifier: []byte{7}}))
		adv.AddOption(&dhcpv6.OptIANA{IaId: [4]byte{1, 2, 3, 4}})
		for k := 0; k < 700; k++ {
			out := guard(func() map[string]any { return res6(dhcpv6.NewRequestFromAdvertise(adv)) })
			if k < 3 || k%57 == 0 || out["ok"] != true {
				rec := map[string]any{"op": "B6", "fn": "Request", "in": proj6(adv), "args": map[string]any{"nth": k}, "out": out}
				o.Emit(rec, "builder-nth-use", []byte(fmt.Sprint("nth", k)), true)
			}
		}
	}
	for i := 0; i < n; i++ {
		inner := innerMsg6(rng)
		// ---- message builders
		emit("Advertise", inner, map[string]any{}, guard(func() map[string]any { return res6(dhcpv6.NewAdvertiseFromSolicit(inner)) }), "builder")
		emit("Reply", inner, map[string]any{}, guard(func() map[string]any { return res6(dhcpv6.NewReplyFromMessage(inner)) }), "builder")
		emit("Request", inner, map[string]any{}, guard(func() map[string]any { return res6(dhcpv6.NewRequestFromAdvertise(inner)) }), "builder")
		if i%3 == 0 {
			// the same builders with caller modifiers that supply identifiers and an identity association: whether the input is
			// acceptable does not depend on them
			mods := []dhcpv6.Modifier{dhcpv6.WithClientID(&dhcpv6.DUIDLL{HWType: 1, LinkLayerAddr: net.HardwareAddr{2, 0, 0, 0, 0, 9}}),
				dhcpv6.WithServerID(&dhcpv6.DUIDEN{EnterpriseNumber: 9, EnterpriseIdentifier: []byte{1}}), dhcpv6.WithIANA(dhcpv6.OptIAAddress{IPv6Addr: net.ParseIP("2001:db8::7")})}
			okOnly := func(m *dhcpv6.Message, err error) map[string]any { return map[string]any{"ok": err == nil && m != nil} }
			emit("WithMods", inner, map[string]any{"builder": "Advertise"}, guard(func() map[string]any { return okOnly(dhcpv6.NewAdvertiseFromSolicit(inner, mods...)) }), "builder-with-modifiers")
			emit("WithMods", inner, map[string]any{"builder": "Reply"}, guard(func() map[string]any { return okOnly(dhcpv6.NewReplyFromMessage(inner, mods...)) }), "builder-with-modifiers")
			emit("WithMods", inner, map[string]any{"builder": "Request"}, guard(func() map[string]any { return okOnly(dhcpv6.NewRequestFromAdvertise(inner, mods...)) }), "builder-with-modifiers")
		}
		// ---- relay chains of depth 1..16
		depth := pick(rng, 1, 2, 3, 8, 9, 10, 16, 1+rng.Intn(16), 1+rng.Intn(16), 31, 32, 33, 34, 40, 48) // beyond every hop-count limit a relay could have in mind (RFC 8415: 8 by default, 32 at most); the JSON reader of the trace specification nests 255 levels at most, four per relay level
		var cur dhcpv6.DHCPv6 = inner
		for k := 0; k < depth; k++ {
			link, peer := rip6(rng), rip6(rng)
			mt := dhcpv6.MessageTypeRelayForward
			if rng.Intn(12) == 0 {
				mt = dhcpv6.MessageTypeRelayReply
			}
			before := cur
			r, err := dhcpv6.EncapsulateRelay(cur, mt, link, peer)
			emit("Encap", before, map[string]any{"mt": int(mt), "link": ip16(link), "peer": ip16(peer)}, res6(r, err), "encap")
			if err != nil {
				break
			}
			if rng.Intn(2) == 0 {
				r.AddOption(dhcpv6.OptInterfaceID(randBytes(rng, 1+rng.Intn(6))))
			}
			if rng.Intn(2) == 0 {
				r.AddOption(&dhcpv6.OptRemoteID{EnterpriseNumber: rng.Uint32(), RemoteID: randBytes(rng, rng.Intn(6))})
			}
			if rng.Intn(8) == 0 {
				r.AddOption(dhcpv6.OptInterfaceID(randBytes(rng, 2))) // a second one: the first counts
			}
			for k := rng.Intn(3); k > 0 && rng.Intn(2) == 0; k-- {
				// whatever else relays put at their level (echo request, link-layer address, vendor options, subscriber id ...):
				// the relay-reply mirrors addresses, interface-id and remote-id, and nothing else decides what it mirrors
				r.AddOption(randOpt6(rng, pick(rng, 43, 43, 79, 17, 38, 11, 200, untypedCodes6[rng.Intn(len(untypedCodes6))]), 1))
			}
			if rng.Intn(3) == 0 { // options in front of the relay message option
				r.Options.Options = append(dhcpv6.Options{dhcpv6.OptRelayPort(uint16(rng.Intn(65536)))}, r.Options.Options...)
			}
			cur = r
		}
		chain := cur
		if top, ok := chain.(*dhcpv6.RelayMessage); ok && rng.Intn(3) == 0 {
			// hop counts as relays in the field write them, not as EncapsulateRelay would: equal at two levels, out of
			// step with the depth, at the limit - the chain is what its nesting says, not what its counters say
			for cur := top; cur != nil; {
				cur.HopCount = uint8(pick(rng, 0, 0, 1, 3, 7, 31, 32, 255, rng.Intn(256)))
				next, _ := cur.Options.RelayMessage().(*dhcpv6.RelayMessage)
				cur = next
			}
			// the next relay on the path wraps what it received, whatever the hop counts in it: one more than the level below
			link, peer := rip6(rng), rip6(rng)
			r, err := dhcpv6.EncapsulateRelay(top, dhcpv6.MessageTypeRelayForward, link, peer)
			emit("Encap", top, map[string]any{"mt": 12, "link": ip16(link), "peer": ip16(peer)}, res6(r, err), "encap-received-chain")
		}
		if rng.Intn(2) == 0 {
			// after a trip over the wire: the chain must come back as it was sent
			before := chain
			chain = wire(before)
			emit("Wire", before, map[string]any{}, guard(func() map[string]any {
				buf := before.ToBytes()
				x, err := dhcpv6.FromBytes(buf)
				reuse(buf)
				return res6(x, err)
			}), "wire")
		}
		emit("Decap", chain, map[string]any{}, guard(func() map[string]any { return res6(dhcpv6.DecapsulateRelay(chain)) }), "decap")
		// wrap first, complete afterwards: a relay agent encapsulates and then adds its options to the level it wrapped;
		// what is decapsulated is that level as it is now (encapsulating stores the message, not a picture of it)
		if i%4 == 0 {
			l1, _ := dhcpv6.EncapsulateRelay(innerMsg6(rng), dhcpv6.MessageTypeRelayForward, rip6(rng), rip6(rng))
			l2, _ := dhcpv6.EncapsulateRelay(l1, dhcpv6.MessageTypeRelayForward, rip6(rng), rip6(rng))
			l3, _ := dhcpv6.EncapsulateRelay(l2, dhcpv6.MessageTypeRelayForward, rip6(rng), rip6(rng))
			l1.AddOption(dhcpv6.OptInterfaceID(randBytes(rng, 3)))
			l2.AddOption(&dhcpv6.OptRemoteID{EnterpriseNumber: 7, RemoteID: randBytes(rng, 4)})
			emit("DecapIs", l3, map[string]any{"want": proj6(l2)}, guard(func() map[string]any { return res6(dhcpv6.DecapsulateRelay(l3)) }), "wrap-then-complete")
			emit("DecapIs", l2, map[string]any{"want": proj6(l1)}, guard(func() map[string]any { return res6(dhcpv6.DecapsulateRelay(l2)) }), "wrap-then-complete")
			reply := innerMsg6(rng)
			emit("RelayRepl", l3, map[string]any{"msg": proj6(reply)}, guard(func() map[string]any { return res6(dhcpv6.NewRelayReplFromRelayForw(l3, reply)) }), "wrap-then-complete")
		}
		emit("Inner", chain, map[string]any{}, guard(func() map[string]any {
			m, err := chain.GetInnerMessage()
			if err != nil || m == nil {
				return map[string]any{"ok": false, "v": []any{}}
			}
			return map[string]any{"ok": true, "v": proj6(m)}
		}), "inner")
		// the innermost message is found again after the chain has been edited (every level has been asked before)
		if top, ok := chain.(*dhcpv6.RelayMessage); ok && i%3 == 0 {
			var levels []*dhcpv6.RelayMessage
			for cur := top; cur != nil; {
				levels = append(levels, cur)
				cur.GetInnerMessage()
				next, _ := cur.Options.RelayMessage().(*dhcpv6.RelayMessage)
				cur = next
			}
			last := levels[len(levels)-1]
			newInner := innerMsg6(rng)
			switch rng.Intn(3) {
			case 0:
				last.UpdateOption(dhcpv6.OptRelayMessage(newInner))
			case 1: // the exported option list edited directly
				for k, o := range last.Options.Options {
					if o.Code() == dhcpv6.OptionRelayMsg {
						last.Options.Options[k] = dhcpv6.OptRelayMessage(newInner)
					}
				}
			default: // a copy of the outermost level given another relayed message
				cp := *top
				cp.Options.Options = append(dhcpv6.Options{}, top.Options.Options...)
				cp.UpdateOption(dhcpv6.OptRelayMessage(newInner))
				top = &cp
			}
			edited := top
			emit("Inner", edited, map[string]any{}, guard(func() map[string]any {
				m, err := edited.GetInnerMessage()
				if err != nil || m == nil {
					return map[string]any{"ok": false, "v": []any{}}
				}
				return map[string]any{"ok": true, "v": proj6(m)}
			}), "inner-after-edit")
		}
		idx := pick(rng, -1, 0, 1, depth-1, depth, depth+3, -2, rng.Intn(17), rng.Intn(depth+1))
		emit("DecapIndex", chain, map[string]any{"i": idx}, guard(func() map[string]any { return res6(dhcpv6.DecapsulateRelayIndex(chain, idx)) }), "decap")
		reply := innerMsg6(rng)
		if rc, ok := chain.(*dhcpv6.RelayMessage); ok {
			emit("RelayRepl", chain, map[string]any{"msg": proj6(reply)}, guard(func() map[string]any { return res6(dhcpv6.NewRelayReplFromRelayForw(rc, reply)) }), "relay-reply")
		}
		// a chain whose innermost relay lacks the relay message option
		if i%10 == 0 {
			broken := &dhcpv6.RelayMessage{MessageType: dhcpv6.MessageTypeRelayForward, LinkAddr: rip6(rng), PeerAddr: rip6(rng)}
			broken.AddOption(dhcpv6.OptInterfaceID([]byte{1}))
			var b dhcpv6.DHCPv6 = broken
			for k := rng.Intn(3); k > 0; k-- {
				b, _ = dhcpv6.EncapsulateRelay(b, dhcpv6.MessageTypeRelayForward, net.ParseIP("2001:db8::2"), net.ParseIP("fe80::3"))
			}
			bb := b
			emit("Inner", bb, map[string]any{}, guard(func() map[string]any {
				m, err := bb.GetInnerMessage()
				if err != nil || m == nil {
					return map[string]any{"ok": false, "v": []any{}}
				}
				return map[string]any{"ok": true, "v": proj6(m)}
			}), "broken-chain")
			emit("RelayRepl", bb, map[string]any{"msg": proj6(reply)}, guard(func() map[string]any {
				return res6(dhcpv6.NewRelayReplFromRelayForw(bb.(*dhcpv6.RelayMessage), reply))
			}), "broken-chain")
			emit("DecapIndex", bb, map[string]any{"i": -1}, guard(func() map[string]any { return res6(dhcpv6.DecapsulateRelayIndex(bb, -1)) }), "broken-chain")
		}
	}
}
