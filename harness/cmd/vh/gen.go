package main

import "math/rand"

// rxid draws a transaction id: any value of its domain is an id like any other, the ends of the domain included
func rxid(rng *rand.Rand, n int) []byte {
	b := make([]byte, n)
	switch rng.Intn(10) {
	case 0: // all zeroes: what a hand-built message carries, and as legal on the wire as any other
	case 1:
		for i := range b {
			b[i] = 0xff
		}
	case 2:
		b[rng.Intn(n)] = byte(1 + rng.Intn(255))
	default:
		copy(b, randBytes(rng, n))
	}
	return b
}
