package main

import (
	"bufio"
	"context"
	"os/exec"
	"sync"
	"encoding/json"
	"fmt"
	"io"
	"log"
	"math/rand"
	"net"
	"os"
	"reflect"
	"strings"
	"time"

	"github.com/insomniacslk/dhcp/dhcpv4"
	"github.com/insomniacslk/dhcp/dhcpv4/nclient4"
	"github.com/insomniacslk/dhcp/dhcpv4/ztpv4"
	"github.com/insomniacslk/dhcp/dhcpv6"
	"github.com/insomniacslk/dhcp/dhcpv6/ztpv6"
	"github.com/insomniacslk/dhcp/iana"
	"github.com/insomniacslk/dhcp/netboot"
	"github.com/insomniacslk/dhcp/rfc1035label"
)

func init() { gens["c03"] = genC03 }

// probe runs f under recover and a watchdog; it returns "" or a description of the crash / hang.
func probe(what string, f func()) string {
	if collectOps != nil {
		*collectOps = append(*collectOps, namedOp{what, f})
		return ""
	}
	done := make(chan string, 1)
	go func() {
		defer func() {
			if r := recover(); r != nil {
				done <- fmt.Sprintf("%s: panic: %v", what, r)
				return
			}
			done <- ""
		}()
		f()
	}()
	select {
	case s := <-done:
		return s
	case <-time.After(20 * time.Second):
		hung = true
		return what + ": timeout (no result within 20 s)"
	}
}

// collectOps, when set, makes the use* functions hand their operations over instead of running them (the concurrent
// stage runs them itself, several goroutines at a time)
type namedOp struct {
	what string
	f    func()
}

var collectOps *[]namedOp

// hung is set once a call did not return: its goroutine cannot be stopped and may keep allocating, so the
// generator records the finding and ends the run at once
var hung bool

// allReadOnly calls every niladic exported non-mutator method reachable from v (one level into options).
func allReadOnly(bad *[]string, steps *int, label string, v any) {
	rv := reflect.ValueOf(v)
	if !rv.IsValid() || (rv.Kind() == reflect.Ptr && rv.IsNil()) {
		return
	}
	for _, m := range readOnlyMethods(rv) {
		mm := m
		*steps++
		if s := probe(label+"."+mm, func() {
			for _, r := range rv.MethodByName(mm).Call(nil) {
				printResult(r, 0) // what an accessor returns is printed and encoded by whoever asked for it
			}
		}); s != "" {
			*bad = append(*bad, s)
		}
	}
}

// printResult calls String / ToBytes on a value an accessor returned and on the elements of a returned list
func printResult(r reflect.Value, depth int) {
	if !r.IsValid() || depth > 2 {
		return
	}
	switch r.Kind() {
	case reflect.Ptr, reflect.Interface, reflect.Slice, reflect.Map:
		if r.IsNil() {
			return
		}
	}
	if r.CanInterface() {
		for _, name := range []string{"String", "ToBytes", "Summary"} {
			if m := r.MethodByName(name); m.IsValid() && m.Type().NumIn() == 0 {
				m.Call(nil)
			}
		}
	}
	switch r.Kind() {
	case reflect.Slice, reflect.Array:
		if r.Type().Elem().Kind() == reflect.Uint8 {
			return
		}
		for i := 0; i < r.Len() && i < 8; i++ {
			printResult(r.Index(i), depth+1)
		}
	case reflect.Ptr, reflect.Interface:
		if depth < 2 {
			printResult(r.Elem(), depth+1)
		}
	}
}

func useV4(p *dhcpv4.DHCPv4, bad *[]string, steps *int) {
	allReadOnly(bad, steps, "DHCPv4", p)
	run := func(what string, f func()) {
		*steps++
		if s := probe(what, f); s != "" {
			*bad = append(*bad, s)
		}
	}
	// what a builder returns is a message like any other: it is printed and sent
	built4 := func(q *dhcpv4.DHCPv4, err error) {
		if err == nil && q != nil {
			_ = q.Summary()
			_ = q.String()
			if r, err := dhcpv4.FromBytes(q.ToBytes()); err == nil {
				_ = r.Summary()
			}
		}
	}
	run("NewReplyFromRequest", func() { built4(dhcpv4.NewReplyFromRequest(p)) })
	run("NewReplyFromRequest+mods", func() {
		built4(dhcpv4.NewReplyFromRequest(p, dhcpv4.WithMessageType(dhcpv4.MessageTypeOffer), dhcpv4.WithServerIP(net.IPv4(10, 0, 0, 1)), dhcpv4.WithNetboot))
	})
	run("NewRequestFromOffer", func() { built4(dhcpv4.NewRequestFromOffer(p)) })
	run("NewRenewFromAck", func() { built4(dhcpv4.NewRenewFromAck(p)) })
	run("NewReleaseFromACK", func() { built4(dhcpv4.NewReleaseFromACK(p)) })
	run("IPAddressLeaseTime", func() { p.IPAddressLeaseTime(0); p.IPAddressRenewalTime(0); p.IPAddressRebindingTime(0) })
	run("IsOptionRequested", func() { p.IsOptionRequested(dhcpv4.OptionRouter) })
	run("SummaryWithVendor", func() { p.SummaryWithVendor(nil) })
	run("ztpv4.ParseVendorData", func() { ztpv4.ParseVendorData(p) })
	run("ztpv4.ParseCircuitID", func() {
		if c, err := ztpv4.ParseCircuitID(p); err == nil && c != nil {
			c.FormatCircuitID()
		}
	})
	run("netboot.GetNetConfFromPacketv4", func() { netboot.GetNetConfFromPacketv4(p) })
	run("netboot.ConversationToNetconfv4", func() { netboot.ConversationToNetconfv4([]*dhcpv4.DHCPv4{p}) })
	run("re-encode", func() {
		if q, err := dhcpv4.FromBytes(p.ToBytes()); err == nil {
			q.Summary()
		}
	})
}

func useV6(d dhcpv6.DHCPv6, bad *[]string, steps *int) {
	allReadOnly(bad, steps, "DHCPv6", d)
	run := func(what string, f func()) {
		*steps++
		if s := probe(what, f); s != "" {
			*bad = append(*bad, s)
		}
	}
	if m, ok := d.(*dhcpv6.Message); ok {
		allReadOnly(bad, steps, "MessageOptions", m.Options)
		for _, o := range m.Options.Options {
			allReadOnly(bad, steps, fmt.Sprintf("option %d", o.Code()), o)
		}
		built6 := func(q *dhcpv6.Message, err error) {
			if err == nil && q != nil {
				_ = q.Summary()
				_ = q.String()
				q.GetOneOption(dhcpv6.OptionServerID)
				if r, err := dhcpv6.FromBytes(q.ToBytes()); err == nil {
					_ = r.Summary()
				}
			}
		}
		duid := &dhcpv6.DUIDLL{HWType: 1, LinkLayerAddr: net.HardwareAddr{2, 0, 0, 0, 0, 1}}
		run("NewAdvertiseFromSolicit", func() { built6(dhcpv6.NewAdvertiseFromSolicit(m)) })
		run("NewAdvertiseFromSolicit+mods", func() { built6(dhcpv6.NewAdvertiseFromSolicit(m, dhcpv6.WithServerID(duid), dhcpv6.WithIANA())) })
		run("NewRequestFromAdvertise", func() { built6(dhcpv6.NewRequestFromAdvertise(m)) })
		run("NewReplyFromMessage", func() { built6(dhcpv6.NewReplyFromMessage(m)) })
		run("NewReplyFromMessage+mods", func() { built6(dhcpv6.NewReplyFromMessage(m, dhcpv6.WithServerID(duid), dhcpv6.WithDNS(net.IPv6loopback))) })
		run("IsOptionRequested", func() { m.IsOptionRequested(dhcpv6.OptionDNSRecursiveNameServer); m.IsNetboot() })
		run("netboot.GetNetConfFromPacketv6", func() { netboot.GetNetConfFromPacketv6(m) })
	}
	if r, ok := d.(*dhcpv6.RelayMessage); ok {
		allReadOnly(bad, steps, "RelayOptions", r.Options)
		for _, o := range r.Options.Options {
			allReadOnly(bad, steps, fmt.Sprintf("relay option %d", o.Code()), o)
		}
		reply := &dhcpv6.Message{MessageType: dhcpv6.MessageTypeReply}
		run("NewRelayReplFromRelayForw", func() {
			if x, err := dhcpv6.NewRelayReplFromRelayForw(r, reply); err == nil && x != nil {
				_ = x.Summary()
				x.GetInnerMessage()
				if y, err := dhcpv6.FromBytes(x.ToBytes()); err == nil {
					_ = y.Summary()
				}
			}
		})
	}
	seen := func(x dhcpv6.DHCPv6, err error) {
		if err == nil && x != nil {
			_ = x.Summary()
			x.ToBytes()
		}
	}
	run("DecapsulateRelay", func() { seen(dhcpv6.DecapsulateRelay(d)) })
	for _, i := range []int{-1, 0, 1, 5, 31, 32, 33, -2} {
		ii := i
		run(fmt.Sprintf("DecapsulateRelayIndex(%d)", ii), func() { seen(dhcpv6.DecapsulateRelayIndex(d, ii)) })
	}
	// comparisons: a server compares the identifiers of a message with its own, with each other and with what another message
	// carries - or does not carry (an absent identifier reads as a nil DUID)
	run("DUID.Equal", func() {
		if m, err := d.GetInnerMessage(); err == nil && m != nil {
			ids := []dhcpv6.DUID{m.Options.ClientID(), m.Options.ServerID(), nil, &dhcpv6.DUIDLL{HWType: 1, LinkLayerAddr: net.HardwareAddr{2, 0, 0, 0, 0, 1}},
				&dhcpv6.DUIDOpaque{Type: 9, Data: []byte{1}}}
			for _, a := range ids[:2] {
				if a == nil {
					continue
				}
				for _, b := range ids {
					a.Equal(b)
				}
			}
		}
	})
	run("GetInnerMessage", func() { d.GetInnerMessage() })
	run("GetTransactionID", func() { dhcpv6.GetTransactionID(d) })
	run("ExtractMAC", func() { dhcpv6.ExtractMAC(d) })
	run("ztpv6.ParseVendorData", func() { ztpv6.ParseVendorData(d) })
	run("ztpv6.ParseRemoteID", func() {
		if c, err := ztpv6.ParseRemoteID(d); err == nil && c != nil {
			c.FormatCircuitID()
		}
	})
	run("netboot.ConversationToNetconf", func() { netboot.ConversationToNetconf([]dhcpv6.DHCPv6{d}) })
	run("EncapsulateRelay", func() {
		if e, err := dhcpv6.EncapsulateRelay(d, dhcpv6.MessageTypeRelayForward, net.IPv6loopback, net.IPv6loopback); err == nil {
			e.Summary()
		}
	})
	run("re-encode", func() {
		if q, err := dhcpv6.FromBytes(d.ToBytes()); err == nil {
			q.Summary()
		}
	})
}

// vendor strings the zero-touch-provisioning parsers look for
var ztpStrings = []string{"Arista;DCS-7050S-64;01.23;JPE12221671", "Arista;", "Cisco;8800;12.34;FOC00000000", "Cisco;x", "ZPESystems:NSC:001234567",
	"ZPESystems:", "NVOS##MMM1234##MM1234X56ABC", "NVOS##", "1271-23422Z11-123", "1271-", "1271", "Juniper-ptx1000-DD576", "Juniper-qfx10002-36q-DN817",
	"Juniper-", "JUNIPER", "Ethernet1/2:100", "Ethernet3/17/1", "et-1/0/61", "Port-Channel23", "ge-0/0/0.0", "\x00\x04Ethernet1", ""}

// the SN / PID field grammar of Cisco's vendor-identifying vendor class, with its near misses
var ciscoVIVCFields = []string{"SN:0;PID:R-IOSXRV9000-CC", "PID:x;SN:1;SN:2", "SN:0;PID", "SN:FOC1234;PID", "SN", "PID", "SN;PID", "SN:a:b", "", ";", ";;", "SN:;PID:",
	" SN:1 ; PID:2 ", "FOO:1", "SN:5", "SN:5;", ":", "::", "SN::", "PID:x;", "sn:1;pid:2"}

func clip(s string, n int) string {
	if len(s) > n {
		return s[:n]
	}
	return s
}

func ztpCorpus(rng *rand.Rand) (v4 [][]byte, v6 [][]byte) {
	// the vendor strings, interface names and field lists drawn from the grammars of the extractors' case tables
	// (the generators of the extended conformance), in every place the extractors read them from
	all := append([]string{}, ztpStrings...)
	all = append(all, ciscoVIVCFields...)
	all = append(all, ztpSystematic()...)
	for k := 0; k < 60; k++ {
		all = append(all, ztpString(rng, k%2 == 0), circuitString(rng))
	}
	for _, s := range all {
		p, _ := dhcpv4.New(dhcpv4.WithOption(dhcpv4.OptClassIdentifier(s)), dhcpv4.WithOption(dhcpv4.OptHostName("host-"+s)),
			dhcpv4.WithOption(dhcpv4.OptVIVC(dhcpv4.VIVCIdentifier{EntID: 9, Data: []byte(clip(s, 200))}, dhcpv4.VIVCIdentifier{EntID: 30065, Data: []byte(clip(s, 40))})),
			dhcpv4.WithOption(dhcpv4.OptRelayAgentInfo(dhcpv4.OptGeneric(dhcpv4.AgentCircuitIDSubOption, []byte(s)), dhcpv4.OptGeneric(dhcpv4.AgentRemoteIDSubOption, []byte(s)))))
		v4 = append(v4, p.ToBytes())
		// every enterprise number x option shape x placement (plain message, message inside a relay, the vendor
		// options on the relay itself): enumerated, not sampled
		for _, ent := range []uint32{0, 9, 30065, 33049, 1271, 42623} {
			for shape := 0; shape < 3; shape++ {
				for wrap := 0; wrap < 3; wrap++ {
					m := &dhcpv6.Message{MessageType: dhcpv6.MessageTypeSolicit}
					vc := &dhcpv6.OptVendorClass{EnterpriseNumber: ent, Data: [][]byte{[]byte(s)}}
					vo := &dhcpv6.OptVendorOpts{EnterpriseNumber: ent, VendorOpts: dhcpv6.Options{
						&dhcpv6.OptionGeneric{OptionCode: 1, OptionData: []byte(s)}, &dhcpv6.OptionGeneric{OptionCode: 5, OptionData: []byte(s)},
						&dhcpv6.OptionGeneric{OptionCode: 6, OptionData: []byte(s)}}}
					add := func(x interface{ AddOption(dhcpv6.Option) }) {
						switch shape {
						case 0:
							x.AddOption(vc)
						case 1:
							x.AddOption(vo)
						default:
							x.AddOption(vc)
							x.AddOption(&dhcpv6.OptVendorOpts{EnterpriseNumber: ent})
						}
					}
					if wrap != 2 {
						add(m)
					}
					if (int(ent)+shape+wrap)%2 == 0 {
						m.AddOption(dhcpv6.OptClientID(rduid(rng)))
					}
					var d dhcpv6.DHCPv6 = m
					if wrap > 0 {
						r, _ := dhcpv6.EncapsulateRelay(m, dhcpv6.MessageTypeRelayForward, rip6(rng), rip6(rng))
						r.AddOption(&dhcpv6.OptRemoteID{EnterpriseNumber: ent, RemoteID: []byte(s)})
						r.AddOption(dhcpv6.OptInterfaceID([]byte(s)))
						if wrap == 2 {
							add(r)
						}
						d = r
					}
					v6 = append(v6, d.ToBytes())
				}
			}
		}
	}
	return
}

func genC03(o *Out, rng *rand.Rand, tier string) {
	log.SetOutput(io.Discard) // the netboot package logs through the standard logger
	n := 400
	if tier == "thorough" {
		n = 8000
	}
	emit := func(entry string, in []byte, steps int, bad []string, cls string) {
		rec := map[string]any{"op": "Run", "entry": entry, "steps": steps, "bad": bad, "len": len(in)}
		if len(in) <= 600 {
			rec["in"] = B(in)
		} else {
			rec["in"] = B(in[:600])
		}
		if bad == nil {
			rec["bad"] = []string{}
		}
		o.Emit(rec, cls, append([]byte(entry), in...), steps > 1)
		if hung {
			o.Close(o.extra)
			os.Exit(0)
		}
	}
	tryV4 := func(in []byte, cls string) {
		var bad []string
		steps := 1
		var p *dhcpv4.DHCPv4
		var perr error
		if s := probe("dhcpv4.FromBytes", func() { p, perr = dhcpv4.FromBytes(append([]byte(nil), in...)) }); s != "" {
			bad = append(bad, s)
		} else if perr == nil && p != nil && len(in) <= 4096 {
			useV4(p, &bad, &steps)
		}
		emit("dhcpv4.FromBytes", in, steps, bad, cls)
	}
	tryV6 := func(in []byte, cls string) {
		var bad []string
		steps := 1
		var d dhcpv6.DHCPv6
		var derr error
		if s := probe("dhcpv6.FromBytes", func() { d, derr = dhcpv6.FromBytes(append([]byte(nil), in...)) }); s != "" {
			bad = append(bad, s)
		} else if derr == nil && d != nil && len(in) <= 4096 {
			useV6(d, &bad, &steps)
		}
		steps++
		if s := probe("MessageFromBytes", func() { dhcpv6.MessageFromBytes(append([]byte(nil), in...)) }); s != "" {
			bad = append(bad, s)
		}
		steps++
		if s := probe("RelayMessageFromBytes", func() { dhcpv6.RelayMessageFromBytes(append([]byte(nil), in...)) }); s != "" {
			bad = append(bad, s)
		}
		emit("dhcpv6.FromBytes", in, steps, bad, cls)
	}
	trySmall := func(in []byte, cls string) {
		// the smaller entry points on the same bytes
		var bad []string
		steps := 0
		run := func(what string, f func()) {
			steps++
			if s := probe(what, f); s != "" {
				bad = append(bad, s)
			}
		}
		run("Options.FromBytes", func() {
			o4 := dhcpv4.Options{}
			if o4.FromBytes(in) == nil {
				_ = o4.String()
				o4.ToBytes()
			}
		})
		run("DUIDFromBytes", func() {
			if d, err := dhcpv6.DUIDFromBytes(in); err == nil && d != nil {
				_ = d.String()
				d.ToBytes()
				d.Equal(d)
			}
		})
		run("rfc1035label.FromBytes", func() {
			if l, err := rfc1035label.FromBytes(in); err == nil {
				_ = l.String()
				l.ToBytes()
				l.Length()
			}
		})
		run("iana.Archs.FromBytes", func() {
			var a iana.Archs
			if a.FromBytes(in) == nil {
				_ = a.String()
				a.ToBytes()
			}
		})
		for _, c := range append(append([]int{}, v6Known...), 7, 300) {
			cc := c
			run(fmt.Sprintf("ParseOption(%d)", cc), func() {
				if opt, err := dhcpv6.ParseOption(dhcpv6.OptionCode(cc), in); err == nil {
					_ = opt.String()
					opt.ToBytes()
					if ls, ok := opt.(interface{ LongString(int) string }); ok {
						ls.LongString(2)
					}
				}
			})
		}
		run("BroadcastRawUDPConn.ReadFrom", func() {
			for _, bound := range []*net.UDPAddr{{Port: 68}, nil, {IP: net.IPv4(10, 0, 0, 1), Port: 67}} {
				sc := &scriptConn{frames: [][]byte{in, in}}
				c := nclient4.NewBroadcastUDPConn(sc, bound)
				for k := 0; k < 3; k++ {
					if _, _, err := c.ReadFrom(make([]byte, 1500)); err != nil {
						break
					}
				}
			}
		})
		emit("small-entry-points", in, steps, bad, cls)
	}
	// (i) exhaustive small scopes of the structural alphabets
	hdr4 := stdHeader4()
	var rec func(cur []byte, alpha []byte, max int, f func([]byte))
	rec = func(cur []byte, alpha []byte, max int, f func([]byte)) {
		f(cur)
		if len(cur) == max {
			return
		}
		for _, a := range alpha {
			rec(append(cur, a), alpha, max, f)
		}
	}
	rec(nil, []byte{0, 1, 2, 3, 82, 255}, 4, func(b []byte) { tryV4(append(append([]byte(nil), hdr4...), b...), "exhaustive-v4-area") })
	rec(nil, []byte{0, 1, 2, 3, 8, 255}, 4, func(b []byte) { tryV6(append([]byte{1, 1, 2, 3}, b...), "exhaustive-v6-tlv") })
	rec(nil, []byte{0, 1, 2, 3, 'a', 0xC0, 0x40}, 4, func(b []byte) { trySmall(append([]byte(nil), b...), "exhaustive-small") })
	// the name decoder on every string of its structural alphabet up to 7 bytes (8 in the thorough tier), alone
	// and behind the DHCPv6 domain-list option; one record per 3-byte prefix
	lmax := 7
	if tier == "thorough" {
		lmax = 8
	}
	lalpha := []byte{0, 1, 2, 3, 'a', 0xC0, 0x40}
	rec(nil, lalpha, 3, func(pre []byte) {
		if len(pre) < 3 {
			return
		}
		var bad []string
		steps := 0
		rec(append([]byte(nil), pre...), lalpha, lmax, func(b []byte) {
			if hung {
				return
			}
			in := append([]byte(nil), b...)
			steps++
			if s := probe("rfc1035label.FromBytes", func() {
				if l, err := rfc1035label.FromBytes(in); err == nil {
					_ = l.String()
					l.ToBytes()
				}
				if opt, err := dhcpv6.ParseOption(dhcpv6.OptionDomainSearchList, in); err == nil {
					opt.ToBytes()
				}
			}); s != "" && len(bad) < 5 {
				bad = append(bad, fmt.Sprintf("%s on %v", s, in))
			}
		})
		emit("label-scope", pre, steps, bad, "exhaustive-label")
	})
	// (ii) structural mutations of valid values of every option type
	z4, z6 := ztpCorpus(rng)
	var v4c, v6c [][]byte
	v4c = append(v4c, z4...)
	v6c = append(v6c, z6...)
	for i := 0; i < n; i++ {
		v4c = append(v4c, randPacket4(rng, rng.Intn(8), []int{0, 1, 2, 4, 5, 8, 16, 255, 300}).ToBytes())
		w, _ := wirePacket4(rng)
		v4c = append(v4c, w)
	}
	// relayed requests whose option 82 carries the sub-options of the relay RFCs (3046, 3527, 4243, 5010, 5107, 6607, Cisco's
	// pre-standard codes) with values of every small length, the empty one included: what a reply builder or an extractor
	// reads from them must be there
	for _, sc := range []int{1, 2, 4, 5, 6, 9, 10, 11, 12, 151, 152, 150, 255} {
		for l := 0; l <= 5; l++ {
			p, _ := dhcpv4.NewDiscovery(net.HardwareAddr{2, 0, 0, 0, 0, byte(sc)})
			p.GatewayIPAddr = net.IPv4(10, 0, byte(sc), 1).To4()
			sub := append([]byte{1, 3, 'e', 't', 'h', byte(sc), byte(l)}, randBytes(rng, l)...)
			if l%2 == 0 {
				sub = append(sub, 151, 1, 0)
			}
			p.Options[82] = sub
			v4c = append(v4c, p.ToBytes())
		}
	}
	v6c = append(v6c, corpus6(rng, n)...)
	for _, w := range v4c {
		tryV4(w, "valid-v4")
	}
	for _, w := range v6c {
		tryV6(w, "valid-v6")
	}
	mutate := func(w []byte) []byte {
		m := append([]byte(nil), w...)
		switch rng.Intn(6) {
		case 0:
			return m[:rng.Intn(len(m)+1)]
		case 1:
			m[rng.Intn(len(m))] = byte(pick(rng, 0, 1, 255, 254, rng.Intn(256)))
		case 2:
			i := rng.Intn(len(m))
			m[i] = byte(int(m[i]) + pick(rng, -1, 1))
		case 3: // splice a piece of another packet in
			j := rng.Intn(len(m))
			other := v6c[rng.Intn(len(v6c))]
			k := rng.Intn(len(other))
			m = append(append(append([]byte(nil), m[:j]...), other[k:]...), m[j:]...)
		case 4:
			for k := rng.Intn(4); k >= 0; k-- {
				m[rng.Intn(len(m))] = byte(rng.Intn(256))
			}
		default:
			m = append(m, randBytes(rng, rng.Intn(20))...)
		}
		if len(m) > 65507 {
			m = m[:65507]
		}
		return m
	}
	for i := 0; i < 6*n; i++ {
		tryV4(mutate(v4c[rng.Intn(len(v4c))]), "mutated-v4")
		tryV6(mutate(v6c[rng.Intn(len(v6c))]), "mutated-v6")
	}
	// single options / sub-structures through the small entry points
	for i := 0; i < 2*n; i++ {
		var in []byte
		switch i % 4 {
		case 0:
			in = randOpt6(rng, randCode6(rng), 2).ToBytes()
		case 1:
			in = randLabelWire(rng)
		case 2:
			in = randFrameSpec(rng, 68, nil).build(rng)
		default:
			in = randBytes(rng, rng.Intn(64))
		}
		if len(in) > 0 && rng.Intn(2) == 0 {
			in = mutate(in)
		}
		trySmall(in, "small-entry-points")
	}
	// frames for the bound port whose IP header carries options, one kind at a time: every option type octet followed by every
	// small length octet (0 and 1 are not lengths an option can have), alone, after padding, and running past the header
	for _, t := range []int{0, 1, 7, 68, 130, 131, 136, 137, 148, 0x94, 0x44, 255} {
		for _, l := range []int{0, 1, 2, 3, 4, 8, 40, 255} {
			for _, lead := range []int{0, 1, 3} {
				fs := randFrameSpec(rng, 68, nil)
				fs.version, fs.ihl, fs.proto, fs.dport = 4, 6+(t+l+lead)%10, 17, 68
				f := fs.build(rng)
				hl := fs.ihl * 4
				if len(f) < hl {
					continue
				}
				for i := 20; i < hl; i++ {
					f[i] = 1
				}
				if 20+lead+1 < hl {
					f[20+lead], f[20+lead+1] = byte(t), byte(l)
				}
				f[10], f[11] = 0, 0
				c := ^sum16(f[:hl])
				f[10], f[11] = byte(c>>8), byte(c)
				trySmall(f, "frames-with-ip-options")
			}
		}
	}
	// the raw connection after a long life: 70 000 frames that are not for it, then its own (child process, 8 MB stack limit)
	{
		var bad []string
		if r := rawLong(70000); r["panic"] != nil {
			bad = append(bad, fmt.Sprint("BroadcastRawUDPConn.ReadFrom after 70000 foreign frames: ", r["panic"]))
		}
		emit("BroadcastRawUDPConn.ReadFrom(long-lived connection)", []byte("70000 foreign frames, then one for the bound port"), 2, bad, "raw-long-lived")
	}
	// (ii'') concurrent use: several goroutines decode the same datagrams - each its own copy, into its own value - and
	// apply every read-only operation to their values at the same time (a server's goroutine-per-packet handlers do
	// exactly that). Run in a child process: the runtime's "concurrent map writes" is fatal, not a panic.
	{
		var items []map[string]any
		add := func(entry string, ws [][]byte, max int) {
			for i, w := range ws {
				if i >= max {
					break
				}
				if len(w) <= 2048 {
					items = append(items, map[string]any{"entry": entry, "in": B(w)})
				}
			}
		}
		add("v4", z4, 1000)
		add("v6", z6, 1000)
		add("v4", v4c[len(z4):], 150)
		add("v6", v6c[len(z6):], 300)
		steps, bad := concurrentUse(items)
		emit("concurrent-use", []byte(fmt.Sprint(len(items))), steps, bad, "concurrent-use")
	}
	// (ii') the deeply nested and the very repetitive shapes (the witness families of the cost check), small enough
	// for every read-only operation to be applied to them
	for _, sz := range []int{700, 1400, 4000} {
		for _, f := range costFamilies(rng, sz) {
			switch f.entry {
			case "v6":
				tryV6(f.in, "nested-and-repetitive")
			case "v4":
				tryV4(f.in, "nested-and-repetitive")
			default:
				trySmall(f.in, "nested-and-repetitive")
			}
		}
	}
	// (iii) large inputs up to the maximum UDP payload (decoding only for the large ones)
	for _, L := range []int{4096, 4097, 16384, 65507} {
		big := make([]byte, 0, L)
		big = append(big, 1, 2, 3, 4)
		for len(big)+8 <= L {
			big = append(big, 0, byte(pick(rng, 1, 3, 8, 23, 200)), 0, 4, 1, 2, 3, 4)
		}
		tryV6(big, "large")
		b4 := append([]byte(nil), hdr4...)
		for len(b4)+6 <= L {
			b4 = append(b4, byte(1+rng.Intn(200)), 4, 1, 2, 3, 4)
		}
		b4 = append(b4, 255)
		tryV4(b4, "large")
		tryV6(randBytes(rng, L), "large-random")
		tryV4(append(append([]byte(nil), hdr4...), randBytes(rng, L-240)...), "large-random")
	}
	// (iv) netboot conversations enumerated by TLC (file in VH_CASES)
	if path := os.Getenv("VH_CASES"); path != "" {
		f, err := os.Open(path)
		if err != nil {
			panic(err)
		}
		sc := bufio.NewScanner(f)
		sc.Buffer(make([]byte, 1<<20), 1<<26)
		for sc.Scan() {
			line := sc.Text()
			i := strings.Index(line, "{")
			if i < 0 {
				continue
			}
			var c struct {
				Proto int              `json:"proto"`
				Conv  []map[string]any `json:"conv"`
			}
			if err := json.Unmarshal([]byte(line[i:]), &c); err != nil {
				panic(err)
			}
			outcome := "ok"
			what := ""
			if c.Proto == 6 {
				var conv []dhcpv6.DHCPv6
				for _, k := range c.Conv {
					conv = append(conv, mkNetboot6(rng, k))
				}
				what = probe("netboot.ConversationToNetconf", func() {
					if _, err := netboot.ConversationToNetconf(conv); err != nil {
						outcome = "err"
					}
				})
			} else {
				var conv []*dhcpv4.DHCPv4
				for _, k := range c.Conv {
					conv = append(conv, mkNetboot4(rng, k))
				}
				what = probe("netboot.ConversationToNetconfv4", func() {
					if _, err := netboot.ConversationToNetconfv4(conv); err != nil {
						outcome = "err"
					}
				})
			}
			if what != "" {
				outcome = what
			}
			convAny := make([]any, 0, len(c.Conv))
			for _, k := range c.Conv {
				convAny = append(convAny, k)
			}
			key, _ := json.Marshal(c)
			o.Emit(map[string]any{"op": "Netboot", "proto": c.Proto, "conv": convAny, "outcome": outcome}, "tlc-conversation", key, len(c.Conv) > 0)
		}
		f.Close()
	}
}

func mkNetboot6(rng *rand.Rand, k map[string]any) dhcpv6.DHCPv6 {
	t := k["t"].(string)
	m := &dhcpv6.Message{}
	copy(m.TransactionID[:], randBytes(rng, 3))
	switch t {
	case "solicit":
		m.MessageType = dhcpv6.MessageTypeSolicit
	case "advertise":
		m.MessageType = dhcpv6.MessageTypeAdvertise
	case "request":
		m.MessageType = dhcpv6.MessageTypeRequest
	case "reply":
		m.MessageType = dhcpv6.MessageTypeReply
	}
	if k["iana"].(bool) {
		ia := &dhcpv6.OptIANA{}
		ia.Options.Options = dhcpv6.Options{&dhcpv6.OptIAAddress{IPv6Addr: net.ParseIP("2001:db8::5"), PreferredLifetime: time.Hour, ValidLifetime: time.Hour}}
		m.AddOption(ia)
	}
	if k["url"].(bool) {
		m.AddOption(dhcpv6.OptBootFileURL("http://[2001:db8::1]/boot.efi"))
		if rng.Intn(2) == 0 {
			m.AddOption(dhcpv6.OptBootFileParam("a", "b"))
		}
	}
	if rng.Intn(2) == 0 {
		m.AddOption(dhcpv6.OptDNS(net.ParseIP("2001:db8::53")))
	}
	if k["relay"].(bool) {
		r, _ := dhcpv6.EncapsulateRelay(m, dhcpv6.MessageTypeRelayForward, net.IPv6loopback, net.IPv6loopback)
		return r
	}
	return m
}

func mkNetboot4(rng *rand.Rand, k map[string]any) *dhcpv4.DHCPv4 {
	mt := map[string]dhcpv4.MessageType{"discover": dhcpv4.MessageTypeDiscover, "offer": dhcpv4.MessageTypeOffer,
		"request": dhcpv4.MessageTypeRequest, "ack": dhcpv4.MessageTypeAck}[k["t"].(string)]
	p, _ := dhcpv4.New(dhcpv4.WithMessageType(mt))
	if k["reply"].(bool) {
		p.OpCode = dhcpv4.OpcodeBootReply
	}
	if k["yi"].(bool) {
		p.YourIPAddr = net.IPv4(10, 0, 0, 5)
	}
	if k["mask"].(bool) {
		p.UpdateOption(dhcpv4.OptSubnetMask(net.CIDRMask(24, 32)))
	}
	if k["router"].(bool) {
		p.UpdateOption(dhcpv4.OptRouter(net.IPv4(10, 0, 0, 1)))
	}
	p.BootFileName = "pxelinux.0"
	return p
}


// concurrentUse hands the inputs to a child process (vh concur <file>) and reports how it ended.
func concurrentUse(items []map[string]any) (steps int, bad []string) {
	f, err := os.CreateTemp("", "vh-concur-*")
	if err != nil {
		panic(err)
	}
	defer os.Remove(f.Name())
	w := bufio.NewWriter(f)
	for _, it := range items {
		b, _ := json.Marshal(it)
		w.Write(b)
		w.WriteByte('\n')
	}
	w.Flush()
	f.Close()
	ctx, cancel := context.WithTimeout(context.Background(), 300*time.Second)
	defer cancel()
	bin := os.Args[0]
	if b := os.Getenv("VH_RACE_BIN"); b != "" {
		bin = b // built with -race: shared state touched without synchronisation is reported even when the accesses do not collide
	}
	cmd := exec.CommandContext(ctx, bin, "concur", f.Name())
	cmd.Env = append(os.Environ(), "GORACE=halt_on_error=1")
	out, err := cmd.CombinedOutput()
	text := string(out)
	if err != nil {
		if i := strings.Index(text, "fatal error"); i >= 0 {
			text = text[i:]
		}
		if i := strings.Index(text, "WARNING: DATA RACE"); i >= 0 {
			text = text[i:]
		}
		if len(text) > 700 {
			text = text[:700]
		}
		return len(items), []string{"concurrent read-only use of independently decoded values: " + err.Error() + ": " + strings.Join(strings.Fields(text), " ")}
	}
	var r struct{ Steps int; Bad []string }
	i := strings.LastIndex(text, "RESULT ")
	if i < 0 || json.Unmarshal(out[i+7:], &r) != nil {
		return len(items), []string{"concurrent use: unreadable result: " + text[:min(len(text), 300)]}
	}
	return r.Steps, r.Bad
}

// concurMain is the child: for every input six goroutines hold their own decoding of it; every read-only operation is
// then run by all of them at the same moment, a few times over (start barrier per operation: the calls overlap).
func concurMain(path string) {
	log.SetOutput(io.Discard)
	f, err := os.Open(path)
	if err != nil {
		panic(err)
	}
	sc := bufio.NewScanner(f)
	sc.Buffer(make([]byte, 1<<20), 1<<24)
	total := 0
	nitem := 0
	var mu sync.Mutex
	var allBad []string
	const G = 6
	for sc.Scan() {
		var it struct {
			Entry string
			In    []int
		}
		if json.Unmarshal(sc.Bytes(), &it) != nil {
			continue
		}
		in := make([]byte, len(it.In))
		for i, x := range it.In {
			in[i] = byte(x)
		}
		ops := make([][]namedOp, G)
		for g := 0; g < G; g++ { // every goroutine's own value and its own list of operations on it
			buf := append([]byte(nil), in...)
			var bad []string
			steps := 0
			collectOps = &ops[g]
			switch it.Entry {
			case "v4":
				if p, err := dhcpv4.FromBytes(buf); err == nil {
					// decoding and encoding are operations like the others: datagrams are decoded side by side
					ops[g] = append(ops[g], namedOp{"dhcpv4.FromBytes", func() { dhcpv4.FromBytes(append([]byte(nil), buf...)) }},
						namedOp{"ToBytes", func() { p.ToBytes() }})
					useV4(p, &bad, &steps)
				}
			default:
				if d, err := dhcpv6.FromBytes(buf); err == nil {
					ops[g] = append(ops[g], namedOp{"dhcpv6.FromBytes", func() { dhcpv6.FromBytes(append([]byte(nil), buf...)) }},
						namedOp{"ToBytes", func() { d.ToBytes() }})
					useV6(d, &bad, &steps)
				}
			}
			collectOps = nil
		}
		nitem++
		for i := range ops[0] {
			var start, done sync.WaitGroup
			start.Add(1)
			for g := 0; g < G; g++ {
				if i >= len(ops[g]) {
					continue
				}
				op := ops[g][i]
				if nitem%2 == 0 && g%2 == 1 {
					// every other datagram: the goroutines work in pairs on ONE decoded value (reading a value from several
					// goroutines - a handler and a logger, say - needs no lock as long as everybody only reads)
					op = ops[g-1][i]
				}
				done.Add(1)
				go func() {
					defer done.Done()
					defer func() {
						if r := recover(); r != nil {
							mu.Lock()
							if len(allBad) < 5 {
								allBad = append(allBad, fmt.Sprintf("%s: panic: %v", op.what, r))
							}
							mu.Unlock()
						}
					}()
					start.Wait()
					for k := 0; k < 4; k++ {
						op.f()
					}
				}()
			}
			start.Done()
			done.Wait()
			total += G
		}
	}
	b, _ := json.Marshal(map[string]any{"Steps": total, "Bad": allBad})
	os.Stdout.WriteString("RESULT ")
	os.Stdout.Write(b)
}
