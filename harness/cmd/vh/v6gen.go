package main

import (
	"sync"
	"encoding/json"
	"fmt"
	"math/rand"
	"net"
	"time"

	"github.com/insomniacslk/dhcp/dhcpv4"
	"github.com/insomniacslk/dhcp/dhcpv6"
	"github.com/insomniacslk/dhcp/iana"
	"github.com/insomniacslk/dhcp/rfc1035label"
)

func init() {
	gens["c02"] = genC02
	gens["c05"] = genC05
	gens["c06v6"] = genC06v6
}

// every option code the specification's layout table knows (spec/Dhcp6Wire.tla KnownCodes)
var v6Known = []int{1, 2, 3, 4, 5, 6, 8, 9, 13, 15, 16, 17, 18, 23, 24, 25, 26, 32, 37, 39, 56, 59, 60, 61, 62, 79, 87, 88, 97, 98, 99, 135}

func rsecs(rng *rand.Rand) time.Duration {
	return time.Duration(pick(rng, 0, 1, 3600, 86400, 0x7fffffff, 0xffffffff, 0xfffffffe, rng.Intn(1<<31))) * time.Second
}
func rip6(rng *rand.Rand) net.IP {
	switch rng.Intn(6) {
	case 5:
		return net.IPv4(192, 168, byte(rng.Intn(256)), 1).To4() // 4-byte form of an address: goes on the wire v4-mapped
	case 0:
		return net.IPv6unspecified
	case 1:
		return net.ParseIP("2001:db8::1")
	case 2:
		return net.IPv4(10, 0, 0, byte(rng.Intn(256))) // v4-mapped, 16 bytes
	default:
		return net.IP(randBytes(rng, 16))
	}
}
// rdata: the content of a variable-length field. With rdataSize set, every such field of the value being built has
// that size (the boundary sizes of every variable-length field of every option type are visited that way).
var rdataSize = -1

func rdata(rng *rand.Rand) []byte {
	if rdataSize >= 0 {
		return randBytes(rng, rdataSize)
	}
	b := randBytes(rng, pick(rng, 0, 1, 2, 6, 16, rng.Intn(40)))
	switch rng.Intn(12) { // values that end (or begin) with what a string routine would trim
	case 0:
		b = append(b, 0)
	case 1:
		b = append(b, 0, 0)
	case 2:
		b = append(b, ' ')
	case 3:
		b = append([]byte{0}, b...)
	}
	return b
}
// rhwtype: hardware types from the IANA registry (Ethernet, IEEE 802, EUI-64, InfiniBand, ...) and beyond it
func rhwtype(rng *rand.Rand) iana.HWType {
	return iana.HWType(pick(rng, 1, 1, 6, 27, 27, 32, 0, 37, 65535, rng.Intn(40), rng.Intn(65536)))
}

// rhwaddr: link-layer addresses of every length a hardware type could have, and shorter
func rhwaddr(rng *rand.Rand) []byte {
	if rdataSize >= 0 {
		return randBytes(rng, rdataSize)
	}
	return randBytes(rng, pick(rng, 6, 8, 6, 8, 0, 1, 2, 3, 4, 5, 7, 16, 20, rng.Intn(24)))
}

var rduidKind = -1 // >= 0: the kind of DUID to build

func rduid(rng *rand.Rand) dhcpv6.DUID {
	k := rng.Intn(5)
	if rduidKind >= 0 {
		k = rduidKind
	}
	switch k {
	case 0:
		return &dhcpv6.DUIDLLT{HWType: rhwtype(rng), Time: uint32(rng.Int63()), LinkLayerAddr: rhwaddr(rng)}
	case 1:
		return &dhcpv6.DUIDEN{EnterpriseNumber: uint32(rng.Int63()), EnterpriseIdentifier: rdata(rng)}
	case 2:
		return &dhcpv6.DUIDLL{HWType: rhwtype(rng), LinkLayerAddr: rhwaddr(rng)}
	case 3:
		d := &dhcpv6.DUIDUUID{}
		copy(d.UUID[:], randBytes(rng, 16))
		return d
	default:
		return &dhcpv6.DUIDOpaque{Type: dhcpv6.DUIDType(pick(rng, 0, 5, 255, 65535)), Data: rdata(rng)}
	}
}
func rlabels(rng *rand.Rand) *rfc1035label.Labels {
	ns := make([]string, rng.Intn(4))
	for i := range ns {
		ns[i] = randName(rng)
		if rng.Intn(10) == 0 {
			ns[i] = "" // the root: a name of no labels
		}
	}
	return &rfc1035label.Labels{Labels: ns}
}
func ritems(rng *rand.Rand, min int) [][]byte {
	bs := make([][]byte, min+rng.Intn(3))
	for i := range bs {
		bs[i] = rdata(rng)
	}
	return bs
}

// randOpt6 builds an option of the given code with fields over their representable domain.
func randOpt6(rng *rand.Rand, code int, depth int) dhcpv6.Option {
	sub := func(allowed ...int) dhcpv6.Options {
		var os dhcpv6.Options
		if depth <= 0 {
			return os
		}
		for k := rng.Intn(3); k > 0; k-- {
			os = append(os, randOpt6(rng, allowed[rng.Intn(len(allowed))], depth-1))
		}
		return os
	}
	switch code {
	case 1:
		return dhcpv6.OptClientID(rduid(rng))
	case 2:
		return dhcpv6.OptServerID(rduid(rng))
	case 3:
		o := &dhcpv6.OptIANA{T1: rsecs(rng), T2: rsecs(rng)}
		copy(o.IaId[:], randBytes(rng, 4))
		o.Options.Options = sub(5, 13, 5, 200, 8, 23)
		return o
	case 4:
		o := &dhcpv6.OptIATA{}
		copy(o.IaId[:], randBytes(rng, 4))
		o.Options.Options = sub(5, 13)
		return o
	case 5:
		o := &dhcpv6.OptIAAddress{IPv6Addr: rip6(rng), PreferredLifetime: rsecs(rng), ValidLifetime: rsecs(rng)}
		o.Options.Options = sub(13, 201, 8, 23, 6, 32, 1)
		return o
	case 6:
		n := rng.Intn(6)
		seen := map[int]bool{}
		var cs []dhcpv6.OptionCode
		for len(cs) < n {
			c := pick(rng, 23, 24, 59, 0, 65535, rng.Intn(65536))
			if !seen[c] {
				seen[c] = true
				cs = append(cs, dhcpv6.OptionCode(c))
			}
		}
		return dhcpv6.OptRequestedOption(cs...)
	case 8:
		return dhcpv6.OptElapsedTime(time.Duration(pick(rng, 0, 1, 100, 65535, 6554, rng.Intn(65536))) * 10 * time.Millisecond)
	case 9:
		return dhcpv6.OptRelayMessage(randMsg6(rng, depth-1, 0))
	case 13:
		return &dhcpv6.OptStatusCode{StatusCode: iana.StatusCode(pick(rng, 0, 1, 6, 65535)), StatusMessage: string(rdata(rng))}
	case 15:
		return &dhcpv6.OptUserClass{UserClasses: ritems(rng, 1)}
	case 16:
		return &dhcpv6.OptVendorClass{EnterpriseNumber: uint32(rng.Int63()), Data: ritems(rng, 1)}
	case 17:
		o := &dhcpv6.OptVendorOpts{EnterpriseNumber: uint32(rng.Int63())}
		for k := rng.Intn(3); k > 0; k-- {
			o.VendorOpts = append(o.VendorOpts, &dhcpv6.OptionGeneric{OptionCode: dhcpv6.OptionCode(pick(rng, 1, 3, 8, 9, 65535)), OptionData: rdata(rng)})
		}
		return o
	case 18:
		return dhcpv6.OptInterfaceID(rdata(rng))
	case 23:
		ips := make([]net.IP, rng.Intn(3))
		for i := range ips {
			ips[i] = rip6(rng)
		}
		return dhcpv6.OptDNS(ips...)
	case 24:
		return dhcpv6.OptDomainSearchList(rlabels(rng))
	case 25:
		o := &dhcpv6.OptIAPD{T1: rsecs(rng), T2: rsecs(rng)}
		copy(o.IaId[:], randBytes(rng, 4))
		o.Options.Options = sub(26, 13, 26, 8, 18)
		return o
	case 26:
		o := &dhcpv6.OptIAPrefix{PreferredLifetime: rsecs(rng), ValidLifetime: rsecs(rng)}
		if rng.Intn(6) > 0 {
			plen := pick(rng, 1, 48, 56, 64, 127, 128, 1+rng.Intn(128))
			o.Prefix = &net.IPNet{IP: net.IP(randBytes(rng, 16)), Mask: net.CIDRMask(plen, 128)}
		}
		o.Options.Options = sub(13, 202, 8, 23, 24, 62)
		return o
	case 32:
		return dhcpv6.OptInformationRefreshTime(rsecs(rng))
	case 37:
		return &dhcpv6.OptRemoteID{EnterpriseNumber: uint32(rng.Int63()), RemoteID: rdata(rng)}
	case 39:
		return &dhcpv6.OptFQDN{Flags: uint8(rng.Intn(256)), DomainName: rlabels(rng)}
	case 56:
		o := &dhcpv6.OptNTPServer{}
		for k := rng.Intn(4); k > 0; k-- {
			switch rng.Intn(4) {
			case 0:
				a := dhcpv6.NTPSuboptionSrvAddr(rip6(rng).To16())
				o.Suboptions = append(o.Suboptions, &a)
			case 1:
				a := dhcpv6.NTPSuboptionMCAddr(rip6(rng).To16())
				o.Suboptions = append(o.Suboptions, &a)
			case 2:
				o.Suboptions = append(o.Suboptions, &dhcpv6.NTPSuboptionSrvFQDN{Labels: *rlabels(rng)})
			default:
				o.Suboptions = append(o.Suboptions, &dhcpv6.OptionGeneric{OptionCode: dhcpv6.OptionCode(4 + rng.Intn(100)), OptionData: rdata(rng)})
			}
		}
		return o
	case 59:
		return dhcpv6.OptBootFileURL(string(rdata(rng)))
	case 60:
		ps := make([]string, rng.Intn(3))
		for i := range ps {
			ps[i] = string(rdata(rng))
		}
		return dhcpv6.OptBootFileParam(ps...)
	case 61:
		as := make([]iana.Arch, 1+rng.Intn(3))
		for i := range as {
			as[i] = iana.Arch(pick(rng, 0, 7, 9, 65535, rng.Intn(65536)))
		}
		return dhcpv6.OptClientArchType(as...)
	case 62:
		return &dhcpv6.OptNetworkInterfaceID{Typ: dhcpv6.NetworkInterfaceType(rng.Intn(256)), Major: uint8(rng.Intn(256)), Minor: uint8(rng.Intn(256))}
	case 79:
		return dhcpv6.OptClientLinkLayerAddress(rhwtype(rng), net.HardwareAddr(rhwaddr(rng)))
	case 87:
		p := randPacket4(rng, rng.Intn(4), []int{0, 1, 4, 255, 256})
		if p.Options == nil {
			p.Options = dhcpv4.Options{}
		}
		return &dhcpv6.OptDHCPv4Msg{Msg: p}
	case 88:
		ips := make([]net.IP, rng.Intn(3))
		for i := range ips {
			ips[i] = rip6(rng)
		}
		return &dhcpv6.OptDHCP4oDHCP6Server{DHCP4oDHCP6Servers: ips}
	case 97:
		o := &dhcpv6.Opt4RD{}
		o.Options = sub(98, 99, 98)
		return o
	case 98:
		return &dhcpv6.Opt4RDMapRule{
			Prefix4:       net.IPNet{IP: ipForm(rng, net.IP(randBytes(rng, 4))), Mask: net.CIDRMask(pick(rng, 0, 1, 24, 32, rng.Intn(33)), 32)},
			Prefix6:       net.IPNet{IP: net.IP(randBytes(rng, 16)), Mask: net.CIDRMask(pick(rng, 0, 1, 64, 128, rng.Intn(129)), 128)},
			EABitsLength:  uint8(rng.Intn(256)),
			WKPAuthorized: rng.Intn(2) == 0,
		}
	case 99:
		o := &dhcpv6.Opt4RDNonMapRule{HubAndSpoke: rng.Intn(2) == 0, DomainPMTU: uint16(rng.Intn(65536))}
		if rng.Intn(2) == 0 {
			tc := uint8(rng.Intn(256))
			o.TrafficClass = &tc
		}
		return o
	case 135:
		return dhcpv6.OptRelayPort(uint16(rng.Intn(65536)))
	}
	if v, ok := untyped6(rng, code); ok && rng.Intn(3) > 0 {
		return &dhcpv6.OptionGeneric{OptionCode: dhcpv6.OptionCode(code), OptionData: v}
	}
	return &dhcpv6.OptionGeneric{OptionCode: dhcpv6.OptionCode(code), OptionData: rdata(rng)}
}

// untypedCodes6: options of RFC 8415 and its companions that the library carries as opaque values
var untypedCodes6 = []int{7, 11, 12, 14, 19, 20, 21, 22, 31, 43, 64, 82, 83}

// untyped6: a well-formed value of such an option, as its RFC lays it out (the library has no type for it, a change
// that starts to look inside must still carry it verbatim)
func untyped6(rng *rand.Rand, code int) ([]byte, bool) {
	u32 := func() []byte { return randBytes(rng, 4) }
	switch code {
	case 7: // preference
		return []byte{byte(pick(rng, 0, 1, 255, rng.Intn(256)))}, true
	case 11: // authentication: protocol, algorithm, RDM, replay detection, information (RKAP: type + 16-octet key / HMAC)
		v := append([]byte{byte(pick(rng, 3, 3, 2, 1, 0)), byte(pick(rng, 1, 0)), 0}, randBytes(rng, 8)...)
		switch v[0] {
		case 3:
			v = append(append(v, byte(pick(rng, 1, 2))), randBytes(rng, 16)...)
		case 2:
			v = append(append(append(v, randBytes(rng, 4)...), u32()...), randBytes(rng, 16)...)
		}
		return v, true
	case 12: // server unicast
		return []byte(rip6(rng).To16()), true
	case 14, 20: // rapid commit, reconfigure accept
		return []byte{}, true
	case 19: // reconfigure message
		return []byte{byte(pick(rng, 5, 6, 11))}, true
	case 43: // relay agent echo request: option codes
		var v []byte
		for k := rng.Intn(4); k > 0; k-- {
			c := pick(rng, 37, 18, 79, 38, 135, rng.Intn(200))
			v = append(v, byte(c>>8), byte(c))
		}
		return v, true
	case 82, 83: // SOL_MAX_RT, INF_MAX_RT
		return u32(), true
	case 22, 31: // SIP / SNTP server addresses
		var v []byte
		for k := 1 + rng.Intn(2); k > 0; k-- {
			v = append(v, rip6(rng).To16()...)
		}
		return v, true
	case 21, 64: // SIP domain names, AFTR name
		return (&rfc1035label.Labels{Labels: []string{randName(rng)}}).ToBytes(), true
	}
	return nil, false
}

func randCode6(rng *rand.Rand) int {
	if rng.Intn(5) == 0 {
		return pick(rng, 0, 100, 200, 1000, 65535, untypedCodes6[rng.Intn(len(untypedCodes6))], untypedCodes6[rng.Intn(len(untypedCodes6))]) // unknown / untyped codes
	}
	return v6Known[rng.Intn(len(v6Known))]
}

// randMsg6 builds a message (relayDepth 0) or a relay chain around one.
func randMsg6(rng *rand.Rand, depth int, relayDepth int) dhcpv6.DHCPv6 {
	m := &dhcpv6.Message{MessageType: dhcpv6.MessageType(pick(rng, 1, 2, 3, 7, 11, 0, 14, 20, 21, 255, 1+rng.Intn(11), 14+rng.Intn(242)))}
	copy(m.TransactionID[:], rxid(rng, 3))
	for k := pick(rng, 0, 1, 2, 3, 5, rng.Intn(21)); k > 0; k-- {
		c := randCode6(rng)
		if c == 9 {
			c = 8
		}
		m.AddOption(randOpt6(rng, c, depth))
	}
	var d dhcpv6.DHCPv6 = m
	for i := 0; i < relayDepth; i++ {
		r := &dhcpv6.RelayMessage{MessageType: dhcpv6.MessageType(12 + rng.Intn(2)), HopCount: uint8(pick(rng, i, 0, 255)),
			LinkAddr: rip6(rng), PeerAddr: rip6(rng)}
		for k := rng.Intn(3); k > 0; k-- {
			r.AddOption(randOpt6(rng, pick(rng, 18, 37, 79, 135, 300), 1))
		}
		r.AddOption(dhcpv6.OptRelayMessage(d))
		for k := rng.Intn(2); k > 0; k-- {
			r.AddOption(randOpt6(rng, pick(rng, 18, 37), 1))
		}
		d = r
	}
	return d
}

func enc6(d dhcpv6.DHCPv6) (b []byte, perr any) {
	defer func() {
		if r := recover(); r != nil {
			perr = fmt.Sprint(r)
		}
	}()
	b = d.ToBytes()
	laterEncodings()
	return b, nil
}

func countTypes(v any, counts map[int]int) {
	switch x := v.(type) {
	case map[string]any:
		if c, ok := x["c"].(int); ok {
			counts[c]++
		}
		for _, y := range x {
			countTypes(y, counts)
		}
	case []any:
		for _, y := range x {
			countTypes(y, counts)
		}
	}
}

// genC02: value -> ToBytes -> FromBytes.
func genC02(o *Out, rng *rand.Rand, tier string) {
	n := 1200
	if tier == "thorough" {
		n = 20000
	}
	counts := map[int]int{}
	type held struct {
		val map[string]any
		w   []byte
	}
	var ring []held
	nemit := 0
	emit := func(d dhcpv6.DHCPv6, cls string) {
		val := proj6(d)
		countTypes(val, counts)
		nemit++
		if nemit%3 == 0 { // a message is logged before it is sent, as often as not
			func() {
				defer func() { recover() }()
				_ = d.Summary()
				_ = d.String()
			}()
		}
		w, perr := enc6(d)
		rec := map[string]any{"op": "RT6", "val": val}
		if perr != nil {
			rec["wire"], rec["out"] = []int{}, map[string]any{"panic": perr}
		} else {
			rec["wire"] = B(w)
			out, _ := dec6(w)
			rec["out"] = out
		}
		o.Emit(rec, cls, w, len(w) > 4)
		// the bytes returned earlier must still decode to their message after later encodings
		// (the slice itself is kept, not a copy)
		if perr == nil {
			ring = append(ring, held{val, w})
			if len(ring) > 3 {
				h := ring[0]
				ring = ring[1:]
				out, _ := dec6(h.w)
				o.Emit(map[string]any{"op": "RT6", "val": h.val, "wire": B(h.w), "out": out}, "decoded-after-later-encodings", append([]byte("late"), h.w...), len(h.w) > 4)
			}
		}
	}
	// every known option type alone, several times (boundary field values come from the field generators)
	for _, c := range v6Known {
		for k := 0; k < 8; k++ {
			m := &dhcpv6.Message{MessageType: dhcpv6.MessageTypeReply}
			copy(m.TransactionID[:], rxid(rng, 3))
			m.AddOption(randOpt6(rng, c, 2))
			emit(m, "single-option")
		}
	}
	// every message type the first octet can name (relay types apart), with transaction ids of all shapes, alone and
	// behind a relay: the header is carried verbatim whatever the type means
	for mt := 0; mt < 256; mt++ {
		if mt == 12 || mt == 13 {
			continue
		}
		for _, xid := range [][]byte{{0xff, 0xff, 0xff}, {0x7f, 0x00, 0x01}, randBytes(rng, 3)} {
			m := &dhcpv6.Message{MessageType: dhcpv6.MessageType(mt)}
			copy(m.TransactionID[:], xid)
			m.AddOption(dhcpv6.OptElapsedTime(0))
			if mt%3 == 0 {
				r, _ := dhcpv6.EncapsulateRelay(m, dhcpv6.MessageTypeRelayForward, net.ParseIP("2001:db8::1"), net.ParseIP("fe80::1"))
				emit(r, "message-types")
			} else {
				emit(m, "message-types")
			}
		}
	}
	// relay chains of 2..6 hops around messages of 0.5 .. 4 kB (an encoder that sizes its buffer for the common case
	// meets a chain that does not fit), with relay options before and after the relayed message
	for hops := 2; hops <= 6; hops++ {
		for _, size := range []int{500, 900, 1100, 2100, 4200} {
			m := &dhcpv6.Message{MessageType: dhcpv6.MessageTypeRequest}
			copy(m.TransactionID[:], rxid(rng, 3))
			m.AddOption(randOpt6(rng, 1, 1))
			m.AddOption(randOpt6(rng, 3, 2))
			for len(m.ToBytes()) < size {
				m.AddOption(&dhcpv6.OptionGeneric{OptionCode: dhcpv6.OptionCode(200 + rng.Intn(50)), OptionData: randBytes(rng, 100+rng.Intn(200))})
			}
			var d dhcpv6.DHCPv6 = m
			for k := 0; k < hops; k++ {
				r, _ := dhcpv6.EncapsulateRelay(d, dhcpv6.MessageTypeRelayForward, rip6(rng), rip6(rng))
				if k%2 == 0 {
					r.Options.Options = append(dhcpv6.Options{dhcpv6.OptInterfaceID(randBytes(rng, 1+rng.Intn(40)))}, r.Options.Options...)
				} else {
					r.AddOption(&dhcpv6.OptRemoteID{EnterpriseNumber: 9, RemoteID: randBytes(rng, rng.Intn(60))})
				}
				d = r
			}
			emit(d, "large-relay-chains")
		}
	}
	// every combination of zero and non-zero among the numeric fields of the identity associations (zero has a meaning
	// of its own for each of them - "left to the client", "no longer valid" - and none of them is the codec's business)
	for mask := 0; mask < 32; mask++ {
		z := func(bit int, v time.Duration) time.Duration {
			if mask>>uint(bit)&1 == 1 {
				return 0
			}
			return v
		}
		addr := &dhcpv6.OptIAAddress{IPv6Addr: net.ParseIP("2001:db8::9"), PreferredLifetime: z(2, 1800*time.Second), ValidLifetime: z(3, 3600*time.Second)}
		if mask>>4&1 == 1 {
			addr.PreferredLifetime, addr.ValidLifetime = 0xffffffff*time.Second, 0xffffffff*time.Second
		}
		ia := &dhcpv6.OptIANA{T1: z(0, 900*time.Second), T2: z(1, 1440*time.Second)}
		ia.IaId = [4]byte{1, 2, 3, byte(mask)}
		ia.Options.Options = dhcpv6.Options{addr}
		pfx := &dhcpv6.OptIAPrefix{PreferredLifetime: addr.PreferredLifetime, ValidLifetime: addr.ValidLifetime,
			Prefix: &net.IPNet{IP: net.ParseIP("2001:db8:1::"), Mask: net.CIDRMask(48, 128)}}
		pd := &dhcpv6.OptIAPD{T1: ia.T1, T2: ia.T2}
		pd.IaId = [4]byte{4, 3, 2, byte(mask)}
		pd.Options.Options = dhcpv6.Options{pfx}
		m := &dhcpv6.Message{MessageType: dhcpv6.MessageTypeReply}
		copy(m.TransactionID[:], rxid(rng, 3))
		m.AddOption(ia)
		m.AddOption(pd)
		m.AddOption(dhcpv6.OptElapsedTime(0))
		m.AddOption(dhcpv6.OptInformationRefreshTime(z(0, 600*time.Second)))
		emit(m, "zero-and-nonzero-fields")
	}
	// numeric fields swept densely: a conversion that is wrong for a few per cent of the values (floating point, a
	// narrowing cast, a sign) is met for certain, not by luck
	{
		step16, nd := 37, 400
		if tier == "thorough" {
			step16, nd = 1, 6000
		}
		one := func(o dhcpv6.Option) {
			m := &dhcpv6.Message{MessageType: dhcpv6.MessageTypeRenew}
			copy(m.TransactionID[:], rxid(rng, 3))
			m.AddOption(o)
			emit(m, "numeric-sweep")
		}
		for u := 0; u < 65536; u += step16 {
			one(dhcpv6.OptElapsedTime(time.Duration(u) * 10 * time.Millisecond))
			one(dhcpv6.OptRelayPort(uint16(u)))
			one(dhcpv6.OptClientArchType(iana.Arch(u)))
			one(dhcpv6.OptRequestedOption(dhcpv6.OptionCode(u), dhcpv6.OptionCode(65535-u)))
			one(&dhcpv6.OptStatusCode{StatusCode: iana.StatusCode(u)})
		}
		for _, u := range []int{65535, 65534, 32768, 32767, 256, 255} {
			one(dhcpv6.OptElapsedTime(time.Duration(u) * 10 * time.Millisecond))
		}
		for k := 0; k < nd; k++ { // 32-bit second counts: powers of two and their neighbours, and random ones
			secs := uint32(1)<<uint(k%32) + uint32(k%3) - 1
			if k%2 == 1 {
				secs = rng.Uint32()
			}
			d := time.Duration(secs) * time.Second
			ia := &dhcpv6.OptIANA{T1: d, T2: time.Duration(^secs) * time.Second}
			ia.Options.Options = dhcpv6.Options{&dhcpv6.OptIAAddress{IPv6Addr: net.ParseIP("2001:db8::7"), PreferredLifetime: d, ValidLifetime: time.Duration(secs/2) * time.Second}}
			one(ia)
			one(dhcpv6.OptInformationRefreshTime(d))
			one(&dhcpv6.OptIAPrefix{PreferredLifetime: d, ValidLifetime: d, Prefix: &net.IPNet{IP: net.ParseIP("2001:db8::"), Mask: net.CIDRMask(1+k%128, 128)}}) // (a /0 prefix carries no address: C06)
		}
		for u := 0; u < 256; u++ { // octet-wide fields
			one(&dhcpv6.OptNetworkInterfaceID{Typ: dhcpv6.NetworkInterfaceType(u), Major: uint8(255 - u), Minor: uint8(u ^ 0x55)})
			one(&dhcpv6.OptFQDN{Flags: uint8(u), DomainName: &rfc1035label.Labels{Labels: []string{"h.example"}}})
		}
	}
	// every variable-length field of every option type at the sizes where a length check could sit
	for _, c := range v6Known {
		for _, sz := range []int{118, 120, 122, 124, 126, 127, 128, 129, 130, 254, 255, 256, 257, 1000} {
			kinds := []int{-1}
			if c == 1 || c == 2 {
				kinds = []int{0, 1, 2, 4} // every kind of DUID with a variable-length part
			}
			for _, kind := range kinds {
				rdataSize, rduidKind = sz, kind
				m := &dhcpv6.Message{MessageType: dhcpv6.MessageTypeReply}
				copy(m.TransactionID[:], rxid(rng, 3))
				m.AddOption(randOpt6(rng, c, 1))
				rdataSize, rduidKind = -1, -1
				if len(m.ToBytes()) < 100 && sz != 126 {
					continue // this option type has no variable-length field
				}
				emit(m, "field-size-boundaries")
			}
		}
	}
	// list-valued options with as many elements as an octet counts, and more (DHCPv6 lengths are 16 bits wide: no list ends
	// at 127 or 255 elements)
	for _, cnt := range []int{126, 127, 128, 129, 255, 256, 257, 1000} {
		m := &dhcpv6.Message{MessageType: dhcpv6.MessageTypeSolicit}
		copy(m.TransactionID[:], rxid(rng, 3))
		var archs []iana.Arch
		var codes []dhcpv6.OptionCode
		var ips []net.IP
		var classes [][]byte
		for k := 0; k < cnt; k++ {
			archs = append(archs, iana.Arch(k%40))
			codes = append(codes, dhcpv6.OptionCode(1000+k))
			ips = append(ips, net.ParseIP(fmt.Sprintf("2001:db8::%x", k+1)))
			classes = append(classes, []byte{byte(k), byte(k >> 8)})
		}
		m.AddOption(dhcpv6.OptClientArchType(archs...))
		m.AddOption(dhcpv6.OptRequestedOption(codes...))
		m.AddOption(dhcpv6.OptDNS(ips...))
		m.AddOption(&dhcpv6.OptUserClass{UserClasses: classes})
		emit(m, "long-lists")
		r, _ := dhcpv6.EncapsulateRelay(m, dhcpv6.MessageTypeRelayForward, net.ParseIP("2001:db8::1"), net.ParseIP("fe80::1"))
		emit(r, "long-lists")
	}
	// values with a history: encoded / printed / decoded first, then edited in place through exported fields
	for _, c := range v6Known {
		for k := 0; k < 4; k++ {
			d, cls := editedMsg6(rng, []int{c}, 2)
			emit(d, cls)
		}
	}
	for k := 0; k < n/4; k++ {
		codes := []int{}
		for j := pick(rng, 1, 2, 3, rng.Intn(8)); j > 0; j-- {
			c := randCode6(rng)
			if c == 9 {
				c = 8
			}
			codes = append(codes, c)
		}
		d, cls := editedMsg6(rng, codes, 1+rng.Intn(2))
		emit(d, cls)
	}
	// option values at the limit of the 16-bit length field
	for _, L := range []int{65535, 65534, 65280, 32768} {
		m := &dhcpv6.Message{MessageType: dhcpv6.MessageTypeReply}
		copy(m.TransactionID[:], rxid(rng, 3))
		m.AddOption(dhcpv6.OptElapsedTime(0))
		m.AddOption(&dhcpv6.OptionGeneric{OptionCode: dhcpv6.OptionCode(pick(rng, 200, 43, 65000)), OptionData: randBytes(rng, L)})
		m.AddOption(&dhcpv6.OptionGeneric{OptionCode: dhcpv6.OptionRapidCommit})
		emit(m, "length-limit")
	}
	for depth := 0; depth <= 8; depth++ {
		for k := 0; k < 6; k++ {
			emit(randMsg6(rng, 2, depth), "relay-chain")
		}
	}
	for i := 0; i < n; i++ {
		emit(randMsg6(rng, 1+rng.Intn(3), pick(rng, 0, 0, 1, 2, rng.Intn(9))), "random")
	}
	missing := []int{}
	for _, c := range v6Known {
		if counts[c] == 0 {
			missing = append(missing, c)
		}
	}
	o.extra = map[string]any{"option_type_counts": counts, "option_types_missing": missing, "library_typed_codes": libraryTypedCodes()}
}

// libraryTypedCodes asks the real ParseOption which codes it gives a type of its own.
func libraryTypedCodes() []int {
	var out []int
	for c := 0; c < 400; c++ {
		func() {
			defer func() { recover() }()
			opt, _ := dhcpv6.ParseOption(dhcpv6.OptionCode(c), nil)
			if opt != nil {
				if _, generic := opt.(*dhcpv6.OptionGeneric); !generic {
					out = append(out, c)
				}
			}
		}()
	}
	return out
}

func decOpt6(code int, in []byte) map[string]any {
	var out map[string]any
	func() {
		defer func() {
			if r := recover(); r != nil {
				out = map[string]any{"panic": fmt.Sprint(r)}
			}
		}()
		opt, err := dhcpv6.ParseOption(dhcpv6.OptionCode(code), append([]byte(nil), in...))
		if err != nil {
			out = map[string]any{"ok": false}
			return
		}
		out = map[string]any{"ok": true, "val": projOpt(opt, "main")}
	}()
	return out
}

// concurrentDecodes decodes the inputs in eight goroutines at once and reports (through emit) every result that
// differs from the one obtained alone; with a correct decoder it reports one sample line so that the class shows
// in the evidence.
func concurrentDecodes(inputs [][]byte, dec func([]byte) any, emit func(in []byte, out any)) {
	if len(inputs) == 0 {
		return
	}
	alone := make([]string, len(inputs))
	for i, in := range inputs {
		b, _ := json.Marshal(dec(in))
		alone[i] = string(b)
	}
	type diff struct {
		i   int
		out any
	}
	var mu sync.Mutex
	var diffs []diff
	var wg sync.WaitGroup
	for g := 0; g < 8; g++ {
		wg.Add(1)
		go func(g int) {
			defer wg.Done()
			for round := 0; round < 3; round++ {
				for k := range inputs {
					i := (k*7 + g*131 + round) % len(inputs)
					out := dec(inputs[i])
					if b, _ := json.Marshal(out); string(b) != alone[i] {
						mu.Lock()
						if len(diffs) < 20 {
							diffs = append(diffs, diff{i, out})
						}
						mu.Unlock()
					}
				}
			}
		}(g)
	}
	wg.Wait()
	for _, d := range diffs {
		emit(inputs[d.i], d.out)
	}
	emit(inputs[0], dec(inputs[0]))
}

// genC05: byte strings -> FromBytes / ParseOption.
func genC05(o *Out, rng *rand.Rand, tier string) {
	maxLen, nvalid, nrand, maxPay := 5, 40, 1500, 36
	if tier == "thorough" {
		maxLen, nvalid, nrand, maxPay = 6, 400, 25000, 60
	}
	var accepted [][]byte
	emit := func(in []byte, cls string) {
		out, d := dec6(in)
		o.Emit(map[string]any{"op": "Dec6", "in": B(in), "out": out}, cls, in, len(in) >= 4)
		if len(in) > 0 && (len(in)+int(in[0]))%4 == 0 {
			// the concrete entry points: each accepts its own header family as FromBytes does, and nothing of the other one
			for _, ep := range []string{"msg", "relay"} {
				o.Emit(map[string]any{"op": "Dec6E", "ep": ep, "in": B(in), "out": dec6e(in, ep)}, "entry-point-"+ep, append([]byte(ep), in...), len(in) >= 4)
			}
		}
		if d != nil && len(accepted) < 4000 && len(in) > 12 {
			accepted = append(accepted, append([]byte(nil), in...))
		}
	}
	defer func() {
		// decoders running side by side (a server handles datagrams concurrently) read the same values
		concurrentDecodes(accepted, func(in []byte) any { out, _ := dec6(in); return out }, func(in []byte, out any) {
			o.Emit(map[string]any{"op": "Dec6", "in": B(in), "out": out}, "concurrent-decoders", append([]byte("cc"), in...), true)
		})
	}()
	for _, w := range subOptionWires(rng) {
		emit(w, "sub-option-shapes")
	}
	// (a) every TLV area over a small alphabet after each header kind, and truncated headers
	hdrs := [][]byte{{1, 0xaa, 0xbb, 0xcc}, append([]byte{12, 3}, make([]byte, 32)...), append([]byte{13, 0}, randBytes(rng, 32)...)}
	alpha := []byte{0, 1, 2, 3, 8, 255}
	for hi, h := range hdrs {
		ml := maxLen
		if hi == 2 {
			ml = maxLen - 1
		}
		var rec func(cur []byte)
		rec = func(cur []byte) {
			emit(append(append([]byte(nil), h...), cur...), "exhaustive-tlv")
			if len(cur) == ml {
				return
			}
			for _, a := range alpha {
				rec(append(cur, a))
			}
		}
		rec(nil)
		for cut := 0; cut < len(h); cut++ {
			emit(h[:cut], "truncated-header")
		}
	}
	// (b) every known code with every payload length 0..maxPay and several byte patterns, also through ParseOption
	codes := append(append([]int{}, v6Known...), 7, 14, 300)
	for _, c := range codes {
		for L := 0; L <= maxPay; L++ {
			for pat := 0; pat < 5; pat++ {
				p := make([]byte, L)
				for i := range p {
					switch pat {
					case 0:
						p[i] = 0
					case 1:
						p[i] = 255
					case 2:
						p[i] = 1
					case 3:
						p[i] = byte(i)
					default:
						p[i] = byte(rng.Intn(256))
					}
				}
				if pat == 4 && L > 8 {
					p[8] = byte(pick(rng, 0, 1, 64, 128, 129, 200, 255)) // prefix length position of IA prefix
				}
				msg := append([]byte{7, 1, 2, 3, byte(c >> 8), byte(c), byte(L >> 8), byte(L)}, p...)
				emit(msg, "per-option-length")
				if pat >= 3 {
					o.Emit(map[string]any{"op": "DecOpt6", "code": c, "in": B(p), "out": decOpt6(c, p)}, "parse-option", append([]byte{byte(c), byte(c >> 8)}, p...), true)
				}
			}
		}
	}
	// (b') valid payloads of every type cut at every length and extended by one or two bytes
	for _, c := range v6Known {
		for k := 0; k < 6; k++ {
			p := randOpt6(rng, c, 1).ToBytes()
			if len(p) > 120 {
				continue
			}
			var variants [][]byte
			for cut := 0; cut <= len(p); cut++ {
				variants = append(variants, p[:cut])
			}
			variants = append(variants, append(append([]byte(nil), p...), byte(rng.Intn(256))),
				append(append([]byte(nil), p...), 0, byte(rng.Intn(256))), append(append([]byte(nil), p...), randBytes(rng, 16)...))
			for _, v := range variants {
				msg := append([]byte{3, 1, 2, 3, byte(c >> 8), byte(c), byte(len(v) >> 8), byte(len(v))}, v...)
				emit(msg, "valid-payload-cut-or-extended")
			}
		}
	}
	// (b'') every type with long payloads: sizes around 128, 256 and beyond (limits a decoder may be tempted to impose)
	for _, c := range v6Known {
		for _, L := range []int{126, 127, 128, 129, 130, 131, 132, 255, 256, 257, 1000} {
			p := randOpt6(rng, c, 1).ToBytes()
			if len(p) > L {
				p = p[:L]
			}
			fill := byte(rng.Intn(256))
			for len(p) < L {
				if L%2 == 0 {
					p = append(p, fill)
				} else {
					p = append(p, byte(rng.Intn(256)))
				}
			}
			msg := append([]byte{5, 1, 2, 3, byte(c >> 8), byte(c), byte(L >> 8), byte(L)}, p...)
			emit(msg, "long-payload")
			if c == 1 || c == 2 { // DUIDs of every kind at these sizes
				for _, t := range []byte{1, 2, 3, 4, 0, 9} {
					q := append([]byte{0, t}, p[2:]...)
					emit(append([]byte{5, 1, 2, 3, byte(c >> 8), byte(c), byte(L >> 8), byte(L)}, q...), "long-payload")
				}
			}
		}
	}
	// (b2') every message type the first octet can name, with transaction ids of all shapes: read verbatim
	for mt := 0; mt < 256; mt++ {
		if mt == 12 || mt == 13 {
			continue
		}
		for _, xid := range [][]byte{{0xff, 0xff, 0xff}, {0x5a, 0xc3, 0x17}, {0x80, 0, 0}, {0, 0, 0}} {
			msg := append(append([]byte{byte(mt)}, xid...), 0, 8, 0, 2, 0, byte(mt))
			emit(msg, "message-types")
			if mt%5 == 0 {
				relay := append(append([]byte{12, 1}, make([]byte, 32)...), 0, 9, 0, byte(len(msg)))
				emit(append(relay, msg...), "message-types")
			}
		}
	}
	// (b2'') octets that are sets of flags, every combination
	for u := 0; u < 256; u++ {
		emit([]byte{5, 1, 2, 3, 0, 39, 0, 5, byte(u), 1, 'h', 1, 'x'}, "flag-octets")
		emit([]byte{5, 1, 2, 3, 0, 99, 0, 4, byte(u), byte(255 - u), 5, 220}, "flag-octets")
		mr := append([]byte{24, 64, 8, byte(u), 10, 0, 0, 0}, make([]byte, 16)...)
		emit(append([]byte{5, 1, 2, 3, 0, 97, 0, 28, 0, 98, 0, 24}, mr...), "flag-octets")
	}
	// (b3) number spaces of their own: the sub-options of vendor options (17) and of the NTP option (56) are not
	// DHCPv6 options, whatever their numbers; every known option code as a sub-option code, with a payload that is a
	// valid encoding of that option and with one that is not
	for _, c := range append(append([]int{}, v6Known...), 7, 14) {
		for k := 0; k < 3; k++ {
			var pay []byte
			switch k {
			case 0:
				pay = randOpt6(rng, c, 1).ToBytes()
			case 1:
				pay = randBytes(rng, 1+rng.Intn(7))
			default:
				pay = []byte{0, 23, 0, 23, 0, 24, 0, 23} // reads as a request list with a repeated code
			}
			if len(pay) > 200 {
				continue
			}
			sub := append([]byte{byte(c >> 8), byte(c), byte(len(pay) >> 8), byte(len(pay))}, pay...)
			v := append([]byte{0, 0, 0, 9}, sub...)
			emit(append([]byte{7, 1, 2, 3, 0, 17, byte(len(v) >> 8), byte(len(v))}, v...), "sub-option-number-spaces")
			if c > 3 { // 1..3 are the NTP sub-options proper
				emit(append([]byte{7, 1, 2, 3, 0, 56, byte(len(sub) >> 8), byte(len(sub))}, sub...), "sub-option-number-spaces")
			}
		}
	}
	// (b4) embedded DHCPv4 packets (option 87) as they come off the wire: name fields with bytes after the first NUL or
	// without any NUL, any hlen, unsorted / repeated / padded options
	for k := 0; k < nvalid; k++ {
		w4, _ := wirePacket4(rng)
		if len(w4) > 1200 {
			continue
		}
		emit(append([]byte{21, 1, 2, 3, 0, 87, byte(len(w4) >> 8), byte(len(w4))}, w4...), "embedded-v4-wire")
	}
	// (c) every truncation and length-field perturbation of valid messages holding every option type
	for i := 0; i < nvalid; i++ {
		d := randMsg6(rng, 2, pick(rng, 0, 0, 1, 2))
		if i < len(v6Known) {
			m := &dhcpv6.Message{MessageType: 1}
			m.AddOption(randOpt6(rng, v6Known[i], 2))
			m.AddOption(randOpt6(rng, 8, 0))
			d = m
		}
		w := d.ToBytes()
		if len(w) > 700 {
			continue
		}
		emit(w, "valid")
		for cut := 0; cut < len(w); cut++ {
			emit(w[:cut], "truncation")
		}
		emit(append(append([]byte(nil), w...), byte(rng.Intn(256))), "trailing-byte")
		// walk the top-level TLVs and perturb each length field
		off := 4
		if w[0] == 12 || w[0] == 13 {
			off = 34
		}
		for off+4 <= len(w) {
			l := int(w[off+2])<<8 | int(w[off+3])
			for _, nl := range []int{l - 1, l + 1, 0, 65535, l + 4} {
				if nl < 0 {
					continue
				}
				m := append([]byte(nil), w...)
				m[off+2], m[off+3] = byte(nl>>8), byte(nl)
				emit(m, "length-perturbation")
			}
			off += 4 + l
		}
	}
	// (d) random / mutated inputs up to 4096 bytes
	for i := 0; i < nrand; i++ {
		switch i % 4 {
		case 0:
			w := randMsg6(rng, 2, rng.Intn(3)).ToBytes()
			for j := rng.Intn(3); j >= 0; j-- {
				if len(w) > 0 {
					w[rng.Intn(len(w))] = byte(rng.Intn(256))
				}
			}
			if len(w) > 4096 {
				w = w[:4096]
			}
			emit(w, "mutated")
		case 1:
			emit(randBytes(rng, rng.Intn(pick(rng, 8, 64, 600, 4097))), "random")
		case 2: // random TLV tiling with known codes and random payloads
			w := []byte{byte(1 + rng.Intn(11)), 1, 2, 3}
			for k := rng.Intn(6); k > 0; k-- {
				c := randCode6(rng)
				p := randBytes(rng, pick(rng, 0, 2, 4, 16, 24, 25, rng.Intn(50)))
				w = append(w, byte(c>>8), byte(c), byte(len(p)>>8), byte(len(p)))
				w = append(w, p...)
			}
			emit(w, "random-tlv")
		default:
			c := randCode6(rng)
			w := randOpt6(rng, c, 2).ToBytes()
			if len(w) > 0 && rng.Intn(2) == 0 {
				w[rng.Intn(len(w))] ^= byte(1 << uint(rng.Intn(8)))
			}
			o.Emit(map[string]any{"op": "DecOpt6", "code": c, "in": B(w), "out": decOpt6(c, w)}, "parse-option", append([]byte{byte(c), byte(c >> 8)}, w...), true)
		}
	}
}

func fix6(o *Out, in []byte, cls string) {
	out, d := dec6(in)
	rec := map[string]any{"op": "Fix6", "in": B(in), "out": out, "b1": []int{}, "b2": []int{}, "out2": map[string]any{"ok": false}}
	if d != nil {
		b1, perr := enc6(d)
		if perr != nil {
			rec["out"] = map[string]any{"panic": perr}
		} else {
			rec["b1"] = B(b1)
			out2, d2 := dec6(b1)
			rec["out2"] = out2
			if d2 != nil {
				b2, perr2 := enc6(d2)
				if perr2 != nil {
					rec["out2"] = map[string]any{"panic": perr2}
				} else {
					rec["b2"] = B(b2)
				}
			}
		}
	}
	o.Emit(rec, cls, in, d != nil)
}

// genC06v6: decode -> encode -> decode -> encode for non-canonical accepted inputs.
// subOptionWires: messages whose options have a number space of their own, written byte by byte with every kind of
// sub-option in every shape: NTP servers (RFC 5908: unicast / multicast address, name; addresses of either class in either
// sub-option, of 4, 15, 16, 17 octets; unknown sub-options; several at once), 4RD rules (RFC 7600: every IPv4 prefix
// length octet, IPv6 prefix lengths at their limits)
func subOptionWires(rng *rand.Rand) [][]byte {
	var out [][]byte
	msg := func(code int, payload []byte) []byte {
		return append([]byte{7, 5, 6, 7, byte(code >> 8), byte(code), byte(len(payload) >> 8), byte(len(payload))}, payload...)
	}
	sub := func(code int, v []byte) []byte {
		return append([]byte{byte(code >> 8), byte(code), byte(len(v) >> 8), byte(len(v))}, v...)
	}
	addrs := [][]byte{net.ParseIP("2001:db8::123"), net.ParseIP("ff05::101"), net.ParseIP("ff02::1"), net.ParseIP("::ffff:10.0.0.1"), net.ParseIP("::"),
		net.ParseIP("fe80::1"), {10, 0, 0, 1}, make([]byte, 15), make([]byte, 17), {}}
	name := []byte{3, 'n', 't', 'p', 7, 'e', 'x', 'a', 'm', 'p', 'l', 'e', 0}
	for _, sc := range []int{1, 2} {
		for _, a := range addrs {
			out = append(out, msg(56, sub(sc, a)))
			out = append(out, msg(56, append(append(sub(sc, a), sub(3, name)...), sub(3-sc, net.ParseIP("2001:db8::5"))...)))
		}
	}
	out = append(out, msg(56, sub(3, name)), msg(56, sub(3, []byte{3, 'n', 't', 'p'})), msg(56, sub(3, nil)), msg(56, sub(9, []byte{1, 2, 3})),
		msg(56, append(sub(1, addrs[0]), sub(1, addrs[0])...)), msg(56, append(sub(3, name), sub(3, name)...)), msg(56, nil), msg(56, []byte{0, 1, 0}))
	// relay headers whose link and peer addresses are of every kind an address can be (link-local with the zone some stacks
	// leave in octets 2-3, site-local, multicast, mapped, 6to4, unspecified, loopback): sixteen octets each, read as they are
	specials := []string{"fe80:4::1", "fe80::1", "fe80:ffff::2", "fec0::1", "ff02::1:2", "::ffff:10.0.0.1", "2002:c000:204::1", "::", "::1", "fe80:0:1::"}
	for i, a := range specials {
		b := specials[(i+3)%len(specials)]
		inner := []byte{1, 9, 9, byte(i), 0, 8, 0, 2, 0, 0}
		hdr := append(append([]byte{12, byte(i)}, net.ParseIP(a).To16()...), net.ParseIP(b).To16()...)
		w := append(append(hdr, 0, 9, 0, byte(len(inner))), inner...)
		out = append(out, w)
		hdr2 := append(append([]byte{13, byte(i + 1)}, net.ParseIP(b).To16()...), net.ParseIP(a).To16()...)
		out = append(out, append(append(hdr2, 0, 9, byte(len(w)>>8), byte(len(w))), w...))
	}
	// many options without a type in one container (8, 9, 12, 40 of them), at the top level and inside an identity association
	for _, cnt := range []int{8, 9, 12, 40} {
		var opts []byte
		for k := 0; k < cnt; k++ {
			opts = append(opts, sub(60000+k, []byte{byte(k), 'u', 'n', 'k', byte(cnt)})...)
		}
		out = append(out, append([]byte{7, 5, 6, 7}, opts...))
		ia := append([]byte{1, 2, 3, 4, 0, 0, 14, 16, 0, 0, 28, 32}, opts...)
		out = append(out, msg(3, ia))
	}
	// a 4RD option that holds other options than its two rules (codes that mean something at the top level, codes that mean nothing)
	rule0 := append([]byte{24, 64, 8, 0, 10, 1, 2, 3}, net.ParseIP("2001:db8:aa::")...)
	out = append(out, msg(97, sub(1, []byte{0, 3, 0, 1, 2, 0, 0, 0, 0, 9})), msg(97, append(sub(98, rule0), sub(200, []byte("opaque inside 4rd"))...)),
		msg(97, append(sub(65000, []byte{1, 2, 3}), sub(99, []byte{0, 0, 5, 220})...)), msg(97, sub(97, sub(98, rule0))))
	// identity associations as servers answer them: a status code and no address (Success or a failure), a status code next to
	// an address, nothing at all - in a REPLY, which is what the boot configuration is read from
	reply := func(payload []byte) []byte {
		return append([]byte{7, 5, 6, 7, 0, 3, byte(len(payload) >> 8), byte(len(payload))}, payload...)
	}
	iahdr := []byte{1, 2, 3, 4, 0, 0, 14, 16, 0, 0, 28, 32}
	addr := append(append(net.ParseIP("2001:db8::77"), 0, 0, 14, 16), 0, 0, 28, 32)
	for _, st := range []int{0, 1, 2, 6} {
		stat := sub(13, append([]byte{0, byte(st)}, "status"...))
		out = append(out, reply(append(append([]byte{}, iahdr...), stat...)), reply(append(append(append([]byte{}, iahdr...), stat...), sub(5, addr)...)),
			reply(append(append(append([]byte{}, iahdr...), sub(5, addr)...), sub(13, []byte{0, byte(st)})...)))
	}
	out = append(out, reply(iahdr))
	for p4 := 0; p4 < 256; p4++ {
		for _, p6 := range []int{0, 64, 128, 129, 255} {
			if p4 > 40 && p4 < 120 && p6 != 64 || p4 > 136 && p4%16 != 0 && p6 != 64 {
				continue
			}
			rule := append([]byte{byte(p4), byte(p6), 8, 0, 10, 1, 2, 3}, net.ParseIP("2001:db8:aa::")...)
			out = append(out, msg(97, sub(98, rule)))
		}
	}
	return out
}

func genC06v6(o *Out, rng *rand.Rand, tier string) {
	for _, w := range subOptionWires(rng) {
		fix6(o, w, "sub-option-shapes")
	}
	n := 1500
	if tier == "thorough" {
		n = 25000
	}
	for _, c := range append(append([]int{}, v6Known...), 7, 300) {
		for L := 0; L <= 44; L++ {
			for pat := 0; pat < 3; pat++ {
				p := randBytes(rng, L)
				if pat == 1 {
					for i := range p {
						p[i] = 255
					}
				}
				if pat == 2 && L > 8 {
					p[8] = byte(pick(rng, 0, 1, 64, 128, 129, 255))
					p[0] = byte(pick(rng, 0, 24, 32, 33, 255))
					p[1] = byte(pick(rng, 0, 64, 128, 129, 255))
				}
				fix6(o, append([]byte{7, 1, 2, 3, byte(c >> 8), byte(c), byte(L >> 8), byte(L)}, p...), "per-option-length")
			}
		}
	}
	// numeric fields swept densely, written byte by byte: every 16-bit value of the fields that hold one (thinned out in
	// the quick tier), 32-bit second counts around every power of two
	{
		step := 41
		if tier == "thorough" {
			step = 1
		}
		for u := 0; u < 65536; u += step {
			hi, lo := byte(u>>8), byte(u)
			fix6(o, []byte{5, 1, 2, 3, 0, 8, 0, 2, hi, lo}, "numeric-sweep")                // elapsed time
			fix6(o, []byte{5, 1, 2, 3, 0, 61, 0, 2, hi, lo}, "numeric-sweep")               // client architecture
			fix6(o, []byte{5, 1, 2, 3, 0, 13, 0, 3, hi, lo, 'x'}, "numeric-sweep")          // status code
			fix6(o, []byte{5, 1, 2, 3, 0, 6, 0, 4, hi, lo, lo, hi}, "numeric-sweep")        // requested options
			fix6(o, []byte{5, 1, 2, 3, 0, 99, 0, 4, hi, lo, lo, hi}, "numeric-sweep")       // 4RD non-map rule: flags, traffic class, PMTU
			fix6(o, []byte{5, 1, 2, 3, 0, 62, 0, 3, hi, lo, hi ^ lo}, "numeric-sweep")      // network interface id
		}
		for u := 0; u < 256; u++ { // octets that are sets of flags: every combination, reserved bits included
			fix6(o, []byte{5, 1, 2, 3, 0, 39, 0, 5, byte(u), 1, 'h', 1, 'x'}, "numeric-sweep")          // client FQDN flags
			fix6(o, []byte{5, 1, 2, 3, 0, 39, 0, 1, byte(u)}, "numeric-sweep")                          // ... without a name
			fix6(o, []byte{5, 1, 2, 3, 0, 99, 0, 4, byte(u), byte(255 - u), 5, 220}, "numeric-sweep")   // 4RD non-map rule flags
			mr := append([]byte{24, 64, 8, byte(u), 10, 0, 0, 0}, make([]byte, 16)...)
			fix6(o, append([]byte{5, 1, 2, 3, 0, 97, 0, 28, 0, 98, 0, 24}, mr...), "numeric-sweep")      // 4RD map rule flags
			fix6(o, append([]byte{12, byte(u)}, append(make([]byte, 32), 0, 9, 0, 4, 1, 0, 0, byte(u))...), "numeric-sweep") // relay hop count
		}
		for k := 0; k < 32*4; k++ {
			v := uint32(1)<<uint(k/4) + uint32(k%4) - 2
			b := []byte{byte(v >> 24), byte(v >> 16), byte(v >> 8), byte(v)}
			fix6(o, append([]byte{5, 1, 2, 3, 0, 32, 0, 4}, b...), "numeric-sweep") // information refresh time
			ia := append(append(append([]byte{1, 2, 3, 4}, b...), b[3], b[2], b[1], b[0]), 0, 5, 0, 24)
			ia = append(append(append(ia, make([]byte, 16)...), b...), b[1], b[0], b[3], b[2])
			fix6(o, append([]byte{5, 1, 2, 3, 0, 3, 0, byte(len(ia))}, ia...), "numeric-sweep") // IA_NA T1/T2, address lifetimes
			pf := append(append(append([]byte{}, b...), b[2], b[3], b[0], b[1]), 64)
			pf = append(pf, 0x20, 1, 0xd, 0xb8, 0, 0, 0, 0, 0, 0, 0, 0, 0, 0, 0, 0)
			pd := append(append([]byte{4, 3, 2, 1}, b...), b...)
			pd = append(append(pd, 0, 26, 0, byte(len(pf))), pf...)
			fix6(o, append([]byte{5, 1, 2, 3, 0, 25, 0, byte(len(pd))}, pd...), "numeric-sweep") // IA_PD, prefix lifetimes
		}
	}
	// identifiers written byte by byte: every DUID type x hardware type (registered ones, 0, the largest) x address length,
	// as client and as server identifier, alone and behind a relay
	for _, dt := range []int{1, 2, 3, 4, 0, 5, 255} {
		for _, ht := range []int{0, 1, 6, 27, 32, 255, 256, 65535} {
			for _, al := range []int{0, 1, 6, 8, 16, 17, 20} {
				d := []byte{byte(dt >> 8), byte(dt), byte(ht >> 8), byte(ht)}
				if dt == 1 {
					d = append(d, 0x2a, 0x2b, 0x2c, byte(al))
				}
				d = append(d, randBytes(rng, al)...)
				for _, code := range []byte{1, 2} {
					msg := append([]byte{1, 7, 7, byte(al), 0, code, 0, byte(len(d))}, d...)
					fix6(o, msg, "duid-sweep")
					if (dt+ht+al)%3 == 0 {
						relay := append(append([]byte{12, 1}, make([]byte, 32)...), 0, 9, byte(len(msg)>>8), byte(len(msg)))
						fix6(o, append(relay, msg...), "duid-sweep")
					}
				}
			}
		}
	}
	// an embedded DHCPv4 packet (option 87) whose name fields are full, without NUL: cut on re-encode (allowed normalisation)
	for k := 0; k < 6; k++ {
		w4, _ := wirePacket4(rng)
		for i := 44; i < 236; i++ {
			w4[i] = byte(1 + rng.Intn(255))
		}
		if len(w4) > 600 {
			continue
		}
		msg := append([]byte{3, 1, 2, 3, 0, 87, byte(len(w4) >> 8), byte(len(w4))}, w4...)
		fix6(o, msg, "embedded-v4-full-names")
		if k%2 == 0 {
			relay := append(append([]byte{12, 0}, make([]byte, 32)...), 0, 9, byte(len(msg)>>8), byte(len(msg)))
			fix6(o, append(relay, msg...), "embedded-v4-full-names")
		}
	}
	// names whose labels contain '.' bytes (accepted on the wire; they must survive a re-encoding)
	for _, lab := range [][]byte{{4, '.', 'a', 'b', 'c', 0}, {3, 'a', '.', 'b', 0}, {1, '.', 0}, {2, '.', '.', 0}, {2, 'a', '.', 3, 'c', 'o', 'm', 0},
		{5, '.', 'c', 'o', 'r', 'p', 7, 'e', 'x', 'a', 'm', 'p', 'l', 'e', 0}, {1, 'x', 0, 2, '.', 'y', 0xc0, 0}} {
		for _, code := range []int{24, 39, 56} {
			p := lab
			switch code {
			case 39:
				p = append([]byte{0}, lab...)
			case 56:
				p = append([]byte{0, 3, 0, byte(len(lab))}, lab...)
			}
			fix6(o, append([]byte{7, 1, 2, 3, 0, byte(code), 0, byte(len(p))}, p...), "dotted-labels")
		}
	}
	// every option type with NUL bytes after a valid body (string-valued options must not eat them one decode at a time)
	for _, c := range v6Known {
		for k := 1; k <= 3; k++ {
			body := append(randOpt6(rng, c, 1).ToBytes(), make([]byte, k)...)
			if len(body) < 65000 {
				fix6(o, append([]byte{7, 1, 2, 3, byte(c >> 8), byte(c), byte(len(body) >> 8), byte(len(body))}, body...), "trailing-nuls")
			}
		}
		fix6(o, []byte{7, 1, 2, 3, byte(c >> 8), byte(c), 0, 3, 0, 0, 0}, "trailing-nuls")
	}
	for i := 0; i < n; i++ {
		switch i % 3 {
		case 0:
			fix6(o, randMsg6(rng, 3, pick(rng, 0, 1, 3)).ToBytes(), "canonical")
		case 1:
			w := randMsg6(rng, 2, rng.Intn(2)).ToBytes()
			if len(w) > 0 {
				w[rng.Intn(len(w))] = byte(rng.Intn(256))
			}
			fix6(o, w, "mutated")
		default: // non-canonical but acceptable: duplicate ORO codes, reserved bits, compressed names, /0 prefix with address bits
			w := []byte{1, 9, 9, 9}
			oro := []byte{0, 6, 0, 8, 0, 23, 0, 24, 0, 23, 0, 23}
			w = append(w, oro...)
			names := []byte{3, 'f', 'o', 'o', 3, 'c', 'o', 'm', 0, 3, 'b', 'a', 'r', 0xc0, 4}
			w = append(w, 0, 24, 0, byte(len(names)))
			w = append(w, names...)
			pfx := append([]byte{0, 0, 0, 1, 0, 0, 0, 2, byte(pick(rng, 0, 0, 64, 128))}, randBytes(rng, 16)...)
			iapd := append([]byte{1, 2, 3, 4, 0, 0, 0, 5, 0, 0, 0, 6, 0, 26, 0, byte(len(pfx))}, pfx...)
			w = append(w, 0, 25, 0, byte(len(iapd)))
			w = append(w, iapd...)
			nm := []byte{byte(rng.Intn(256)), byte(rng.Intn(256)), 5, 220}
			rd := append([]byte{0, 99, 0, 4}, nm...)
			mr := append([]byte{byte(rng.Intn(33)), byte(rng.Intn(129)), 7, byte(rng.Intn(256))}, randBytes(rng, 20)...)
			rd = append(rd, 0, 98, 0, 24)
			rd = append(rd, mr...)
			w = append(w, 0, 97, 0, byte(len(rd)))
			w = append(w, rd...)
			// addresses written here byte by byte (not by the library's encoder): IPv4-mapped, unspecified, all ones
			addr := [][]byte{{0, 0, 0, 0, 0, 0, 0, 0, 0, 0, 0xff, 0xff, 10, 1, 2, byte(rng.Intn(256))}, make([]byte, 16),
				{0xff, 0xff, 0xff, 0xff, 0xff, 0xff, 0xff, 0xff, 0xff, 0xff, 0xff, 0xff, 0xff, 0xff, 0xff, 0xff}, randBytes(rng, 16)}
			iaaddr := append(append([]byte{}, addr[rng.Intn(4)]...), 0, 0, 0, 9, 0, 0, 0, 10)
			iana := append([]byte{9, 9, 9, 9, 0, 0, 0, 1, 0, 0, 0, 2, 0, 5, 0, byte(len(iaaddr))}, iaaddr...)
			w = append(w, 0, 3, 0, byte(len(iana)))
			w = append(w, iana...)
			pfx2 := append([]byte{0, 0, 0, 1, 0, 0, 0, 2, 128}, addr[rng.Intn(4)]...)
			iapd2 := append([]byte{4, 3, 2, 1, 0, 0, 0, 5, 0, 0, 0, 6, 0, 26, 0, byte(len(pfx2))}, pfx2...)
			w = append(w, 0, 25, 0, byte(len(iapd2)))
			w = append(w, iapd2...)
			fix6(o, w, "noncanonical")
			if i%2 == 0 { // the same message behind a relay whose link and peer addresses are such addresses
				relay := append(append([]byte{12, byte(rng.Intn(4))}, addr[rng.Intn(4)]...), addr[rng.Intn(4)]...)
				relay = append(relay, 0, 9, byte(len(w)>>8), byte(len(w)))
				fix6(o, append(relay, w...), "noncanonical")
			}
		}
	}
}
