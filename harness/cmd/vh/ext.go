package main

import (
	"fmt"
	"math/rand"
	"net"
	"time"

	"github.com/insomniacslk/dhcp/dhcpv4"
	"github.com/insomniacslk/dhcp/dhcpv6"
	"github.com/insomniacslk/dhcp/netboot"
	"github.com/insomniacslk/dhcp/rfc1035label"
)

func init() { gens["ext"] = genExt }

func ipList16(ips []net.IP) []any {
	l := []any{}
	for _, ip := range ips {
		l = append(l, ip16(ip))
	}
	return l
}
func ipList4(ips []net.IP) []any {
	l := []any{}
	for _, ip := range ips {
		l = append(l, ip4(ip))
	}
	return l
}

// message with the options the extractors look at, several instances, in any order
func extMsg6(rng *rand.Rand) *dhcpv6.Message {
	m := &dhcpv6.Message{MessageType: dhcpv6.MessageType(1 + rng.Intn(11))}
	copy(m.TransactionID[:], randBytes(rng, 3))
	pool := []int{3, 3, 23, 23, 24, 56, 56, 59, 60, 6, 6, 1, 5, 200, 16, 17}
	rng.Shuffle(len(pool), func(i, j int) { pool[i], pool[j] = pool[j], pool[i] })
	for _, c := range pool[:rng.Intn(len(pool)+1)] {
		m.AddOption(randOpt6(rng, c, 2))
	}
	return m
}

func genExt(o *Out, rng *rand.Rand, tier string) {
	n := 600
	if tier == "thorough" {
		n = 10000
	}
	safeRec := func(rec map[string]any, f func()) {
		defer func() {
			if r := recover(); r != nil {
				rec["panic"] = fmt.Sprint(r)
			}
		}()
		f()
	}
	for i := 0; i < n; i++ {
		m := extMsg6(rng)
		// --- typed accessors of the option container
		rec := map[string]any{"op": "Acc6", "msg": proj6(m)}
		safeRec(rec, func() {
			rec["dns"] = ipList16(m.Options.DNS())
			rec["search"] = labelsJSON(m.Options.DomainSearchList())
			rec["url"] = B([]byte(m.Options.BootFileURL()))
			req := []any{}
			for _, c := range m.Options.RequestedOptions() {
				req = append(req, u16b(uint16(c)))
			}
			rec["requested"] = req
			rec["ntp"] = ipList16(m.Options.NTPServers())
			rec["netboot"] = m.IsNetboot()
			rec["req23"] = m.IsOptionRequested(dhcpv6.OptionDNSRecursiveNameServer)
		})
		o.Emit(rec, "v6-accessors", m.ToBytes(), len(m.Options.Options) > 0)
		// --- netboot.GetNetConfFromPacketv6
		rec = map[string]any{"op": "NetConf6", "msg": proj6(m), "ok": false, "addrs": []any{}, "dns": []any{}, "search": []any{}, "ntp": []any{}}
		safeRec(rec, func() {
			nc, err := netboot.GetNetConfFromPacketv6(m)
			if err != nil {
				return
			}
			rec["ok"] = true
			addrs := []any{}
			for _, a := range nc.Addresses {
				ones, _ := a.IPNet.Mask.Size()
				if ones != 128 {
					rec["ok"] = "mask"
				}
				addrs = append(addrs, map[string]any{"ip": ip16(a.IPNet.IP), "pref": secs4(a.PreferredLifetime), "valid": secs4(a.ValidLifetime)})
			}
			rec["addrs"] = addrs
			rec["dns"] = ipList16(nc.DNSServers)
			rec["search"] = namesJSON(nc.DNSSearchList)
			rec["ntp"] = ipList16(nc.NTPServers)
		})
		o.Emit(rec, "netconf-v6", append([]byte("nc"), m.ToBytes()...), true)
		// --- ExtractMAC on the message and on relay chains around it
		var d dhcpv6.DHCPv6 = m
		for k := rng.Intn(4); k > 0; k-- {
			peer := rip6(rng).To16() // (a hand-built relay whose peer address is a 4-byte net.IP makes ExtractMAC index out of range;
			// decoded relays always carry 16 bytes)
			if rng.Intn(2) == 0 { // EUI-64 style peer address
				peer = net.IP(append(append(randBytes(rng, 11), 0xff, 0xfe), randBytes(rng, 3)...))
			}
			r, _ := dhcpv6.EncapsulateRelay(d, dhcpv6.MessageTypeRelayForward, rip6(rng), peer)
			if rng.Intn(3) == 0 {
				r.AddOption(dhcpv6.OptClientLinkLayerAddress(1, net.HardwareAddr(randBytes(rng, pick(rng, 6, 6, 0, 8)))))
			}
			if rng.Intn(8) == 0 {
				r.Options.Del(dhcpv6.OptionRelayMsg) // malformed chain
			}
			d = r
		}
		rec = map[string]any{"op": "ExtractMAC", "msg": proj6(d), "ok": false, "mac": []int{}}
		safeRec(rec, func() {
			mac, err := dhcpv6.ExtractMAC(d)
			if err == nil && mac != nil {
				rec["ok"], rec["mac"] = true, B(mac)
			}
		})
		o.Emit(rec, "extract-mac", append([]byte("mac"), d.ToBytes()...), true)
		// --- DHCPv4: netconf and IsOptionRequested
		p := randPacket4(rng, 0, nil)
		p.Options = dhcpv4.Options{}
		p.YourIPAddr = []net.IP{net.IPv4zero, net.IPv4(10, 1, 2, 3).To4(), net.IP(randBytes(rng, 4))}[rng.Intn(3)]
		put := func(c uint8, good []byte) {
			switch rng.Intn(5) {
			case 0:
			case 1:
				p.Options[c] = randBytes(rng, 1+rng.Intn(9))
			default:
				p.Options[c] = good
			}
		}
		put(1, net.CIDRMask(pick(rng, 0, 8, 24, 32, rng.Intn(33)), 32))
		if rng.Intn(6) == 0 {
			p.Options[1] = []byte{255, 0, 255, 0} // non-contiguous mask
		}
		put(3, randBytes(rng, 4*(1+rng.Intn(2))))
		put(6, randBytes(rng, 4*(1+rng.Intn(3))))
		put(42, randBytes(rng, 4))
		put(51, randBytes(rng, 4))
		put(119, (&rfc1035label.Labels{Labels: randNames(rng)}).ToBytes())
		put(55, randBytes(rng, 1+rng.Intn(6)))
		q, err := dhcpv4.FromBytes(p.ToBytes())
		if err != nil {
			continue
		}
		rec = map[string]any{"op": "NetConf4", "pkt": proj4(q), "ok": false}
		safeRec(rec, func() {
			nc, err := netboot.GetNetConfFromPacketv4(q)
			if err != nil || len(nc.Addresses) != 1 {
				return
			}
			rec["ok"] = true
			a := nc.Addresses[0]
			rec["ip"] = ip4(a.IPNet.IP)
			rec["mask"] = B(a.IPNet.Mask)
			rec["lease"] = secs4(a.ValidLifetime)
			rec["dns"] = ipList4(nc.DNSServers)
			rec["routers"] = ipList4(nc.Routers)
			rec["ntp"] = ipList4(nc.NTPServers)
			rec["search"] = namesJSON(nc.DNSSearchList)
		})
		o.Emit(rec, "netconf-v4", append([]byte("nc4"), q.ToBytes()...), true)
		code := pick(rng, 1, 3, 6, 55, rng.Intn(256))
		rec = map[string]any{"op": "Req4", "pkt": proj4(q), "code": code}
		safeRec(rec, func() { rec["res"] = q.IsOptionRequested(dhcpv4.GenericOptionCode(code)) })
		o.Emit(rec, "is-option-requested-v4", append([]byte{byte(code)}, q.ToBytes()...), true)
		hc := pick(rng, 1, 3, 6, 51, 55, 119, rng.Intn(256))
		rec = map[string]any{"op": "Has4", "pkt": proj4(q), "code": hc}
		safeRec(rec, func() { rec["res"] = q.Options.Has(dhcpv4.GenericOptionCode(hc)) })
		o.Emit(rec, "options-has-v4", append([]byte{'h', byte(hc)}, q.ToBytes()...), true)
	}
	_ = time.Second
}
