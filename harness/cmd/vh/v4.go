package main

import (
	"time"
	"reflect"
	"fmt"
	"math/rand"
	"net"
	"sort"

	"github.com/insomniacslk/dhcp/dhcpv4"
	"github.com/insomniacslk/dhcp/dhcpv6"
	"github.com/insomniacslk/dhcp/iana"
)

// ---- projection of a real *dhcpv4.DHCPv4 onto the spec's abstract packet

func ip4(ip net.IP) []int {
	if ip == nil {
		return []int{0, 0, 0, 0}
	}
	if v4 := ip.To4(); v4 != nil {
		return B(v4)
	}
	return B(ip) // not representable; will disagree with the spec
}

func proj4(p *dhcpv4.DHCPv4) map[string]any {
	codes := make([]int, 0, len(p.Options))
	for c := range p.Options {
		codes = append(codes, int(c))
	}
	sort.Ints(codes)
	opts := make([]map[string]any, 0, len(codes))
	for _, c := range codes {
		opts = append(opts, map[string]any{"c": c, "v": B(p.Options[uint8(c)])})
	}
	return map[string]any{
		"op": int(p.OpCode), "htype": int(p.HWType), "hops": int(p.HopCount),
		"xid": B(p.TransactionID[:]), "secs": int(p.NumSeconds), "flags": int(p.Flags),
		"ci": ip4(p.ClientIPAddr), "yi": ip4(p.YourIPAddr), "si": ip4(p.ServerIPAddr), "gi": ip4(p.GatewayIPAddr),
		"ch": B(p.ClientHWAddr), "sn": B([]byte(p.ServerHostName)), "fn": B([]byte(p.BootFileName)),
		"opts": opts,
	}
}

// dec4 runs the real decoder under recover and returns the spec-shaped outcome.
// reuse overwrites a buffer the way the next datagram would
func reuse(b []byte) {
	for i := range b {
		b[i] = b[i]*31 + 0x5b
	}
}

// ownDecoded: what a decoder returns belongs to the caller, who may write into it (a relay sets giaddr in place, a
// server edits options): after a value has been projected, every byte it can reach is overwritten, so that a later
// decode which shares memory with it shows
var ownDecoded = true

func dec4(b []byte) (out map[string]any, p *dhcpv4.DHCPv4) {
	out, p = dec4keep(b)
	if p != nil && ownDecoded {
		cp, err := dhcpv4.FromBytes(append([]byte(nil), b...)) // the value handed to the caller stays intact; its twin is written over
		if err == nil {
			scribbleValue(reflect.ValueOf(cp), 0)
		}
	}
	return
}

func dec4keep(b []byte) (out map[string]any, p *dhcpv4.DHCPv4) {
	defer func() {
		if r := recover(); r != nil {
			out = map[string]any{"panic": fmt.Sprint(r)}
			p = nil
		}
	}()
	in := append([]byte(nil), b...)
	p, err := dhcpv4.FromBytes(in)
	if err != nil {
		return map[string]any{"ok": false}, nil
	}
	reuse(in) // the caller's buffer receives the next datagram: the decoded value is read after that
	return map[string]any{"ok": true, "val": proj4(p)}, p
}

// StdHeader4 is the fixed BOOTP header + cookie placed in front of enumerated
// option areas; the same constant is defined in spec/trace/Trace_Dhcp4.tla.
func stdHeader4() []byte {
	h := make([]byte, 240)
	h[0], h[1], h[2], h[3] = 2, 1, 6, 0
	copy(h[4:8], []byte{1, 2, 3, 4})
	copy(h[28:34], []byte{10, 11, 12, 13, 14, 15})
	copy(h[236:240], []byte{99, 130, 83, 99})
	return h
}

// ---- random packets over the real (C01) domain

var boundaryLens = []int{0, 1, 2, 254, 255, 256, 257, 509, 510, 511, 764, 765, 766, 1019, 1020, 1021, 4095, 4096}

func randBytes(rng *rand.Rand, n int) []byte {
	b := make([]byte, n)
	for i := range b {
		b[i] = byte(rng.Intn(256))
	}
	return b
}
func randNoNul(rng *rand.Rand, n int) string {
	b := make([]byte, n)
	for i := range b {
		b[i] = byte(1 + rng.Intn(255))
	}
	return string(b)
}
func pick(rng *rand.Rand, xs ...int) int { return xs[rng.Intn(len(xs))] }

// addresses with a meaning of their own (link-local, loopback, multicast, broadcast, "this network", CGNAT, private):
// the codec and the builders carry addresses, they do not judge them
var specialIPs = []net.IP{{169, 254, 1, 2}, {127, 0, 0, 1}, {224, 0, 0, 1}, {239, 255, 255, 250}, {0, 0, 0, 1}, {100, 64, 0, 1}, {192, 168, 0, 1}, {240, 0, 0, 1}, {10, 0, 0, 0}, {10, 255, 255, 255}}

func randIP(rng *rand.Rand) net.IP {
	if rng.Intn(5) == 0 {
		return append(net.IP(nil), specialIPs[rng.Intn(len(specialIPs))]...)
	}
	switch rng.Intn(4) {
	case 0:
		return nil
	case 1:
		return net.IPv4(byte(rng.Intn(256)), byte(rng.Intn(256)), byte(rng.Intn(256)), byte(rng.Intn(256))) // 16-byte mapped form
	case 2:
		return net.IP{255, 255, 255, 255}
	default:
		return net.IP(randBytes(rng, 4))
	}
}

// randPacket4 builds a packet value in the encodable domain of C01. lenHint<0: random lengths.
func randPacket4(rng *rand.Rand, nopts int, lens []int) *dhcpv4.DHCPv4 {
	p := &dhcpv4.DHCPv4{
		OpCode:         dhcpv4.OpcodeType(pick(rng, 0, 1, 2, 3, 255, rng.Intn(256))),
		HWType:         iana.HWType(pick(rng, 0, 1, 6, 255, rng.Intn(256))),
		HopCount:       uint8(pick(rng, 0, 1, 255, rng.Intn(256))),
		NumSeconds:     uint16(pick(rng, 0, 1, 255, 256, 65535, rng.Intn(65536))),
		Flags:          uint16(pick(rng, 0, 0x8000, 1, 0xffff, rng.Intn(65536))),
		ClientIPAddr:   randIP(rng),
		YourIPAddr:     randIP(rng),
		ServerIPAddr:   randIP(rng),
		GatewayIPAddr:  randIP(rng),
		ClientHWAddr:   net.HardwareAddr(randBytes(rng, pick(rng, 0, 1, 6, 8, 15, 16, rng.Intn(17)))),
		ServerHostName: randNoNul(rng, pick(rng, 0, 1, 62, 63, rng.Intn(64))),
		BootFileName:   randNoNul(rng, pick(rng, 0, 1, 126, 127, rng.Intn(128))),
	}
	copy(p.TransactionID[:], rxid(rng, 4))
	if rng.Intn(8) == 0 {
		p.ClientHWAddr = nil
	}
	if rng.Intn(10) != 0 || nopts > 0 {
		p.Options = dhcpv4.Options{}
	}
	for i := 0; i < nopts; i++ {
		var code int
		switch rng.Intn(5) {
		case 0:
			code = pick(rng, 1, 82, 254, 53, 55, 81, 83)
		default:
			code = 1 + rng.Intn(254)
		}
		var n int
		if len(lens) > 0 {
			n = lens[rng.Intn(len(lens))]
		} else {
			n = rng.Intn(40)
		}
		var v []byte
		switch rng.Intn(4) {
		case 0:
			v = make([]byte, n) // zeros: looks like padding
		case 1:
			v = make([]byte, n)
			for j := range v {
				v[j] = 255 // looks like End
			}
		default:
			v = randBytes(rng, n)
		}
		if n == 0 && rng.Intn(2) == 0 {
			v = nil
		}
		p.Options[uint8(code)] = v
	}
	return p
}

// abstract4 is the abstract value of a constructed packet (the C01 input side).
func abstract4(p *dhcpv4.DHCPv4) map[string]any { return proj4(p) }

func enc4(p *dhcpv4.DHCPv4) (b []byte, perr any) {
	defer func() {
		if r := recover(); r != nil {
			perr = fmt.Sprint(r)
		}
	}()
	b = p.ToBytes()
	laterEncodings()
	return b, nil
}

// laterEncodings: other messages are encoded before the caller looks at the bytes it was given — an encoding
// is the caller's own buffer (it is kept, sent later, compared), whatever the library encodes afterwards
var other4s, other4l *dhcpv4.DHCPv4
var other6 dhcpv6.DHCPv6

func laterEncodings() {
	if other4s == nil {
		other4s, _ = dhcpv4.New(dhcpv4.WithMessageType(dhcpv4.MessageTypeInform), dhcpv4.WithOption(dhcpv4.OptHostName("another-host")))
		other4l, _ = dhcpv4.New(dhcpv4.WithGeneric(dhcpv4.GenericOptionCode(43), make([]byte, 700)))
		m, _ := dhcpv6.NewMessage()
		m.AddOption(dhcpv6.OptClientID(&dhcpv6.DUIDLL{HWType: 1, LinkLayerAddr: []byte{9, 8, 7, 6, 5, 4}}))
		m.AddOption(dhcpv6.OptDNS(net.ParseIP("2001:db8::53")))
		other6, _ = dhcpv6.EncapsulateRelay(m, dhcpv6.MessageTypeRelayForward, net.ParseIP("2001:db8::1"), net.ParseIP("fe80::1"))
	}
	_ = other4s.ToBytes()
	_ = other4l.ToBytes()
	_ = other6.ToBytes()
}

func init() {
	gens["c04"] = genC04
	gens["c01"] = genC01
}

// meaningfulPackets: packets as the protocol means them (the codec treats every option as bytes and every message the
// same - an encoder that starts to look at what it carries must still be the identity):
//   - every message type x both opcodes, with the options such messages carry (server identifier, lease time, mask,
//     routers, TFTP server name and boot file name as options 66 / 67, parameter request list ...), with the header's
//     sname / file fields empty or in use;
//   - options whose value has an inner structure (relay agent information, vendor-specific, classless routes, user
//     class, vendor-identifying class) longer than one instance holds, with inner items of 0, 1, 253, 254 and 255 octets
//     at every position relative to the 255-octet instance boundary;
//   - empty options next to options large enough to push the packet beyond the 300-octet minimum.
func meaningfulPackets(rng *rand.Rand, f func(*dhcpv4.DHCPv4)) {
	ip := func() net.IP { return net.IPv4(10, byte(rng.Intn(256)), byte(rng.Intn(256)), byte(1+rng.Intn(254))).To4() }
	for mt := 0; mt <= 8; mt++ {
		for op := 1; op <= 2; op++ {
			for names := 0; names < 3; names++ {
				p, _ := dhcpv4.New()
				copy(p.TransactionID[:], rxid(rng, 4))
				p.OpCode = dhcpv4.OpcodeType(op)
				if mt > 0 {
					p.UpdateOption(dhcpv4.OptMessageType(dhcpv4.MessageType(mt)))
				}
				p.YourIPAddr, p.ServerIPAddr = ip(), ip()
				p.UpdateOption(dhcpv4.OptServerIdentifier(ip()))
				p.UpdateOption(dhcpv4.OptIPAddressLeaseTime(time.Duration(rng.Intn(100000)) * time.Second))
				p.UpdateOption(dhcpv4.OptSubnetMask(net.CIDRMask(24, 32)))
				p.UpdateOption(dhcpv4.OptRouter(ip()))
				p.UpdateOption(dhcpv4.OptParameterRequestList(dhcpv4.OptionRouter, dhcpv4.OptionSubnetMask, dhcpv4.OptionBootfileName, dhcpv4.OptionTFTPServerName))
				if names != 1 {
					p.UpdateOption(dhcpv4.OptTFTPServerName("tftp.example"))
					p.UpdateOption(dhcpv4.OptBootFileName("boot/pxelinux.0"))
				}
				if names == 2 {
					p.ServerHostName, p.BootFileName = "sname.example", "file.efi"
				}
				if mt%2 == 0 {
					p.UpdateOption(dhcpv4.OptGeneric(dhcpv4.GenericOptionCode(80), nil)) // rapid commit: an option without value
				}
				f(p)
			}
		}
	}
	sizes := []int{0, 1, 2, 253, 254, 255, 100}
	for _, code := range []int{82, 43, 121, 77, 124, 125} {
		for k := 0; k < 24; k++ {
			var v []byte
			for len(v) < 256+rng.Intn(600) {
				n := sizes[(k+len(v))%len(sizes)]
				if k%3 == 0 && len(v) == 0 {
					n = []int{254, 255, 253}[k/3%3] // a full-size item right at the start of the value
				}
				switch code {
				case 124, 125:
					v = append(v, 0, 0, 0, 9, byte(n))
				case 121:
					v = append(v, 32, 10, 0, 0, byte(len(v)), 10, 0, 0, 1)
					continue
				case 77:
					if n == 0 {
						n = 1
					}
					v = append(v, byte(n))
				default:
					v = append(v, byte(1+len(v)%9), byte(n))
				}
				v = append(v, randBytes(rng, n)...)
			}
			p, _ := dhcpv4.New()
			copy(p.TransactionID[:], rxid(rng, 4))
			p.UpdateOption(dhcpv4.OptGeneric(dhcpv4.GenericOptionCode(code), v))
			if k%2 == 0 {
				p.UpdateOption(dhcpv4.OptMessageType(dhcpv4.MessageTypeRequest))
			}
			f(p)
		}
	}
	// packets with a history: received from another implementation (options in any order, split, padded; any hlen; name
	// fields in use), then changed the way relays and servers change what they forward - and encoded like any other value:
	// what is written is a function of the contents, not of where the packet came from
	for k := 0; k < 60; k++ {
		w, _ := wirePacket4(rng)
		q, err := dhcpv4.FromBytes(w)
		if err != nil {
			continue
		}
		switch k % 6 {
		case 0: // nothing changed
		case 1:
			q.ClientHWAddr = net.HardwareAddr(randBytes(rng, []int{0, 1, 6, 8}[rng.Intn(4)])) // another (usually shorter) hardware address
		case 2:
			q.GatewayIPAddr, q.HopCount = ip(), q.HopCount+1
			q.UpdateOption(dhcpv4.OptRelayAgentInfo(dhcpv4.OptGeneric(dhcpv4.AgentCircuitIDSubOption, []byte("eth0"))))
		case 3:
			for c := range q.Options {
				q.DeleteOption(dhcpv4.GenericOptionCode(c))
				break
			}
			q.UpdateOption(dhcpv4.OptGeneric(dhcpv4.GenericOptionCode(3), ip()))
		case 4:
			q.ServerHostName, q.BootFileName = "", "other"
			q.NumSeconds, q.Flags = uint16(rng.Intn(65536)), 0x8000
		default:
			q.UpdateOption(dhcpv4.OptGeneric(dhcpv4.GenericOptionCode(250), randBytes(rng, 300)))
			q.UpdateOption(dhcpv4.OptGeneric(dhcpv4.GenericOptionCode(1), randBytes(rng, 4)))
		}
		f(q)
	}
	// many options at once, one or two of them longer than an instance holds (more than a dozen instances on the wire)
	for _, nsmall := range []int{8, 11, 12, 13, 20, 40} {
		for _, long := range []int{256, 300, 700, 3100, 4096} {
			p, _ := dhcpv4.New()
			copy(p.TransactionID[:], rxid(rng, 4))
			for i := 0; i < nsmall; i++ {
				p.UpdateOption(dhcpv4.OptGeneric(dhcpv4.GenericOptionCode(100+i), randBytes(rng, 1+rng.Intn(6))))
			}
			v := make([]byte, long)
			for i := range v {
				v[i] = byte(i / 255) // every instance has its own content: a misplaced one shows
			}
			p.UpdateOption(dhcpv4.OptGeneric(dhcpv4.GenericOptionCode(43), v))
			if nsmall%2 == 0 {
				p.UpdateOption(dhcpv4.OptGeneric(dhcpv4.GenericOptionCode(82), append([]byte{1, 254}, v[:254]...)))
			}
			f(p)
		}
	}
	// boot options that repeat what the header fields say, exactly and almost
	for k := 0; k < 6; k++ {
		p, _ := dhcpv4.New(dhcpv4.WithMessageType(dhcpv4.MessageTypeAck))
		copy(p.TransactionID[:], rxid(rng, 4))
		p.OpCode = dhcpv4.OpcodeBootReply
		p.ServerHostName, p.BootFileName = "tftp.example", "boot/pxelinux.0"
		sn, fn := p.ServerHostName, p.BootFileName
		if k%3 == 1 {
			sn, fn = sn+"x", fn[:len(fn)-1]
		}
		if k%3 != 2 {
			p.UpdateOption(dhcpv4.OptTFTPServerName(sn))
		}
		p.UpdateOption(dhcpv4.OptBootFileName(fn))
		if k >= 3 {
			p.UpdateOption(dhcpv4.OptGeneric(dhcpv4.GenericOptionCode(224), randBytes(rng, 200)))
		}
		f(p)
	}
	for _, big := range []int{0, 40, 60, 61, 200, 255, 256, 600} {
		for _, nEmpty := range []int{1, 2, 5} {
			p, _ := dhcpv4.New()
			copy(p.TransactionID[:], rxid(rng, 4))
			for i := 0; i < nEmpty; i++ {
				if i%2 == 0 {
					p.UpdateOption(dhcpv4.OptGeneric(dhcpv4.GenericOptionCode(80+i), nil))
				} else {
					p.UpdateOption(dhcpv4.OptGeneric(dhcpv4.GenericOptionCode(80+i), []byte{}))
				}
			}
			if big > 0 {
				p.UpdateOption(dhcpv4.OptGeneric(dhcpv4.GenericOptionCode(224), randBytes(rng, big)))
			}
			f(p)
		}
	}
}

// hwAndIdentifier: every hardware type with hardware addresses of 0 / 6 / 16 bytes, with and without a client
// identifier of the "type, address" shape: neither field is derived from the other, whatever the type
func hwAndIdentifier(rng *rand.Rand, f func(*dhcpv4.DHCPv4)) {
	meaningfulPackets(rng, f)
	for ht := 0; ht < 256; ht++ {
		for k := 0; k < 4; k++ {
			p := randPacket4(rng, rng.Intn(2), []int{0, 1, 4})
			if p.Options == nil {
				p.Options = dhcpv4.Options{}
			}
			p.HWType = iana.HWType(ht)
			p.ClientHWAddr = [][]byte{nil, randBytes(rng, 6), randBytes(rng, 16), {}}[(ht+k)%4]
			switch k {
			case 0:
				p.Options[61] = append([]byte{byte(ht)}, randBytes(rng, 6)...)
			case 1:
				p.Options[61] = append([]byte{byte(ht)}, randBytes(rng, 16)...)
			case 2:
				delete(p.Options, 61)
			default:
				p.Options[61] = randBytes(rng, 1+rng.Intn(20))
			}
			f(p)
		}
	}
}

// genC01: value -> ToBytes -> FromBytes; TLC checks wire = Enc4(val), Dec4(wire) = out = Canon(val).
func genC01(o *Out, rng *rand.Rand, tier string) {
	n := 1500
	if tier == "thorough" {
		n = 20000
	}
	nemit := 0
	emit := func(p *dhcpv4.DHCPv4, cls string) {
		val := abstract4(p)
		nemit++
		if nemit%3 == 0 { // a packet is logged before it is sent, as often as not
			func() {
				defer func() { recover() }()
				_ = p.Summary()
				_ = p.String()
			}()
		}
		w, perr := enc4(p)
		rec := map[string]any{"op": "RT4", "val": val}
		if perr != nil {
			rec["wire"] = []int{}
			rec["out"] = map[string]any{"panic": perr}
		} else {
			rec["wire"] = B(w)
			out, _ := dec4(w)
			rec["out"] = out
		}
		nontriv := len(p.Options) > 0
		o.Emit(rec, cls, w, nontriv)
	}
	// packets that are not sent the moment they are built: made now by the library's constructors, encoded at the end of this
	// run, more than a second later (a retransmission queue, a packet kept as a template) - what is encoded is the value
	born := time.Now()
	var later []*dhcpv4.DHCPv4
	for k := 0; k < 8; k++ {
		hw := net.HardwareAddr{2, 0, 0, 0, 1, byte(k)}
		var p *dhcpv4.DHCPv4
		switch k % 4 {
		case 0:
			p, _ = dhcpv4.NewDiscovery(hw)
		case 1:
			p, _ = dhcpv4.NewInform(hw, net.IPv4(10, 0, 0, byte(9+k)))
		case 2:
			p, _ = dhcpv4.New(dhcpv4.WithMessageType(dhcpv4.MessageTypeRequest), dhcpv4.WithHwAddr(hw))
		default:
			offer, _ := dhcpv4.New(dhcpv4.WithMessageType(dhcpv4.MessageTypeOffer), dhcpv4.WithHwAddr(hw), dhcpv4.WithYourIP(net.IPv4(10, 0, 0, 50)),
				dhcpv4.WithOption(dhcpv4.OptServerIdentifier(net.IPv4(10, 0, 0, 1))))
			p, _ = dhcpv4.NewRequestFromOffer(offer)
		}
		if p != nil {
			later = append(later, p)
		}
	}
	defer func() {
		if d := 1200*time.Millisecond - time.Since(born); d > 0 {
			time.Sleep(d)
		}
		for _, p := range later {
			emit(p, "encoded-later")
			emit(p, "encoded-later") // ... and once more
		}
	}()
	// every boundary length, alone and next to a neighbour option
	for _, L := range boundaryLens {
		for _, code := range []int{1, 82, 254, 120} {
			p := randPacket4(rng, 0, nil)
			p.Options = dhcpv4.Options{uint8(code): randBytes(rng, L)}
			emit(p, "boundary-single")
			p2 := randPacket4(rng, 2, []int{0, 3, 255})
			p2.Options[uint8(code)] = randBytes(rng, L)
			emit(p2, "boundary-mixed")
		}
	}
	// values around and beyond what 16 bits count (no datagram carries them, the encoder takes any packet value)
	for _, L := range []int{16383, 16384, 32767, 32768, 65279, 65280, 65535, 65536, 65537, 66000} {
		p := randPacket4(rng, 0, nil)
		p.Options = dhcpv4.Options{uint8(pick(rng, 43, 82, 224)): randBytes(rng, L)}
		emit(p, "boundary-16-bit")
	}
	// every length 0..780 once (covers every length around 255/510/765 exhaustively)
	for L := 0; L <= 780; L++ {
		if tier != "thorough" && L > 12 && (L%255 > 3 && L%255 < 252) && L%17 != 0 {
			continue
		}
		p := randPacket4(rng, 0, nil)
		p.Options = dhcpv4.Options{uint8(1 + rng.Intn(254)): randBytes(rng, L)}
		emit(p, "every-length")
	}
	// every option code with every small length, next to non-empty names (codes the library
	// gives a meaning to must still be carried verbatim)
	smallVals := [][]byte{{}, {0}, {1}, {2}, {3}, {255}, nil, {0, 1}, nil}
	for code := 1; code <= 254; code++ {
		for k, sv := range smallVals {
			v := append([]byte{}, sv...)
			if sv == nil {
				v = randBytes(rng, []int{1, 0, 0, 0, 0, 0, 1, 0, 4}[k])
			}
			if tier != "thorough" && k == 8 && code%4 != 0 {
				continue
			}
			p := randPacket4(rng, rng.Intn(2), []int{0, 1, 4})
			if p.Options == nil {
				p.Options = dhcpv4.Options{}
			}
			p.ServerHostName = randNoNul(rng, 1+rng.Intn(63))
			p.BootFileName = randNoNul(rng, 1+rng.Intn(127))
			p.Options[uint8(code)] = v
			emit(p, "every-code-small")
		}
	}
	hwAndIdentifier(rng, func(p *dhcpv4.DHCPv4) { emit(p, "hw-and-identifier") })
	for i := 0; i < n; i++ {
		switch i % 4 {
		case 0:
			emit(randPacket4(rng, rng.Intn(4), boundaryLens[:15]), "random-boundary")
		case 1:
			emit(randPacket4(rng, rng.Intn(13), nil), "random-small")
		case 2:
			emit(randPacket4(rng, 0, nil), "header-only")
		default:
			emit(randPacket4(rng, 1+rng.Intn(3), []int{0, 1, 255, 256, 300, 600}), "random-mixed")
		}
	}
}

// validPacket4Bytes: a well-formed wire packet that is not necessarily canonical
// (pads between options, split instances in any order, trailing garbage after End).
func wirePacket4(rng *rand.Rand) ([]byte, []int) {
	p := randPacket4(rng, 0, nil)
	p.Options = dhcpv4.Options{}
	hdr := p.ToBytes()[:240]
	hdr[2] = byte(pick(rng, 0, 1, 6, 16, 17, 255, rng.Intn(256))) // hlen, any value
	// chaddr/sname/file: arbitrary bytes, possibly with embedded NULs / no NUL at all
	for i := 28; i < 236; i++ {
		switch rng.Intn(6) {
		case 0:
			hdr[i] = 0
		default:
			hdr[i] = byte(rng.Intn(256))
		}
	}
	if rng.Intn(3) == 0 {
		for i := 44; i < 236; i++ {
			hdr[i] = byte(1 + rng.Intn(255))
		}
	}
	var lenPos []int
	area := []byte{}
	k := rng.Intn(8)
	for i := 0; i < k; i++ {
		for rng.Intn(4) == 0 {
			area = append(area, 0)
		}
		code := byte(pick(rng, 1, 2, 53, 82, 254, 1+rng.Intn(254)))
		n := pick(rng, 0, 1, 2, 4, 255, rng.Intn(30))
		area = append(area, code, byte(n))
		lenPos = append(lenPos, 240+len(area)-1)
		area = append(area, randBytes(rng, n)...)
	}
	area = append(area, 255)
	for j := rng.Intn(6); j > 0; j-- {
		area = append(area, byte(rng.Intn(256)))
	}
	return append(hdr, area...), lenPos
}

// genC04: byte strings -> FromBytes; TLC checks out = Dec4(in).
func code2byte(c int) byte { return byte(c) }

func genC04(o *Out, rng *rand.Rand, tier string) {
	maxLen, nvalid, nrand := 6, 24, 1500
	if tier == "thorough" {
		maxLen, nvalid, nrand = 7, 200, 20000
	}
	hdr := stdHeader4()
	emitArea := func(area []byte, cls string) {
		in := append(append([]byte(nil), hdr...), area...)
		out, _ := dec4(in)
		o.Emit(map[string]any{"op": "Dec4a", "area": B(area), "out": out}, cls, in, len(area) > 0)
	}
	var accepted [][]byte
	emit := func(in []byte, cls string) {
		out, p := dec4(in)
		o.Emit(map[string]any{"op": "Dec4", "in": B(in), "out": out}, cls, in, len(in) >= 236)
		if p != nil && len(accepted) < 3000 {
			accepted = append(accepted, append([]byte(nil), in...))
		}
	}
	defer func() {
		concurrentDecodes(accepted, func(in []byte) any { out, _ := dec4(in); return out }, func(in []byte, out any) {
			o.Emit(map[string]any{"op": "Dec4", "in": B(in), "out": out}, "concurrent-decoders", append([]byte("cc"), in...), true)
		})
	}()
	// (a) exhaustive small scope: every options area over the structural alphabet
	alpha := []byte{0, 1, 2, 3, 82, 255}
	for _, w := range overloadWires(rng) {
		emit(w, "option-overload-fields")
	}
	for _, w := range cookieWires(rng) {
		emit(w, "cookie-octets-among-the-options")
	}
	var rec func(cur []byte)
	rec = func(cur []byte) {
		emitArea(cur, "exhaustive-area")
		if len(cur) == maxLen {
			return
		}
		for _, a := range alpha {
			rec(append(cur, a))
		}
	}
	rec(nil)
	// (b) every truncation point, (c) corruption of every length byte and cookie byte
	for i := 0; i < nvalid; i++ {
		w, lenPos := wirePacket4(rng)
		emit(w, "valid-noncanonical")
		step := 1
		for cut := 0; cut < len(w); cut += step {
			emit(w[:cut], "truncation")
		}
		for _, pos := range append([]int{236, 237, 238, 239, 2}, lenPos...) {
			for _, d := range []int{-1, +1, 0x100, 0x1ff, 0x1fe, 0x80 ^ int(w[pos])} {
				m := append([]byte(nil), w...)
				if d >= 0x100 {
					m[pos] = byte(d & 0xff)
				} else {
					m[pos] = byte(int(m[pos]) + d)
				}
				emit(m, "corrupt-len-cookie")
			}
		}
	}
	// every hardware type of the registry (and a few outside it) with every hardware address length worth a thought:
	// the header is read the same way whatever the link is (chaddr = the first min(hlen,16) bytes)
	{
		htypes := []int{0, 1, 2, 6, 7, 15, 16, 18, 20, 23, 24, 27, 31, 32, 33, 37, 38, 100, 254, 255}
		hlens := []int{0, 1, 2, 4, 5, 6, 7, 8, 12, 15, 16, 17, 20, 21, 32, 64, 128, 255}
		for _, ht := range htypes {
			for _, hl := range hlens {
				w := append([]byte(nil), hdr...)
				w[1], w[2] = byte(ht), byte(hl)
				for i := 28; i < 44; i++ {
					w[i] = byte(0xa0 + i)
				}
				w = append(w, 53, 1, byte(1+(ht+hl)%8), 61, 3, 1, byte(ht), byte(hl), 255)
				emit(w, "hardware-type-by-address-length")
			}
		}
	}
	// (b0) options areas of the sizes fixed-format BOOTP knew (64-octet vend field: 60 after the cookie) and around them,
	// tiled exactly by options: with End as the last octet, with End and pad, and without any End (never well-formed)
	for _, size := range []int{4, 59, 60, 61, 63, 64, 72, 308, 312} {
		for variant := 0; variant < 6; variant++ {
			area := make([]byte, 0, size)
			with53 := variant%2 == 0
			room := size
			if variant/2 == 1 {
				room-- // End is the last octet
			}
			if variant/2 == 2 {
				room -= 3 // End, then two pad octets
			}
			if with53 && room >= 3 {
				area = append(area, 53, 1, 1)
			}
			for len(area) < room {
				left := room - len(area)
				if left == 1 {
					area = append(area, 0) // a pad octet
					break
				}
				n := left - 2
				if n > 20 && left > 24 {
					n = 3 + rng.Intn(17)
					if left-2-n == 1 {
						n--
					}
				}
				area = append(area, byte(60+len(area)%100), byte(n))
				area = append(area, randBytes(rng, n)...)
			}
			switch variant / 2 {
			case 1:
				area = append(area, 255)
			case 2:
				area = append(area, 255, 0, 0)
			}
			emit(append(append([]byte(nil), hdr...), area...), "exact-size-areas")
		}
	}
	// (b0') a dozen and more instances of a few codes in arbitrary order (an implementation that gathers and groups them
	// must keep each code's instances in order of appearance, however many there are)
	for _, cnt := range []int{11, 12, 13, 14, 17, 20, 33, 40, 64, 100} {
		for rep := 0; rep < 3; rep++ {
			w := append([]byte(nil), hdr...)
			for k := 0; k < cnt; k++ {
				code := []byte{43, 60, 82, 1, 43, 200}[rng.Intn(6)]
				n := 1 + rng.Intn(4)
				w = append(w, code, byte(n))
				for j := 0; j < n; j++ {
					w = append(w, byte(k*8+j))
				}
				if rng.Intn(6) == 0 {
					w = append(w, 0)
				}
			}
			emit(append(w, 255), "many-instances-mixed")
		}
	}
	// (b1) one option in very many instances: totals around and beyond what 16 bits count (larger than any datagram;
	// the decoder takes any byte string), and hundreds of tiny instances
	for _, spec := range [][2]int{{257, 255}, {258, 255}, {259, 255}, {300, 255}, {300, 1}, {1000, 0}, {700, 3}} {
		w := append([]byte(nil), hdr...)
		for k := 0; k < spec[0]; k++ {
			w = append(w, 43, byte(spec[1]))
			for j := 0; j < spec[1]; j++ {
				w = append(w, byte(k+j))
			}
		}
		emit(append(w, 255), "many-instances")
	}
	// (b2) every option code with a few small values, in a packet whose hardware address length and name fields
	// vary: plain names, names that look like option runs, bytes after the first NUL; no option may change how
	// the header is read
	for code := 1; code <= 254; code++ {
		for k, val := range [][]byte{{1}, {2}, {3}, {}, {1, code2byte(code)}} {
			h := append([]byte(nil), hdr...)
			switch (code + k) % 4 {
			case 0:
				copy(h[44:], "srv")
				copy(h[108:], "boot.img")
			case 1: // well-formed option runs in the name fields
				copy(h[44:], []byte{12, 2, 'h', 'i', 255})
				copy(h[108:], []byte{67, 3, 'a', 'b', 'c', 66, 1, 'x', 255})
			case 2: // bytes after the first NUL, option-like
				copy(h[44:], []byte{'s', 0, 53, 1, 5, 255})
				copy(h[108:], []byte{'f', 0, 51, 4, 0, 0, 1, 0})
			default:
				h[2] = byte([]int{0, 6, 16, 8}[(code/4)%4]) // hardware address length
				copy(h[108:], []byte{255})
			}
			area := append([]byte{byte(code), byte(len(val))}, val...)
			if k%2 == 0 {
				area = append([]byte{61, 7, h[1], 1, 2, 3, 4, 5, 6}, area...) // with a client identifier of the "type, address" shape
			}
			emit(append(append(h, area...), 255), "every-code-and-header")
		}
	}
	// (d) random / mutated packets up to 1500 bytes
	for i := 0; i < nrand; i++ {
		w, _ := wirePacket4(rng)
		switch i % 5 {
		case 0:
			for j := rng.Intn(4); j >= 0; j-- {
				w[rng.Intn(len(w))] = byte(rng.Intn(256))
			}
			emit(w, "mutated")
		case 1:
			for j := rng.Intn(3); j >= 0; j-- {
				w[240+rng.Intn(len(w)-240)] = byte(pick(rng, 0, 255, 1, rng.Intn(256)))
			}
			emit(w, "mutated-area")
		case 2:
			big := append(w[:240:240], randBytes(rng, rng.Intn(1261))...)
			emit(big, "random-area")
		case 3:
			emit(randBytes(rng, rng.Intn(1501)), "random")
		default:
			p := randPacket4(rng, rng.Intn(5), boundaryLens[:9])
			e := p.ToBytes()
			if len(e) > 1500 {
				e = e[:1500]
			}
			emit(e, "encoded-maybe-cut")
		}
	}
}
