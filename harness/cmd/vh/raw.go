package main

import (
	"context"
	"encoding/json"
	"errors"
	"fmt"
	"github.com/mdlayher/packet"
	"math/rand"
	"net"
	"os"
	"os/exec"
	"runtime/debug"
	"strconv"
	"strings"
	"time"

	"github.com/insomniacslk/dhcp/dhcpv4/client4"
	"github.com/insomniacslk/dhcp/dhcpv4/nclient4"
)

func init() { gens["c18"] = genC18 }

// scriptConn is the raw packet socket underneath BroadcastRawUDPConn.
type scriptConn struct {
	frames [][]byte
	sent   [][]byte
	kind   int // which addresses it reports (0: not chosen yet)
}

var errScriptEnd = errors.New("script exhausted")

// What the socket underneath reports as its own address and as the sender of a frame is the link layer's business: a packet
// socket reports hardware addresses (none on lo / tun / ppp; the host's own when the server runs on the same host), other
// transports report what they like. scriptAddrs cycles through the combinations, one per connection.
var scriptConns int

func (s *scriptConn) addrs() (local, from net.Addr) {
	if s.kind == 0 {
		scriptConns++
		s.kind = 1 + scriptConns%7
	}
	macA, macB := net.HardwareAddr{2, 0, 0, 0, 0, 0xa}, net.HardwareAddr{2, 0, 0, 0, 0, 0xb}
	switch s.kind {
	case 1:
		return &net.IPAddr{}, &net.IPAddr{}
	case 2:
		return &packet.Addr{HardwareAddr: macA}, &packet.Addr{HardwareAddr: macB}
	case 3:
		return &packet.Addr{HardwareAddr: macA}, &packet.Addr{HardwareAddr: macA} // the server is on this host
	case 4:
		return &packet.Addr{}, &packet.Addr{} // an interface without hardware addresses
	case 5:
		return &packet.Addr{HardwareAddr: net.HardwareAddr{0, 0, 0, 0, 0, 0}}, &packet.Addr{HardwareAddr: net.HardwareAddr{0, 0, 0, 0, 0, 0}} // lo
	case 6:
		return &net.UDPAddr{Port: 68}, &net.UDPAddr{IP: net.IPv4(10, 0, 0, 9), Port: 67}
	}
	return nil, nil
}

func (s *scriptConn) ReadFrom(b []byte) (int, net.Addr, error) {
	if len(s.frames) == 0 {
		return 0, nil, errScriptEnd
	}
	f := s.frames[0]
	s.frames = s.frames[1:]
	_, from := s.addrs()
	return copy(b, f), from, nil
}
func (s *scriptConn) WriteTo(b []byte, a net.Addr) (int, error) {
	s.sent = append(s.sent, append([]byte(nil), b...))
	return len(b), nil
}
func (s *scriptConn) Close() error                     { return nil }
func (s *scriptConn) LocalAddr() net.Addr              { l, _ := s.addrs(); return l }
func (s *scriptConn) SetDeadline(time.Time) error      { return nil }
func (s *scriptConn) SetReadDeadline(time.Time) error  { return nil }
func (s *scriptConn) SetWriteDeadline(time.Time) error { return nil }

// readTimed: a read on the raw layer over a scripted socket returns at once (a frame, or the script's end); one that is
// still running after five seconds is stuck in the library (reported as such: no frame may keep the reader busy for ever)
var rawHangs int

func readTimed(c net.PacketConn, b []byte) (n int, addr net.Addr, err error, hung bool) {
	type res struct {
		n    int
		addr net.Addr
		err  error
	}
	ch := make(chan res, 1)
	go func() {
		defer func() {
			if r := recover(); r != nil { // a panic in the library is reported like an error that no frame may cause
				ch <- res{0, nil, fmt.Errorf("panic: %v", r)}
			}
		}()
		n, a, e := c.ReadFrom(b)
		ch <- res{n, a, e}
	}()
	select {
	case r := <-ch:
		return r.n, r.addr, r.err, false
	case <-time.After(5 * time.Second):
		rawHangs++
		return 0, nil, errors.New("read did not return"), true
	}
}

// ---- one connection that has been up for a long time: tens of thousands of frames that are not for it go by (other
// ports, other protocols), then its own. Run in a child process with a goroutine stack limit of 8 MB: whatever the reader
// keeps per skipped frame - a counter, a stack frame - has that long to show.

// longConn produces n foreign frames and then one frame for port 68
type longConn struct {
	n, i int
	own  []byte
}

func (c *longConn) ReadFrom(b []byte) (int, net.Addr, error) {
	c.i++
	if c.i <= c.n {
		f := []byte{0x45, 0, 0, 30, byte(c.i >> 8), byte(c.i), 0, 0, 64, 17, 0, 0, 10, 0, 0, 9, 255, 255, 255, 255, 0, 67, byte(7 + c.i%50), byte(c.i), 0, 10, 0, 0, 'n', 'o'}
		if c.i%3 == 0 {
			f[9] = 6 // not UDP
		}
		return copy(b, f), &net.IPAddr{}, nil
	}
	if c.i == c.n+1 {
		return copy(b, c.own), &net.IPAddr{}, nil
	}
	return 0, nil, errScriptEnd
}
func (c *longConn) WriteTo(b []byte, a net.Addr) (int, error) { return len(b), nil }
func (c *longConn) Close() error                              { return nil }
func (c *longConn) LocalAddr() net.Addr                       { return &net.IPAddr{} }
func (c *longConn) SetDeadline(time.Time) error               { return nil }
func (c *longConn) SetReadDeadline(time.Time) error           { return nil }
func (c *longConn) SetWriteDeadline(time.Time) error          { return nil }

func rawLongMain(arg string) {
	debug.SetMaxStack(8 << 20)
	n, _ := strconv.Atoi(arg)
	own := []byte{0x45, 0, 0, 32, 0, 1, 0, 0, 64, 17, 0, 0, 10, 0, 0, 9, 255, 255, 255, 255, 0, 67, 0, 68, 0, 12, 0, 0, 'm', 'i', 'n', 'e'}
	c := nclient4.NewBroadcastUDPConn(&longConn{n: n, own: own}, &net.UDPAddr{Port: 68})
	res := map[string]any{"got": 0, "end": false, "payload": []int{}}
	func() {
		defer func() {
			if r := recover(); r != nil {
				res["panic"] = fmt.Sprint(r)
			}
		}()
		b := make([]byte, 100)
		k, _, err := c.ReadFrom(b)
		if err == nil {
			res["got"], res["payload"] = 1, B(b[:k])
			_, _, err = c.ReadFrom(b)
		}
		res["end"] = errors.Is(err, errScriptEnd)
	}()
	out, _ := json.Marshal(res)
	os.Stdout.Write(append([]byte("RESULT "), out...))
}

// rawLong runs rawLongMain in a child process and reports what it saw (a child that dies is reported as a panic)
func rawLong(n int) map[string]any {
	ctx, cancel := context.WithTimeout(context.Background(), 120*time.Second)
	defer cancel()
	outb, err := exec.CommandContext(ctx, os.Args[0], "rawlong", strconv.Itoa(n)).CombinedOutput()
	text := string(outb)
	rec := map[string]any{"op": "RLong", "n": n, "got": 0, "end": false, "payload": []int{}}
	if i := strings.LastIndex(text, "RESULT "); i >= 0 && err == nil {
		var r map[string]any
		if json.Unmarshal(outb[i+7:], &r) == nil {
			for k, v := range r {
				rec[k] = v
			}
			return rec
		}
	}
	if len(text) > 300 {
		text = text[:300]
	}
	rec["panic"] = "the process reading the frames died: " + fmt.Sprint(err) + ": " + strings.Join(strings.Fields(text), " ")
	return rec
}

func endpoint(ip net.IP, port int) map[string]any {
	return map[string]any{"ip": ip4(ip), "port": port}
}

// harness-side frame builder (independent of the library) for the read direction
type frameSpec struct {
	version, ihl int // ihl in 32-bit words
	tlDelta      int // total length = true length + tlDelta
	proto        int
	src, dst     net.IP
	sport, dport int
	payload      []byte
	pad          int // link-layer padding bytes after the IP packet
	cut          int // keep only the first cut bytes (-1: all)
	udpLenDelta  int
	cksum        bool // the UDP checksum is filled in (RFC 768, computed over pseudo-header, UDP header and payload); else 0: none
}

func sum16(b []byte) uint16 {
	var v uint32
	for i := 0; i+1 < len(b); i += 2 {
		v += uint32(b[i])<<8 | uint32(b[i+1])
	}
	if len(b)%2 == 1 {
		v += uint32(b[len(b)-1]) << 8
	}
	for v>>16 != 0 {
		v = v&0xffff + v>>16
	}
	return uint16(v)
}

func (fs frameSpec) build(rng *rand.Rand) []byte {
	hl := fs.ihl * 4
	if hl < 20 {
		hl = 20 // the header bytes exist even when the IHL field lies
	}
	h := make([]byte, hl)
	h[0] = byte(fs.version<<4 | fs.ihl&0xf)
	tl := hl + 8 + len(fs.payload) + fs.tlDelta
	if tl < 0 {
		tl = 0
	}
	h[2], h[3] = byte(tl>>8), byte(tl)
	// fields that say nothing about whose datagram this is: type of service, identification, don't-fragment, time to live
	h[1] = byte(pick(rng, 0, 0, 0x10, rng.Intn(256)))
	h[4], h[5] = byte(rng.Intn(256)), byte(rng.Intn(256))
	if rng.Intn(2) == 0 {
		h[6] = 0x40 // DF, as most stacks send
	}
	h[8] = byte(pick(rng, 64, 64, 1, 255, 128))
	h[9] = byte(fs.proto)
	copy(h[12:16], fs.src.To4())
	copy(h[16:20], fs.dst.To4())
	// IP options: what routers and hosts put there (no-operation, end of list, record route, timestamp, router alert,
	// security, loose / strict source route), well formed and not (length octets of 0 and 1, an option that runs past the
	// header), or anything at all - none of it says whose datagram this is
	if hl > 20 {
		opt := h[20:hl]
		switch rng.Intn(4) {
		case 0:
			for i := range opt {
				opt[i] = byte(rng.Intn(256))
			}
		case 1:
			for i := range opt {
				opt[i] = 1
			}
		default:
			for i := 0; i < len(opt); {
				t := byte(pick(rng, 1, 1, 0, 7, 68, 148, 130, 131, 137, 0x94, rng.Intn(256)))
				opt[i] = t
				if t == 0 || t == 1 {
					i++
					continue
				}
				if i+1 >= len(opt) {
					break
				}
				l := pick(rng, 3, 4, 7, 11, len(opt)-i, 0, 1, 2, 40)
				opt[i+1] = byte(l)
				for j := i + 2; j < i+l && j < len(opt); j++ {
					opt[j] = byte(rng.Intn(256))
				}
				if l < 2 {
					l = 2 + rng.Intn(3)
				}
				i += l
			}
		}
	}
	c := ^sum16(h)
	h[10], h[11] = byte(c>>8), byte(c)
	u := make([]byte, 8)
	u[0], u[1] = byte(fs.sport>>8), byte(fs.sport)
	u[2], u[3] = byte(fs.dport>>8), byte(fs.dport)
	ul := 8 + len(fs.payload) + fs.udpLenDelta
	u[4], u[5] = byte(ul>>8), byte(ul)
	if fs.cksum {
		ps := append(append(append([]byte{}, h[12:20]...), 0, 17, u[4], u[5]), u...)
		c := ^sum16(append(ps, fs.payload...))
		if c == 0 {
			c = 0xffff
		}
		u[6], u[7] = byte(c>>8), byte(c)
	}
	f := append(append(h, u...), fs.payload...)
	for i := 0; i < fs.pad; i++ {
		f = append(f, byte(rng.Intn(256)))
	}
	if fs.cut >= 0 && fs.cut < len(f) {
		f = f[:fs.cut]
	}
	return f
}

func randFrameSpec(rng *rand.Rand, boundPort int, boundIP net.IP) frameSpec {
	fs := frameSpec{version: 4, ihl: 5, proto: 17, src: net.IP(randBytes(rng, 4)), dst: net.IPv4bcast, sport: 67, dport: boundPort,
		payload: randBytes(rng, pick(rng, 0, 1, 2, 7, 8, 9, 240, 300, rng.Intn(600))), cut: -1}
	if rng.Intn(4) == 0 {
		// senders without an address yet (every client before it has a lease), broadcast, loopback, link-local, multicast sources:
		// the source is reported as it stands in the header
		fs.src = []net.IP{{0, 0, 0, 0}, {0, 0, 0, 0}, {255, 255, 255, 255}, {127, 0, 0, 1}, {169, 254, 1, 2}, {224, 0, 0, 1}, {10, 0, 0, 255}}[rng.Intn(7)]
		fs.sport = []int{68, 67, 0, 65535, 1024}[rng.Intn(5)]
	}
	if boundIP != nil && rng.Intn(2) == 0 {
		fs.dst = boundIP
	}
	fs.cksum = rng.Intn(2) == 0 // senders that checksum and senders that do not
	switch rng.Intn(16) {
	case 0:
		fs.ihl = 6 + rng.Intn(10)
	case 1:
		fs.pad = 1 + rng.Intn(20)
	case 2:
		fs.tlDelta = -pick(rng, 1, 7, 8, 9, len(fs.payload), len(fs.payload)+1, len(fs.payload)+8, len(fs.payload)+9)
		if rng.Intn(2) == 0 { // total length fields of 0, 1, 19, 20, 27, 28: the smallest values, whatever the frame holds
			fs.tlDelta = pick(rng, 0, 0, 1, 19, 20, 27, 28) - (20 + 8 + len(fs.payload))
		}
	case 3:
		fs.tlDelta = 1 + rng.Intn(40)
	case 4:
		fs.proto = pick(rng, 6, 1, 0, 255)
	case 5:
		fs.version = pick(rng, 6, 0, 5, 15)
	case 6:
		fs.cut = rng.Intn(20 + 8 + len(fs.payload) + 1)
		if fs.cut == 0 {
			fs.cut = 1 // a zero-length read is the EOF convention of the underlying conn, not a frame
		}
	case 7:
		fs.dport = pick(rng, 67, 69, 0, 65535, boundPort+256)
	case 8:
		fs.dst = net.IP(randBytes(rng, 4))
	case 9:
		fs.ihl = pick(rng, 0, 1, 4)
	case 10:
		fs.ihl = 6 + rng.Intn(10)
		fs.pad = rng.Intn(9)
	case 11:
		fs.tlDelta = -rng.Intn(len(fs.payload) + 1) // total length cuts the payload short (rest is padding)
		fs.pad = rng.Intn(4)
	case 12:
		fs.udpLenDelta = pick(rng, -8, -1, 1, 100)
	}
	return fs
}

func genC18(o *Out, rng *rand.Rand, tier string) {
	nW, nR := 1500, 2500
	if tier == "thorough" {
		nW, nR = 30000, 60000
	}
	// ---- write direction
	nwrite := 0
	writeOne := func(payload []byte, bound *net.UDPAddr, dst *net.UDPAddr, cls string) {
		sc := &scriptConn{}
		c := nclient4.NewBroadcastUDPConn(sc, bound)
		nwrite++
		if nwrite%3 == 0 {
			// the connection has a past: it has received frames (addressed to a unicast address, to broadcast, from various
			// senders) before it is written to - what it writes is a function of this call's arguments and the bound address
			for k := 1 + rng.Intn(3); k > 0; k-- {
				fs := frameSpec{version: 4, ihl: 5, proto: 17, src: net.IP(randBytes(rng, 4)), dst: net.IPv4(10, 9, byte(rng.Intn(256)), byte(1+rng.Intn(250))).To4(),
					sport: 67, dport: bound.Port, payload: randBytes(rng, 10+rng.Intn(40)), cut: -1}
				if bound.IP != nil && !bound.IP.IsUnspecified() && rng.Intn(2) == 0 {
					fs.dst = bound.IP.To4()
				}
				if fs.dst == nil {
					fs.dst = net.IPv4bcast.To4()
				}
				sc.frames = append(sc.frames, fs.build(rng))
			}
			func() {
				defer func() { recover() }()
				for {
					if _, _, err := c.ReadFrom(make([]byte, 1500)); err != nil {
						break
					}
				}
			}()
			sc.sent = nil
		}
		rec := map[string]any{"op": "W", "payload": B(payload), "src": endpoint(bound.IP, bound.Port), "dst": endpoint(dst.IP, dst.Port)}
		func() {
			defer func() {
				if r := recover(); r != nil {
					rec["panic"] = fmt.Sprint(r)
				}
			}()
			n, err := c.WriteTo(payload, dst)
			rec["n"] = n
			rec["err"] = err != nil
		}()
		rec["nframes"] = len(sc.sent)
		rec["frame"] = []int{}
		if len(sc.sent) > 0 {
			rec["frame"] = B(sc.sent[0])
		}
		o.Emit(rec, cls, append([]byte(bound.String()+dst.String()), payload...), len(payload) > 0)
	}
	ips := []net.IP{nil, net.IPv4zero, net.IPv4bcast, net.IPv4(10, 0, 0, 1), net.IPv4(192, 168, 255, 254)}
	randIPx := func() net.IP {
		if rng.Intn(2) == 0 {
			return ips[rng.Intn(len(ips))]
		}
		return net.IP(randBytes(rng, 4))
	}
	for L := 0; L <= 64; L++ { // every small length, carry-stressing patterns
		for _, fill := range []int{0x00, 0xff, 0x01, -1} {
			p := make([]byte, L)
			for i := range p {
				if fill < 0 {
					p[i] = byte(rng.Intn(256))
				} else {
					p[i] = byte(fill)
				}
			}
			writeOne(p, &net.UDPAddr{IP: randIPx(), Port: 68}, &net.UDPAddr{IP: net.IPv4bcast, Port: 67}, "every-length")
		}
	}
	for _, L := range []int{299, 300, 301, 548, 575, 576, 1023, 1024, 1471, 1472, 1499, 1500} {
		for _, fill := range []int{0x00, 0xff, -1} {
			p := make([]byte, L)
			for i := range p {
				if fill < 0 {
					p[i] = byte(rng.Intn(256))
				} else {
					p[i] = byte(fill)
				}
			}
			writeOne(p, &net.UDPAddr{IP: randIPx(), Port: pick(rng, 68, 0, 65535)}, &net.UDPAddr{IP: randIPx().To4(), Port: pick(rng, 67, 65535, 0)}, "boundary-length")
		}
	}
	// sums that carry again and again: payloads of all ones at every length, between endpoints that are all ones,
	// all zeroes or ordinary; and datagrams far larger than an Ethernet frame (the sum exceeds 16, 24, 32 bits)
	step := 7
	if tier == "thorough" {
		step = 1
	}
	ends := [][2]*net.UDPAddr{{{IP: net.IPv4zero, Port: 68}, {IP: net.IPv4bcast, Port: 67}}, {{IP: net.IPv4(10, 0, 0, 1), Port: 68}, {IP: net.IPv4(10, 0, 0, 2).To4(), Port: 67}},
		{{IP: net.IPv4bcast, Port: 65535}, {IP: net.IPv4bcast, Port: 65535}}}
	ones := func(n int) []byte {
		p := make([]byte, n)
		for i := range p {
			p[i] = 0xff
		}
		return p
	}
	for L := 65; L <= 1500; L += step {
		e := ends[(L/step)%3]
		writeOne(ones(L), e[0], e[1], "carry-stress")
	}
	for _, L := range []int{298, 299, 300, 301, 302, 2048, 4096, 9000} {
		for _, e := range ends {
			writeOne(ones(L), e[0], e[1], "carry-stress")
		}
	}
	// the 1-in-65536 payloads whose UDP checksum computes to zero (RFC 768 substitution)
	for hi := 0; hi < 256; hi++ {
		for lo := 0; lo < 256; lo += 1 {
			if tier != "thorough" && !(hi == 0xeb && lo == 0x50) && (hi*256+lo)%97 != 0 {
				continue
			}
			writeOne([]byte{byte(hi), byte(lo)}, &net.UDPAddr{IP: net.IPv4(10, 0, 0, 1), Port: 68}, &net.UDPAddr{IP: net.IPv4(10, 0, 0, 2), Port: 67}, "two-byte-sweep")
		}
	}
	for i := 0; i < nW; i++ {
		dst := randIPx().To4()
		if dst == nil {
			dst = net.IPv4bcast.To4()
		}
		writeOne(randBytes(rng, pick(rng, rng.Intn(64), rng.Intn(1501), 300)), &net.UDPAddr{IP: randIPx(), Port: rng.Intn(65536)},
			&net.UDPAddr{IP: dst, Port: rng.Intn(65536)}, "random")
	}
	// the deprecated client's frame builder: layout only (checksums are left to the kernel)
	for i := 0; i < 200; i++ {
		p := randBytes(rng, rng.Intn(600))
		srv := net.UDPAddr{IP: net.IP(randBytes(rng, 4)), Port: rng.Intn(65536)}
		cli := net.UDPAddr{IP: net.IP(randBytes(rng, 4)), Port: rng.Intn(65536)}
		rec := map[string]any{"op": "M", "payload": B(p), "src": endpoint(cli.IP, cli.Port), "dst": endpoint(srv.IP, srv.Port), "frame": []int{}}
		func() {
			defer func() {
				if r := recover(); r != nil {
					rec["panic"] = fmt.Sprint(r)
				}
			}()
			f, err := client4.MakeRawUDPPacket(p, srv, cli)
			rec["err"] = err != nil
			rec["frame"] = B(f)
		}()
		o.Emit(rec, "client4-makeraw", p, true)
	}
	// ---- read direction: one well-formed frame (with and without IP options / padding) cut at every offset
	for _, ihl := range []int{5, 6, 15} {
		fs := frameSpec{version: 4, ihl: ihl, proto: 17, src: net.IPv4(10, 0, 0, 9).To4(), dst: net.IPv4bcast.To4(), sport: 67, dport: 68,
			payload: randBytes(rng, 40), pad: 6, cut: -1}
		full := fs.build(rng)
		for cut := 1; cut <= len(full); cut++ {
			f := full[:cut]
			sc := &scriptConn{frames: [][]byte{f, full}}
			c := nclient4.NewBroadcastUDPConn(sc, &net.UDPAddr{Port: 68})
			res := []any{}
			rec := map[string]any{"op": "R", "frames": []any{B(f), B(full)}, "buflen": 1500, "bound": map[string]any{"ip": []int{}, "port": 68}}
			func() {
				defer func() {
					if r := recover(); r != nil {
						rec["panic"] = fmt.Sprint(r)
					}
				}()
				for {
					b := make([]byte, 1500)
					n, addr, err, hung := readTimed(c, b)
					if hung {
						rec["hang"] = true
					}
					if err != nil && strings.HasPrefix(err.Error(), "panic: ") {
						rec["panic"] = err.Error()
					}
					if err != nil {
						rec["end"] = errors.Is(err, errScriptEnd)
						return
					}
					u := addr.(*net.UDPAddr)
					res = append(res, map[string]any{"payload": B(b[:n]), "src": endpoint(u.IP, u.Port)})
				}
			}()
			rec["res"] = res
			o.Emit(rec, "read-truncated-at-every-offset", append([]byte{byte(ihl), byte(cut)}, f...), true)
		}
	}
	// ---- read direction: the caller's buffer is exactly as large as the payload (the smallest buffer the property speaks
	// about), whatever else the frame carries around it: IP options up to the 60-byte header, link-layer padding
	for _, plen := range []int{0, 1, 8, 40, 240, 300, 548} {
		if rawHangs >= 3 {
			break
		}
		for _, ihl := range []int{5, 6, 10, 15} {
			for _, pad := range []int{0, 1, 6, 18, 40, 46, 60} {
				fs := frameSpec{version: 4, ihl: ihl, proto: 17, src: net.IPv4(10, 0, 0, 9).To4(), dst: net.IPv4bcast.To4(), sport: 67, dport: 68,
					payload: randBytes(rng, plen), pad: pad, cut: -1, cksum: (plen+ihl+pad)%2 == 0}
				f := fs.build(rng)
				sc := &scriptConn{frames: [][]byte{f}}
				c := nclient4.NewBroadcastUDPConn(sc, &net.UDPAddr{Port: 68})
				res := []any{}
				rec := map[string]any{"op": "R", "frames": []any{B(f)}, "buflen": plen, "bound": map[string]any{"ip": []int{}, "port": 68}}
				func() {
					defer func() {
						if r := recover(); r != nil {
							rec["panic"] = fmt.Sprint(r)
						}
					}()
					for {
						b := make([]byte, plen)
						n, addr, err, hung := readTimed(c, b)
						if hung {
							rec["hang"] = true
						}
						if err != nil && strings.HasPrefix(err.Error(), "panic: ") {
							rec["panic"] = err.Error()
						}
						if err != nil {
							rec["end"] = errors.Is(err, errScriptEnd)
							return
						}
						u := addr.(*net.UDPAddr)
						res = append(res, map[string]any{"payload": B(b[:n]), "src": endpoint(u.IP, u.Port)})
					}
				}()
				rec["res"] = res
				o.Emit(rec, "read-exact-buffer", append([]byte{byte(ihl), byte(pad), byte(plen), byte(plen >> 8)}, f...), true)
			}
		}
	}
	// ---- read direction: a connection that has been up for a long time
	for _, cnt := range []int{1000, 70000, 400000} {
		o.Emit(rawLong(cnt), "read-after-many-foreign-frames", []byte(fmt.Sprint("rlong", cnt)), true)
	}
	// ---- read direction: sequences of frames
	for i := 0; i < nR && rawHangs < 3; i++ { // (every stuck read leaves a goroutine spinning: three are evidence enough)
		var boundIP net.IP
		if rng.Intn(3) == 0 {
			boundIP = net.IPv4(10, 0, 0, byte(1+rng.Intn(3)))
		}
		bound := &net.UDPAddr{IP: boundIP, Port: pick(rng, 68, 68, 1068)}
		unbound := rng.Intn(7) == 0 // no bound address at all: every UDP datagram is this connection's
		nf := 1 + rng.Intn(5)
		sc := &scriptConn{}
		var frames []any
		for k := 0; k < nf; k++ {
			f := randFrameSpec(rng, bound.Port, boundIP).build(rng)
			sc.frames = append(sc.frames, f)
			frames = append(frames, B(f))
		}
		buflen := pick(rng, 1500, 1500, 700) // never smaller than a payload: behaviour for undersized buffers is not part of C18
		c := nclient4.NewBroadcastUDPConn(sc, bound)
		res := []any{}
		rec := map[string]any{"op": "R", "frames": frames, "buflen": buflen}
		bip := []int{}
		if boundIP != nil {
			bip = B(boundIP.To4())
		}
		rec["bound"] = map[string]any{"ip": bip, "port": bound.Port}
		if unbound {
			c = nclient4.NewBroadcastUDPConn(sc, nil)
			rec["bound"] = map[string]any{"ip": []int{}, "port": -1}
		}
		var held []*net.UDPAddr // the addresses handed out, looked at only after the last read
		func() {
			defer func() {
				if r := recover(); r != nil {
					rec["panic"] = fmt.Sprint(r)
				}
			}()
			for {
				b := make([]byte, buflen)
				n, addr, err, hung := readTimed(c, b)
				if hung {
					rec["hang"] = true
				}
				if err != nil && strings.HasPrefix(err.Error(), "panic: ") {
					rec["panic"] = err.Error()
				}
				if err != nil {
					rec["end"] = errors.Is(err, errScriptEnd)
					return
				}
				u, _ := addr.(*net.UDPAddr)
				held = append(held, u)
				res = append(res, map[string]any{"payload": B(b[:n])})
			}
		}()
		for i, u := range held {
			src := map[string]any{"ip": []int{}, "port": -1}
			if u != nil {
				src = endpoint(u.IP, u.Port)
			}
			res[i].(map[string]any)["src"] = src
		}
		rec["res"] = res
		key := []byte{}
		for _, f := range sc.frames {
			key = append(key, f...)
		}
		for _, f := range frames {
			for _, x := range f.([]int) {
				key = append(key, byte(x))
			}
		}
		o.Emit(rec, "read-sequence", key, nf >= 2)
	}
}
