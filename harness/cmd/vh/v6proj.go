package main

import (
	"fmt"
	"sync/atomic"
	"net"
	"reflect"
	"time"

	"github.com/insomniacslk/dhcp/dhcpv6"
	"github.com/insomniacslk/dhcp/iana"
	"github.com/insomniacslk/dhcp/rfc1035label"
)

// ---- projection of real DHCPv6 values onto the value trees of spec/Dhcp6Wire.tla.
// Only typed fields are read (never ToBytes of a typed option), so that what the decoder
// produced is compared with what the specification reads from the same bytes.

func u16b(x uint16) []int { return []int{int(x >> 8), int(x & 0xff)} }
func u32b(x uint32) []int { return []int{int(x >> 24), int(x >> 16 & 0xff), int(x >> 8 & 0xff), int(x & 0xff)} }

// secs4: whole seconds as a 4-byte field; anything else is out of the domain and is shown as such
func secs4(d time.Duration) any {
	if d < 0 || d%time.Second != 0 || d/time.Second > 0xffffffff {
		return []int{-1, -1, -1, -1} // not representable on the wire: matches no 4-byte field
	}
	return u32b(uint32(d / time.Second))
}
func ip16(ip net.IP) []int {
	if v := ip.To16(); v != nil {
		return B(v)
	}
	return make([]int, 16)
}
func items(bs [][]byte) []any {
	out := make([]any, 0, len(bs))
	for _, b := range bs {
		out = append(out, B(b))
	}
	return out
}
func labelsJSON(l *rfc1035label.Labels) []any {
	if l == nil {
		return []any{}
	}
	return namesJSON(l.Labels)
}

func projDUID(d dhcpv6.DUID) []any {
	switch x := d.(type) {
	case *dhcpv6.DUIDLLT:
		return []any{u16b(1), u16b(uint16(x.HWType)), u32b(x.Time), B(x.LinkLayerAddr)}
	case *dhcpv6.DUIDEN:
		return []any{u16b(2), u32b(x.EnterpriseNumber), B(x.EnterpriseIdentifier)}
	case *dhcpv6.DUIDLL:
		return []any{u16b(3), u16b(uint16(x.HWType)), B(x.LinkLayerAddr)}
	case *dhcpv6.DUIDUUID:
		return []any{u16b(4), B(x.UUID[:])}
	case *dhcpv6.DUIDOpaque:
		return []any{u16b(uint16(x.Type)), B(x.Data)}
	}
	return []any{[]int{-1}}
}

func field(o dhcpv6.Option, name string) reflect.Value {
	v := reflect.ValueOf(o)
	if v.Kind() == reflect.Ptr {
		v = v.Elem()
	}
	return v.FieldByName(name)
}

func projOpts(os dhcpv6.Options, tab string) []any {
	out := make([]any, 0, len(os))
	for _, o := range os {
		out = append(out, projOpt(o, tab))
	}
	return out
}

func projOpt(o dhcpv6.Option, tab string) map[string]any {
	c := int(o.Code())
	mk := func(v ...any) map[string]any { return map[string]any{"c": c, "v": v} }
	if g, ok := o.(*dhcpv6.OptionGeneric); ok {
		return mk(B(g.OptionData))
	}
	if tab == "vendor" {
		return mk(B(o.ToBytes()))
	}
	if tab == "ntp" {
		switch x := o.(type) {
		case *dhcpv6.NTPSuboptionSrvAddr:
			return mk(ip16(net.IP(*x)))
		case *dhcpv6.NTPSuboptionMCAddr:
			return mk(ip16(net.IP(*x)))
		case *dhcpv6.NTPSuboptionSrvFQDN:
			return mk(namesJSON(x.Labels.Labels))
		}
		return mk([]int{-1})
	}
	switch x := o.(type) {
	case *dhcpv6.OptIANA:
		return mk(B(x.IaId[:]), secs4(x.T1), secs4(x.T2), projOpts(x.Options.Options, "main"))
	case *dhcpv6.OptIAPD:
		return mk(B(x.IaId[:]), secs4(x.T1), secs4(x.T2), projOpts(x.Options.Options, "main"))
	case *dhcpv6.OptIATA:
		return mk(B(x.IaId[:]), projOpts(x.Options.Options, "main"))
	case *dhcpv6.OptIAAddress:
		return mk(ip16(x.IPv6Addr), secs4(x.PreferredLifetime), secs4(x.ValidLifetime), projOpts(x.Options.Options, "main"))
	case *dhcpv6.OptIAPrefix:
		plen, pfx := 0, make([]int, 16)
		if x.Prefix != nil {
			plen, _ = x.Prefix.Mask.Size()
			pfx = ip16(x.Prefix.IP)
		}
		return mk(secs4(x.PreferredLifetime), secs4(x.ValidLifetime), []int{plen}, pfx, projOpts(x.Options.Options, "main"))
	case *dhcpv6.OptStatusCode:
		return mk(u16b(uint16(x.StatusCode)), B([]byte(x.StatusMessage)))
	case *dhcpv6.OptUserClass:
		return mk(items(x.UserClasses))
	case *dhcpv6.OptVendorClass:
		return mk(u32b(x.EnterpriseNumber), items(x.Data))
	case *dhcpv6.OptVendorOpts:
		return mk(u32b(x.EnterpriseNumber), projOpts(x.VendorOpts, "vendor"))
	case *dhcpv6.OptRemoteID:
		return mk(u32b(x.EnterpriseNumber), B(x.RemoteID))
	case *dhcpv6.OptFQDN:
		return mk([]int{int(x.Flags)}, labelsJSON(x.DomainName))
	case *dhcpv6.OptNTPServer:
		return mk(projOpts(x.Suboptions, "ntp"))
	case *dhcpv6.OptNetworkInterfaceID:
		return mk([]int{int(x.Typ)}, []int{int(x.Major)}, []int{int(x.Minor)})
	case *dhcpv6.OptDHCPv4Msg:
		if x.Msg == nil {
			return mk(map[string]any{"nil": true})
		}
		return mk(proj4(x.Msg))
	case *dhcpv6.OptDHCP4oDHCP6Server:
		ips := []any{}
		for _, ip := range x.DHCP4oDHCP6Servers {
			ips = append(ips, ip16(ip))
		}
		return mk(ips)
	case *dhcpv6.Opt4RD:
		return mk(projOpts(x.Options, "main"))
	case *dhcpv6.Opt4RDMapRule:
		p4, _ := x.Prefix4.Mask.Size()
		p6, _ := x.Prefix6.Mask.Size()
		fl := 0
		if x.WKPAuthorized {
			fl = 128
		}
		a4 := make([]int, 4)
		if v := x.Prefix4.IP.To4(); v != nil {
			a4 = B(v)
		}
		return mk([]int{p4}, []int{p6}, []int{int(x.EABitsLength)}, []int{fl}, a4, ip16(x.Prefix6.IP))
	case *dhcpv6.Opt4RDNonMapRule:
		fl, tc := 0, 0
		if x.HubAndSpoke {
			fl |= 128
		}
		if x.TrafficClass != nil {
			fl |= 1
			tc = int(*x.TrafficClass)
		}
		return mk([]int{fl}, []int{tc}, u16b(x.DomainPMTU))
	}
	// option types that are not exported: read their fields by reflection
	switch c {
	case 1, 2:
		if d, ok := field(o, "DUID").Interface().(dhcpv6.DUID); ok && d != nil {
			return mk(projDUID(d))
		}
		return mk([]any{[]int{-1}})
	case 6:
		codes := field(o, "OptionCodes").Interface().(dhcpv6.OptionCodes)
		l := []any{}
		for _, k := range codes {
			l = append(l, u16b(uint16(k)))
		}
		return mk(l)
	case 8:
		d := field(o, "ElapsedTime").Interface().(time.Duration)
		if d < 0 || d%(10*time.Millisecond) != 0 || d/(10*time.Millisecond) > 0xffff {
			return mk([]int{-1, -1})
		}
		return mk(u16b(uint16(d / (10 * time.Millisecond))))
	case 9:
		m, _ := field(o, "Msg").Interface().(dhcpv6.DHCPv6)
		if m == nil {
			return mk(map[string]any{"mt": -1, "xid": []int{}, "opts": []any{}})
		}
		return mk(proj6(m))
	case 18:
		return mk(B(field(o, "ID").Bytes()))
	case 23:
		ips := []any{}
		for _, ip := range field(o, "NameServers").Interface().([]net.IP) {
			ips = append(ips, ip16(ip))
		}
		return mk(ips)
	case 24:
		l, _ := field(o, "DomainSearchList").Interface().(*rfc1035label.Labels)
		return mk(labelsJSON(l))
	case 32:
		return mk(secs4(field(o, "InformationRefreshtime").Interface().(time.Duration)))
	case 59:
		return mk(B([]byte(field(o, "url").String())))
	case 60:
		ps := field(o, "params")
		l := []any{}
		for i := 0; i < ps.Len(); i++ {
			l = append(l, B([]byte(ps.Index(i).String())))
		}
		return mk(l)
	case 61:
		l := []any{}
		for _, a := range field(o, "Archs").Interface().(iana.Archs) {
			l = append(l, u16b(uint16(a)))
		}
		return mk(l)
	case 79:
		return mk(u16b(uint16(field(o, "LinkLayerType").Interface().(iana.HWType))), B(field(o, "LinkLayerAddress").Bytes()))
	case 135:
		return mk(u16b(uint16(field(o, "DownstreamSourcePort").Uint())))
	}
	// a type this harness does not know: shown as the specification shows unknown codes
	return map[string]any{"c": c, "v": []any{B(o.ToBytes())}, "untyped": true}
}

// projDepth counts the relay levels of the value being projected: the JSON reader of the trace specifications nests 255
// levels at most (four per relay level); a deeper value - no generator builds one - is shown as a marker no
// specification value equals
var projDepth atomic.Int32 // (summed over the few goroutines of the concurrent-decoder stages, whose inputs are shallow)

func proj6(d dhcpv6.DHCPv6) map[string]any {
	depth := projDepth.Add(1)
	defer projDepth.Add(-1)
	if depth > 56 {
		return map[string]any{"mt": -2, "too-deep-to-show": true}
	}
	switch m := d.(type) {
	case *dhcpv6.Message:
		return map[string]any{"mt": int(m.MessageType), "xid": B(m.TransactionID[:]), "opts": projOpts(m.Options.Options, "main")}
	case *dhcpv6.RelayMessage:
		return map[string]any{"mt": int(m.MessageType), "hops": int(m.HopCount), "link": ip16(m.LinkAddr), "peer": ip16(m.PeerAddr),
			"opts": projOpts(m.Options.Options, "main")}
	}
	return map[string]any{"unknown-message": true}
}

// The library has three ways in: FromBytes (any message), MessageFromBytes and RelayMessageFromBytes (the concrete types;
// the clients use the first of the two). entryFor picks, from the input itself, whether an input is decoded through
// FromBytes or through the concrete entry point of its own header family: the result must be the same.
func entryFor(b []byte) string {
	h := uint32(2166136261)
	for _, x := range b {
		h = (h ^ uint32(x)) * 16777619
	}
	if len(b) == 0 || h>>7%3 != 0 {
		return "any"
	}
	if b[0] == 12 || b[0] == 13 {
		return "relay"
	}
	return "msg"
}

func decodeVia(in []byte, ep string) (dhcpv6.DHCPv6, error) {
	switch ep {
	case "msg":
		m, err := dhcpv6.MessageFromBytes(in)
		if err != nil {
			return nil, err
		}
		return m, nil
	case "relay":
		r, err := dhcpv6.RelayMessageFromBytes(in)
		if err != nil {
			return nil, err
		}
		return r, nil
	}
	return dhcpv6.FromBytes(in)
}

// dec6e: an input through a named concrete entry point (the wrong one for its header family must refuse it)
func dec6e(b []byte, ep string) (out map[string]any) {
	defer func() {
		if r := recover(); r != nil {
			out = map[string]any{"panic": fmt.Sprint(r)}
		}
	}()
	d, err := decodeVia(append([]byte(nil), b...), ep)
	if err != nil {
		return map[string]any{"ok": false}
	}
	return map[string]any{"ok": true, "val": proj6(d)}
}

func dec6(b []byte) (out map[string]any, d dhcpv6.DHCPv6) {
	defer func() {
		if r := recover(); r != nil {
			out = map[string]any{"panic": fmt.Sprint(r)}
			d = nil
		}
	}()
	in := append([]byte(nil), b...)
	d, err := decodeVia(in, entryFor(b))
	if err != nil {
		return map[string]any{"ok": false}, nil
	}
	reuse(in) // the caller's buffer receives the next datagram: the decoded value is read after that
	out = map[string]any{"ok": true, "val": proj6(d)}
	if ownDecoded {
		// what a decoder returns belongs to the caller: a twin of the value is written over, so that a later decode that
		// shares memory with an earlier result (a table of common values, a cache) shows
		if twin, err := dhcpv6.FromBytes(append([]byte(nil), b...)); err == nil {
			func() {
				defer func() { recover() }()
				scribbleValue(reflect.ValueOf(twin), 0)
			}()
		}
	}
	if c := untypedKnown(d); c >= 0 {
		// an option of a code the library has a type for came back as an opaque value: whatever its bytes, it is not the
		// typed value the decoder owes for that code (no field, no layout rule applied)
		out["val"] = map[string]any{"mt": -3, "option-of-known-type-decoded-as-opaque": c}
	}
	return out, d
}


// untypedKnown returns the code of the first option in the main option space (message, relay levels, the containers that
// nest main-space options) whose code has a type in the library but whose value is an *OptionGeneric; -1 if none
func untypedKnown(d dhcpv6.DHCPv6) int {
	known := map[int]bool{}
	for _, c := range v6Known {
		known[c] = true
	}
	var walk func(os dhcpv6.Options) int
	walk = func(os dhcpv6.Options) int {
		for _, o := range os {
			if _, g := o.(*dhcpv6.OptionGeneric); g && known[int(o.Code())] {
				return int(o.Code())
			}
			var sub dhcpv6.Options
			switch x := o.(type) {
			case *dhcpv6.OptIANA:
				sub = x.Options.Options
			case *dhcpv6.OptIATA:
				sub = x.Options.Options
			case *dhcpv6.OptIAPD:
				sub = x.Options.Options
			case *dhcpv6.OptIAAddress:
				sub = x.Options.Options
			case *dhcpv6.OptIAPrefix:
				sub = x.Options.Options
			case *dhcpv6.Opt4RD:
				sub = x.FourRDOptions.Options
			}
			if c := walk(sub); c >= 0 {
				return c
			}
			if o.Code() == dhcpv6.OptionRelayMsg {
				if m, ok := field(o, "Msg").Interface().(dhcpv6.DHCPv6); ok && m != nil {
					if c := untypedKnown(m); c >= 0 {
						return c
					}
				}
			}
		}
		return -1
	}
	switch m := d.(type) {
	case *dhcpv6.Message:
		return walk(m.Options.Options)
	case *dhcpv6.RelayMessage:
		return walk(m.Options.Options)
	}
	return -1
}
