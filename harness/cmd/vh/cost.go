package main

import (
	"net"
	"context"
	"sort"
	"encoding/json"
	"fmt"
	"strconv"
	"math/rand"
	"os"
	"os/exec"
	"time"
	"reflect"
	"runtime"
	"runtime/debug"

	"github.com/insomniacslk/dhcp/dhcpv4"
	"github.com/insomniacslk/dhcp/dhcpv4/server4"
	"github.com/insomniacslk/dhcp/dhcpv6/server6"
	"github.com/insomniacslk/dhcp/dhcpv6"
	"github.com/insomniacslk/dhcp/rfc1035label"
)

func init() { gens["c09"] = genC09 }

// retainedSpans collects the memory ranges of scalar slices met by deepSize; spanBytes is the size of their union
var retainedSpans [][2]uintptr

func spanBytes() int {
	sort.Slice(retainedSpans, func(i, j int) bool { return retainedSpans[i][0] < retainedSpans[j][0] })
	total := 0
	var end uintptr
	for _, sp := range retainedSpans {
		if sp[0] >= end {
			total += int(sp[1] - sp[0])
			end = sp[1]
		} else if sp[1] > end {
			total += int(sp[1] - end)
			end = sp[1]
		}
	}
	retainedSpans = nil
	return total
}

// deepSize: bytes retained by a value (slices by capacity, strings by length, followed pointers once)
func deepSize(v reflect.Value, seen map[uintptr]bool) int {
	if !v.IsValid() {
		return 0
	}
	switch v.Kind() {
	case reflect.Ptr:
		if v.IsNil() || seen[v.Pointer()] {
			return 0
		}
		seen[v.Pointer()] = true
		return int(v.Elem().Type().Size()) + deepSize(v.Elem(), seen) - int(v.Elem().Type().Size()) + int(v.Elem().Type().Size())
	case reflect.Interface:
		if v.IsNil() {
			return 0
		}
		return deepSize(v.Elem(), seen)
	case reflect.Slice:
		if v.IsNil() {
			return 0
		}
		n := v.Cap() * int(v.Type().Elem().Size())
		if k := v.Type().Elem().Kind(); k >= reflect.Bool && k <= reflect.Float64 && v.Cap() > 0 {
			// slices of scalars may be windows into one shared array (sub-options cut from one copied buffer):
			// the array is retained once; its extent is added when the walk is over (retainedSpans)
			p := v.Pointer()
			retainedSpans = append(retainedSpans, [2]uintptr{p, p + uintptr(n)})
			return 0
		}
		if k := v.Type().Elem().Kind(); k == reflect.Ptr || k == reflect.Interface || k == reflect.Slice || k == reflect.String || k == reflect.Struct || k == reflect.Array {
			for i := 0; i < v.Len(); i++ {
				n += deepSize(v.Index(i), seen)
			}
		}
		return n
	case reflect.String:
		return v.Len()
	case reflect.Struct:
		n := 0
		for i := 0; i < v.NumField(); i++ {
			n += deepSize(v.Field(i), seen)
		}
		return n
	case reflect.Array:
		n := 0
		if k := v.Type().Elem().Kind(); k == reflect.Ptr || k == reflect.Interface || k == reflect.Slice || k == reflect.String || k == reflect.Struct {
			for i := 0; i < v.Len(); i++ {
				n += deepSize(v.Index(i), seen)
			}
		}
		return n
	case reflect.Map:
		n := 0
		for _, k := range v.MapKeys() {
			n += int(k.Type().Size()) + deepSize(k, seen) + int(v.MapIndex(k).Type().Size()) + deepSize(v.MapIndex(k), seen)
		}
		return n
	}
	return 0
}

// measure runs decode (+ re-encode) of in with the collector off and returns bytes allocated and retained.
func measure(entry string, in []byte) (alloc, retained int, ok bool) {
	debug.SetGCPercent(100) // the collector stays on: TotalAlloc counts every allocation anyway
	runtime.GC()
	var m0, m1 runtime.MemStats
	buf := append([]byte(nil), in...)
	var val any
	runtime.ReadMemStats(&m0)
	switch entry {
	case "v6":
		d, err := dhcpv6.FromBytes(buf)
		if err == nil {
			val, ok = d, true
			_ = d.ToBytes()
		}
	case "v4":
		p, err := dhcpv4.FromBytes(buf)
		if err == nil {
			val, ok = p, true
			_ = p.ToBytes()
			typedReads4(p) // DHCPv4 option values are decoded when they are read: every typed value once (printing is not part of it)
		}
	case "v4srv", "v6srv":
		// the same datagram through the library's own receive path: a server with the default (silent) logger and a handler
		// that answers nothing - what the datagram costs there is what decoding it costs
		ok = throughServer(entry == "v4srv", buf)
	case "label":
		l, err := rfc1035label.FromBytes(buf)
		if err == nil {
			val, ok = l, true
			_ = l.ToBytes()
		}
	}
	runtime.ReadMemStats(&m1)
	alloc = int(m1.TotalAlloc - m0.TotalAlloc)
	if ok {
		retainedSpans = nil
		retained = deepSize(reflect.ValueOf(val), map[uintptr]bool{})
		retained += spanBytes()
	}
	return
}

func typedReads4(p *dhcpv4.DHCPv4) {
	p.BroadcastAddress()
	p.RequestedIPAddress()
	p.ServerIdentifier()
	p.Router()
	p.ClasslessStaticRoute()
	p.NTPServers()
	p.NetBIOSNameServers()
	p.DNS()
	p.DomainName()
	p.HostName()
	p.RootPath()
	p.BootFileNameOption()
	p.TFTPServerName()
	p.ClassIdentifier()
	p.ClientArch()
	p.DomainSearch()
	p.IPv6OnlyPreferred()
	p.MaxMessageSize()
	p.AutoConfigure()
	p.MessageType()
	p.Message()
	p.ParameterRequestList()
	p.RelayAgentInfo()
	p.SubnetMask()
	p.UserClass()
	p.VIVC()
	p.IPAddressLeaseTime(0)
	p.IPAddressRenewalTime(0)
	p.IPAddressRebindingTime(0)
	p.GetOneOption(dhcpv4.OptionClientIdentifier)
}

// oneShotConn hands out one datagram and then blocks until it is closed
type oneShotConn struct {
	b      []byte
	given  bool
	second chan struct{} // closed when the server comes back for the next datagram
	closed chan struct{}
}

func (c *oneShotConn) ReadFrom(b []byte) (int, net.Addr, error) {
	if !c.given {
		c.given = true
		return copy(b, c.b), &net.UDPAddr{IP: net.ParseIP("fe80::9"), Port: 546}, nil
	}
	close(c.second)
	<-c.closed
	return 0, nil, net.ErrClosed
}
func (c *oneShotConn) WriteTo(b []byte, a net.Addr) (int, error) { return len(b), nil }
func (c *oneShotConn) Close() error {
	select {
	case <-c.closed:
	default:
		close(c.closed)
	}
	return nil
}
func (c *oneShotConn) LocalAddr() net.Addr                { return &net.UDPAddr{Port: 547} }
func (c *oneShotConn) SetDeadline(time.Time) error      { return nil }
func (c *oneShotConn) SetReadDeadline(time.Time) error  { return nil }
func (c *oneShotConn) SetWriteDeadline(time.Time) error { return nil }

// throughServer: one datagram through server4 / server6 (default logger); reports whether the handler was called
func throughServer(v4 bool, in []byte) bool {
	conn := &oneShotConn{b: in, second: make(chan struct{}), closed: make(chan struct{})}
	handled := make(chan struct{}, 1)
	done := make(chan struct{})
	if v4 {
		srv, err := server4.NewServer("", nil, func(net.PacketConn, net.Addr, *dhcpv4.DHCPv4) { handled <- struct{}{} }, server4.WithConn(conn))
		if err != nil {
			panic(err)
		}
		go func() { srv.Serve(); close(done) }()
	} else {
		srv, err := server6.NewServer("", nil, func(net.PacketConn, net.Addr, dhcpv6.DHCPv6) { handled <- struct{}{} }, server6.WithConn(conn))
		if err != nil {
			panic(err)
		}
		go func() { srv.Serve(); close(done) }()
	}
	<-conn.second // the datagram has been dealt with (handed to a handler goroutine, or skipped)
	ok := false
	select {
	case <-handled:
		ok = true
	case <-time.After(200 * time.Millisecond):
	}
	conn.Close()
	<-done
	return ok
}

// measureChild runs the measurement in a child process (own heap, hard time limit): a decode that does
// not finish within the limit is reported as killed, with a lower bound of 1 TiB allocated.
func measureChild(entry string, in []byte) (alloc, retained int, ok, killed bool) {
	return measureChildAfter(entry, in, "", nil)
}

// measureChildAfter: the same, in a process that has decoded (and dropped) the datagram hist before: what a datagram
// costs must not depend on what the process has received earlier
func measureChildAfter(entry string, in []byte, hentry string, hist []byte) (alloc, retained int, ok, killed bool) {
	f, err := os.CreateTemp("", "vh-cost-*")
	if err != nil {
		panic(err)
	}
	defer os.Remove(f.Name())
	f.Write(in)
	f.Close()
	args := []string{"measure", entry, f.Name()}
	if hentry != "" {
		h, err := os.CreateTemp("", "vh-cost-h-*")
		if err != nil {
			panic(err)
		}
		defer os.Remove(h.Name())
		h.Write(hist)
		h.Close()
		args = append(args, hentry, h.Name())
	}
	ctx, cancel := context.WithTimeout(context.Background(), 25*time.Second)
	defer cancel()
	cmd := exec.CommandContext(ctx, os.Args[0], args...)
	cmd.Env = append(os.Environ(), "GOMEMLIMIT=3GiB")
	out, err := cmd.Output()
	if err != nil {
		return 1 << 40, 0, false, true
	}
	var r struct {
		Alloc, Retained int
		Ok             bool
	}
	if json.Unmarshal(out, &r) != nil {
		return 1 << 40, 0, false, true
	}
	return r.Alloc, r.Retained, r.Ok, false
}

func measureMain(args ...string) {
	entry, path := args[0], args[1]
	in, err := os.ReadFile(path)
	if err != nil {
		panic(err)
	}
	if len(args) == 4 { // the history: received, decoded, re-encoded and dropped three times before the measurement
		hist, err := os.ReadFile(args[3])
		if err != nil {
			panic(err)
		}
		for k := 0; k < 3; k++ {
			measure(args[2], hist)
		}
	}
	a, r, ok := measure(entry, in)
	b, _ := json.Marshal(map[string]any{"Alloc": a, "Retained": r, "Ok": ok})
	os.Stdout.Write(b)
}

func tlv6(code int, payload []byte) []byte {
	return append([]byte{byte(code >> 8), byte(code), byte(len(payload) >> 8), byte(len(payload))}, payload...)
}

// witness families: each returns (entry, input, nesting depth)
func costFamilies(rng *rand.Rand, n int) []struct {
	name  string
	entry string
	in    []byte
	depth int
} {
	type fam = struct {
		name  string
		entry string
		in    []byte
		depth int
	}
	var out []fam
	hdr6 := []byte{1, 9, 9, 9}
	// F1: compression-pointer fan: one long name, then many 2-byte pointers to its start
	{
		var b []byte
		for len(b) < n/2 {
			b = append(b, 63)
			b = append(b, make([]byte, 63)...)
		}
		b = append(b, 0)
		for len(b)+2 <= n-8 {
			b = append(b, 0xc0, 0)
		}
		out = append(out, fam{"label-pointer-fan", "label", b, 0})
		if len(b) < 65000 {
			out = append(out, fam{"v6-domain-list-pointer-fan", "v6", append(append([]byte{}, hdr6...), tlv6(24, b)...), 1})
		}
	}
	// F1b: names that end in a pointer back into themselves (a loop: not a name, to be refused at once), many labels long
	{
		var b []byte
		for len(b)+4 <= n-2 {
			b = append(b, 1, 'a')
		}
		b = append(b, 0xc0, 0)
		out = append(out, fam{"label-self-pointer", "label", b, 0})
		if len(b) < 65000 {
			out = append(out, fam{"v6-domain-list-self-pointer", "v6", append(append([]byte{}, hdr6...), tlv6(24, b)...), 1})
		}
		var c []byte // ... and many short names each ending in a pointer to its own start
		for len(c)+5 <= n {
			at := len(c)
			c = append(c, 1, 'b', 0xc0|byte(at>>8), byte(at))
		}
		if len(c) < 16000 {
			out = append(out, fam{"label-many-self-pointers", "label", c, 0})
		}
	}
	// F2: one unterminated name made of many short labels
	{
		var b []byte
		for len(b)+2 <= n {
			b = append(b, 1, 'a')
		}
		out = append(out, fam{"label-long-chain", "label", b, 0})
	}
	// F3: identity associations nested k deep (IA_NA in IA address in IA_NA ...)
	{
		var build func(room int) []byte
		build = func(room int) []byte {
			if room < 16+28+4 {
				return nil
			}
			inner := build(room - 16 - 28)
			ia := append(make([]byte, 24), inner...)              // IA address: addr(16) pref(4) valid(4) options
			return tlv6(3, append(make([]byte, 12), tlv6(5, ia)...)) // IA_NA: iaid t1 t2 options
		}
		b := build(n - 8)
		out = append(out, fam{"v6-ia-nesting", "v6", append(append([]byte{}, hdr6...), b...), 2 * (len(b) / 44)})
	}
	// F3b/c: the other identity-association containers (IA_PD / IA prefix, IA_TA / IA address), nested k deep
	{
		var pd func(room int) []byte
		pd = func(room int) []byte {
			if room < 45+4 {
				return nil
			}
			inner := pd(room - 45)
			pfx := append(append(make([]byte, 8), 64), make([]byte, 16)...) // IA prefix: pref(4) valid(4) plen(1) prefix(16) options
			return tlv6(25, append(make([]byte, 12), tlv6(26, append(pfx, inner...))...))
		}
		b := pd(n - 8)
		out = append(out, fam{"v6-iapd-nesting", "v6", append(append([]byte{}, hdr6...), b...), 2 * (len(b) / 45)})
		var ta func(room int) []byte
		ta = func(room int) []byte {
			if room < 36+4 {
				return nil
			}
			inner := ta(room - 36)
			return tlv6(4, append(make([]byte, 4), tlv6(5, append(make([]byte, 24), inner...))...))
		}
		b = ta(n - 8)
		out = append(out, fam{"v6-iata-nesting", "v6", append(append([]byte{}, hdr6...), b...), 2 * (len(b) / 36)})
	}
	// F4: relay messages nested k deep
	{
		inner := []byte{1, 1, 2, 3}
		depth := 0
		for len(inner)+38 <= n && len(inner)+38 <= 65535 {
			inner = append(append([]byte{12, byte(depth)}, make([]byte, 32)...), tlv6(9, inner)...)
			depth++
		}
		out = append(out, fam{"v6-relay-nesting", "v6", inner, depth})
	}
	// F4b: nesting with a sibling option after the nested container at every level and an innermost part that does not
	// decode: the cost of rejecting must stay that of one pass per level, whatever the error path tries
	{
		sib := tlv6(18, []byte{0, 0, 0, 0}) // interface-id / opaque, zero valued
		for _, bad := range [][]byte{tlv6(8, []byte{0, 0, 0}), {0, 1, 0, 9, 1}, tlv6(3, []byte{1, 2, 3})} {
			inner := append([]byte{1, 1, 2, 3}, bad...)
			depth := 0
			for len(inner)+38+len(sib) <= n && len(inner)+38+len(sib) <= 65535 {
				inner = append(append(append([]byte{12, byte(depth)}, make([]byte, 32)...), tlv6(9, inner)...), sib...)
				depth++
			}
			out = append(out, fam{"v6-relay-nesting-bad-inner", "v6", inner, depth})
		}
		var ia func(room int, bad []byte) []byte
		ia = func(room int, bad []byte) []byte {
			if room < 16+28+8+4 {
				return bad
			}
			in := ia(room-16-28-8, bad)
			addr := append(append(make([]byte, 24), in...), tlv6(13, []byte{0, 0})...) // IA address: nested options, then a status code
			return append(tlv6(3, append(make([]byte, 12), tlv6(5, addr)...)), tlv6(200, []byte{0, 0, 0, 0})...)
		}
		b := ia(n-8, tlv6(8, []byte{0, 0, 0}))
		out = append(out, fam{"v6-ia-nesting-bad-inner", "v6", append(append([]byte{}, hdr6...), b...), 2 * (len(b) / 52)})
	}
	// F4d: nesting in which every level carries 1..3 octets of padding (zeroes, or junk) after its nested option, inside
	// its own length: every level is malformed, and rejecting the datagram must not cost more than reading it once
	{
		type kind struct {
			name   string
			fixed  int // octets in front of the nested options
			code   int
			inner  int // code of the option nested directly inside (0: the same container again)
			ifixed int
		}
		kinds := []kind{{"iana", 12, 3, 5, 24}, {"iapd", 12, 25, 26, 25}, {"iata", 4, 4, 5, 24}, {"4rd", 0, 97, 0, 0}, {"vendoropts", 4, 17, 0, 0}}
		for _, kd := range kinds {
			for _, pad := range [][]byte{{0}, {0, 0}, {0, 0, 0}, {0xff}} {
				var build func(room int) []byte
				build = func(room int) []byte {
					need := 4 + kd.fixed + len(pad)
					if kd.inner != 0 {
						need += 4 + kd.ifixed
					}
					if room < need+8 {
						return nil
					}
					in := build(room - need)
					if kd.inner != 0 {
						body := append(make([]byte, kd.ifixed), in...)
						if kd.inner == 26 {
							body[8] = 64
						}
						in = tlv6(kd.inner, body)
					}
					return tlv6(kd.code, append(append(make([]byte, kd.fixed), in...), pad...))
				}
				lim := n - 8
				if lim > 4000 {
					lim = 4000 // depth is what matters here
				}
				b := build(lim)
				per := 4 + kd.fixed + len(pad) + 4 + kd.ifixed
				out = append(out, fam{fmt.Sprintf("v6-%s-nesting-padded-%d", kd.name, len(pad)), "v6", append(append([]byte{}, hdr6...), b...), 2 * (len(b) / per)})
			}
		}
		// relay chains whose every level has padding after the relay message option
		for _, pad := range [][]byte{{0}, {0, 0, 0}} {
			inner := []byte{1, 1, 2, 3}
			depth := 0
			for len(inner)+38+len(pad) <= n && len(inner)+38+len(pad) <= 4000 {
				inner = append(append(append([]byte{12, byte(depth)}, make([]byte, 32)...), tlv6(9, inner)...), pad...)
				depth++
			}
			out = append(out, fam{fmt.Sprintf("v6-relay-nesting-padded-%d", len(pad)), "v6", inner, depth})
		}
	}
	// F4c: one list-valued option filled to the size with distinct items (request list, address lists, class data,
	// vendor sub-options, many addresses in one identity association, many names without pointers)
	{
		u16s := func(room int) []byte {
			var b []byte
			for k := 1; len(b)+2 <= room && k < 65535; k++ {
				b = append(b, byte(k>>8), byte(k))
			}
			return b
		}
		ips := func(room int) []byte {
			var b []byte
			for k := 1; len(b)+16 <= room; k++ {
				b = append(b, 0x20, 1, 0xd, 0xb8, 0, 0, 0, 0, 0, 0, 0, 0, 0, 0, byte(k>>8), byte(k))
			}
			return b
		}
		items := func(room int) []byte {
			var b []byte
			for k := 1; len(b)+4 <= room; k++ {
				b = append(b, 0, 2, byte(k>>8), byte(k))
			}
			return b
		}
		subopts := func(room int, code int) []byte {
			var b []byte
			for k := 1; len(b)+6 <= room; k++ {
				b = append(b, tlv6(code+k%3, []byte{byte(k >> 8), byte(k)})...)
			}
			return b
		}
		room := n - 8
		if room > 65000 {
			room = 65000
		}
		// the same elements in another order (what a list costs must not depend on the order its elements arrive in)
		reorder := func(b []byte, size int, shuffled bool) []byte {
			k := len(b) / size
			idx := make([]int, k)
			for i := range idx {
				idx[i] = k - 1 - i
			}
			if shuffled {
				idx = rng.Perm(k)
			}
			out := make([]byte, 0, len(b))
			for _, i := range idx {
				out = append(out, b[i*size:(i+1)*size]...)
			}
			return out
		}
		lists := []struct {
			name string
			body []byte
		}{
			{"oro", tlv6(6, u16s(room))}, {"dns", tlv6(23, ips(room))}, {"userclass", tlv6(15, items(room))},
			{"oro-descending", tlv6(6, reorder(u16s(room), 2, false))}, {"oro-shuffled", tlv6(6, reorder(u16s(room), 2, true))},
			{"dns-descending", tlv6(23, reorder(ips(room), 16, false))}, {"userclass-shuffled", tlv6(15, reorder(items(room), 4, true))},
			{"vendorclass", tlv6(16, append([]byte{0, 0, 0, 9}, items(room-4)...))},
			{"vendoropts", tlv6(17, append([]byte{0, 0, 0, 9}, subopts(room-4, 1)...))},
			{"ntp", tlv6(56, func() []byte {
				var b []byte
				for k := 1; len(b)+20 <= room; k++ {
					b = append(b, tlv6(1, []byte{0x20, 1, 0xd, 0xb8, 0, 0, 0, 0, 0, 0, 0, 0, 0, 0, byte(k >> 8), byte(k)})...)
				}
				return b
			}())},
			{"ia-addresses", tlv6(3, append(make([]byte, 12), func() []byte {
				var b []byte
				for k := 1; len(b)+28 <= room-12; k++ {
					b = append(b, tlv6(5, append([]byte{0x20, 1, 0xd, 0xb8, 0, 0, 0, 0, 0, 0, 0, 0, 0, 0, byte(k >> 8), byte(k)}, make([]byte, 8)...))...)
				}
				return b
			}()...))},
			{"names", tlv6(24, func() []byte {
				var b []byte
				for k := 1; len(b)+8 <= room; k++ {
					b = append(b, 2, byte('a'+k%26), byte('a'+(k/26)%26), 3, 'c', 'o', 'm', 0)
				}
				return b
			}())},
		}
		// ... and the remaining containers of repeated children: 4RD mapping rules, delegated prefixes, temporary
		// addresses, boot-file parameters, architectures, DHCPv4-over-DHCPv6 servers, NTP multicast addresses and names
		rep := func(room int, item func(k int) []byte) []byte {
			var b []byte
			for k := 1; ; k++ {
				it := item(k)
				if len(b)+len(it) > room {
					return b
				}
				b = append(b, it...)
			}
		}
		v6addr := func(k int) []byte { return []byte{0x20, 1, 0xd, 0xb8, 0, 0, 0, 0, 0, 0, 0, 0, 0, 0, byte(k >> 8), byte(k)} }
		lists = append(lists, []struct {
			name string
			body []byte
		}{
			{"4rd-maprules", tlv6(97, rep(room, func(k int) []byte {
				return tlv6(98, append([]byte{24, 64, 8, 0, 10, byte(k >> 8), byte(k), 0}, v6addr(k)...))
			}))},
			{"iapd-prefixes", tlv6(25, append(make([]byte, 12), rep(room-12, func(k int) []byte {
				return tlv6(26, append([]byte{0, 0, 14, 16, 0, 0, 28, 32, 64}, v6addr(k)...))
			})...))},
			{"iata-addresses", tlv6(4, append(make([]byte, 4), rep(room-4, func(k int) []byte {
				return tlv6(5, append(v6addr(k), 0, 0, 14, 16, 0, 0, 28, 32))
			})...))},
			{"bootfileparams", tlv6(60, rep(room, func(k int) []byte { return []byte{0, 2, byte('a' + k%26), byte('a' + (k/26)%26)} }))},
			{"archtypes", tlv6(61, u16s(room))},
			{"4o6servers", tlv6(88, ips(room))},
			{"ntp-mcaddrs", tlv6(56, rep(room, func(k int) []byte { return tlv6(2, v6addr(k)) }))},
			{"ntp-fqdns", tlv6(56, rep(room, func(k int) []byte { return tlv6(3, []byte{2, byte('a' + k%26), byte('a' + (k/26)%26), 3, 'c', 'o', 'm', 0}) }))},
			{"statuscodes", rep(room, func(k int) []byte { return tlv6(13, []byte{0, byte(k % 7), 'o', 'k'}) })},
			{"ianas", rep(room, func(k int) []byte { return tlv6(3, []byte{0, 0, byte(k >> 8), byte(k), 0, 0, 0, 1, 0, 0, 0, 2}) })},
		}...)
		for _, l := range lists {
			out = append(out, fam{"v6-big-list-" + l.name, "v6", append(append([]byte{}, hdr6...), l.body...), 2})
		}
	}
	// F5: thousands of minimal options
	{
		b := append([]byte{}, hdr6...)
		for len(b)+4 <= n {
			b = append(b, tlv6(pick(rng, 14, 200, 18, 59), nil)...)
		}
		out = append(out, fam{"v6-many-empty-options", "v6", b, 1})
		b4 := append([]byte{}, stdHeader4()...)
		for len(b4)+3 <= n {
			b4 = append(b4, byte(1+rng.Intn(200)), 0)
		}
		b4 = append(b4, 255)
		out = append(out, fam{"v4-many-empty-options", "v4", b4, 1})
	}
	// F5b: every DHCPv4 option code once, each value one instance of the same length (1, 127, 254, 255 octets): nothing is
	// continued, nothing needs room beyond its own length
	for _, L := range []int{1, 127, 254, 255} {
		b4 := append([]byte{}, stdHeader4()...)
		for code := 1; code <= 254 && len(b4)+2+L+1 <= n; code++ {
			b4 = append(b4, byte(code), byte(L))
			for j := 0; j < L; j++ {
				b4 = append(b4, byte(code+j))
			}
		}
		b4 = append(b4, 255)
		out = append(out, fam{fmt.Sprintf("v4-every-code-len-%d", L), "v4", b4, 1})
	}
	// F6: one DHCPv4 option repeated with maximal / minimal instances
	{
		b4 := append([]byte{}, stdHeader4()...)
		for len(b4)+257+1 <= n {
			b4 = append(b4, 43, 255)
			b4 = append(b4, make([]byte, 255)...)
		}
		b4 = append(b4, 255)
		out = append(out, fam{"v4-repeated-max-option", "v4", b4, 1})
		c4 := append([]byte{}, stdHeader4()...)
		for len(c4)+3+1 <= n {
			c4 = append(c4, 43, 1, 7)
		}
		c4 = append(c4, 255)
		out = append(out, fam{"v4-repeated-tiny-option", "v4", c4, 1})
	}
	// F6b: one typed DHCPv4 option that fills the datagram (its value continued over as many instances as it takes) with as
	// many of its smallest elements as fit, in the orders a list can have: all alike, one kind after the other, alternating
	{
		long4 := func(name string, code byte, val []byte) {
			room := n - len(stdHeader4()) - 1
			b4 := append([]byte{}, stdHeader4()...)
			for len(val) > 0 && room >= 3 {
				k := len(val)
				if k > 255 {
					k = 255
				}
				if k+2 > room {
					k = room - 2
				}
				b4 = append(append(b4, code, byte(k)), val[:k]...)
				val = val[k:]
				room -= k + 2
			}
			out = append(out, fam{name, "v4", append(b4, 255), 1})
		}
		budget := n - len(stdHeader4()) - 1
		budget -= (budget/255 + 1) * 2
		if budget > 16 {
			rep := func(el []byte, total int) []byte {
				var v []byte
				for len(v)+len(el) <= total {
					v = append(v, el...)
				}
				return v
			}
			dflt, spec := []byte{0, 10, 0, 0, 1}, []byte{24, 10, 9, 8, 10, 0, 0, 2} // a default route; a /24
			long4("v4-routes-defaults", 121, rep(dflt, budget))
			long4("v4-routes-specific", 121, rep(spec, budget))
			long4("v4-routes-defaults-then-specific", 121, append(rep(dflt, budget/2), rep(spec, budget/2)...))
			long4("v4-routes-specific-then-defaults", 121, append(rep(spec, budget/2), rep(dflt, budget/2)...))
			long4("v4-routes-alternating", 121, rep(append(append([]byte{}, dflt...), spec...), budget))
			long4("v4-router-list", 3, rep([]byte{10, 0, 0, 1}, budget))
			long4("v4-user-class-items", 77, rep([]byte{1, 'x'}, budget))
			long4("v4-vivc-items", 124, rep([]byte{0, 0, 0, 9, 1, 'x'}, budget))
			long4("v4-request-list", 55, rep([]byte{1, 3, 6, 15}, budget))
			long4("v4-arch-list", 93, rep([]byte{0, 7}, budget))
			long4("v4-agent-suboptions", 82, rep([]byte{1, 1, 'c'}, budget))
			long4("v4-search-list-roots", 119, rep([]byte{1, 'a', 0}, budget))
		}
	}
	// F7: ordinary messages padded with opaque options to size n
	{
		w := randMsg6(rng, 2, rng.Intn(3)).ToBytes()
		if w[0] != 12 && w[0] != 13 {
			for len(w)+4+200 <= n {
				w = append(w, tlv6(200, randBytes(rng, 200))...)
			}
		}
		out = append(out, fam{"v6-ordinary", "v6", w, 3})
		p := randPacket4(rng, 5, []int{4, 8, 255, 300})
		if p.Options == nil {
			p.Options = dhcpv4.Options{}
		}
		for k := 0; len(p.ToBytes())+300 <= n && k < 250; k++ {
			p.Options[uint8(1+k%250)] = randBytes(rng, 250)
		}
		out = append(out, fam{"v4-ordinary", "v4", p.ToBytes(), 1})
	}
	// F8: vendor options / user class items: thousands of minimal items inside one option
	{
		var items []byte
		for len(items)+2 <= n-20 && len(items) < 65000 {
			items = append(items, 0, 0)
		}
		out = append(out, fam{"v6-many-empty-userclass-items", "v6", append(append([]byte{}, hdr6...), tlv6(15, items)...), 1})
	}
	return out
}

// climbAll runs the hill-climbing search (climb.go) in parallel child processes and returns their best candidates.
func climbAll(rng *rand.Rand, procs, evals int) []climbCand {
	type res struct {
		c   []climbCand
		err error
	}
	ch := make(chan res, procs)
	for p := 0; p < procs; p++ {
		seed := rng.Int63()
		go func() {
			f, err := os.CreateTemp("", "vh-climb-*")
			if err != nil {
				ch <- res{nil, err}
				return
			}
			f.Close()
			defer os.Remove(f.Name())
			ctx, cancel := context.WithTimeout(context.Background(), 20*time.Minute)
			defer cancel()
			cmd := exec.CommandContext(ctx, os.Args[0], "climb", strconv.FormatInt(seed, 10), strconv.Itoa(evals), f.Name())
			cmd.Env = append(os.Environ(), "GOMEMLIMIT=2GiB", "GOMAXPROCS=2")
			if err := cmd.Run(); err != nil {
				ch <- res{nil, err}
				return
			}
			b, _ := os.ReadFile(f.Name())
			var c []climbCand
			err = json.Unmarshal(b, &c)
			ch <- res{c, err}
		}()
	}
	var all []climbCand
	for p := 0; p < procs; p++ {
		r := <-ch
		if r.err != nil {
			panic(fmt.Sprint("climb process failed: ", r.err))
		}
		all = append(all, r.c...)
	}
	return all
}

// nameExpansion: total length of the domain names in the decoded message (0 if it does not decode)
func nameExpansion(in []byte) (total int) {
	defer func() { recover() }()
	d, err := dhcpv6.FromBytes(append([]byte(nil), in...))
	if err != nil {
		return 0
	}
	var walk func(v reflect.Value, depth int)
	walk = func(v reflect.Value, depth int) {
		if !v.IsValid() || depth > 64 {
			return
		}
		switch v.Kind() {
		case reflect.Ptr, reflect.Interface:
			if !v.IsNil() {
				if l, ok := v.Interface().(*rfc1035label.Labels); ok {
					for _, s := range l.Labels {
						total += len(s)
					}
					return
				}
				walk(v.Elem(), depth+1)
			}
		case reflect.Struct:
			for i := 0; i < v.NumField(); i++ {
				if v.Type().Field(i).PkgPath == "" {
					walk(v.Field(i), depth+1)
				}
			}
		case reflect.Slice:
			if k := v.Type().Elem().Kind(); k == reflect.Ptr || k == reflect.Interface || k == reflect.Struct {
				for i := 0; i < v.Len(); i++ {
					walk(v.Index(i), depth+1)
				}
			}
		}
	}
	walk(reflect.ValueOf(d), 0)
	return total
}

func genC09(o *Out, rng *rand.Rand, tier string) {
	sizes := []int{1024, 4096, 16384, 65507}
	reps := 1
	procs, evals := 4, 12000
	if tier == "thorough" {
		sizes = []int{512, 1024, 2048, 4096, 8192, 16384, 32768, 65507}
		reps = 3
		procs, evals = 12, 150000
	}
	// adversarial search: the best candidates of every island of every search process, measured like the families
	for _, c := range climbAll(rng, procs, evals) {
		alloc, retained, ok, killed := measureChild(c.Entry, c.In)
		fam := "climb-" + c.Island
		if c.Entry == "v6" && nameExpansion(c.In) > 2*len(c.In) {
			fam = "v6-domain-list-pointer-fan" // names amplified by compression pointers: the shape of that family
		}
		o.Emit(map[string]any{"op": "Cost", "family": fam, "entry": c.Entry, "n": len(c.In), "depth": c.Depth, "accepted": ok,
			"allocKiB": (alloc + 1023) / 1024, "retainedKiB": (retained + 1023) / 1024, "killed": killed || c.Killed,
			"score": int(c.Score * 1000)}, "climb-"+c.Island, c.In, true)
	}
	// small ordinary datagrams received after each of the large witnesses (state kept between decodes)
	small := map[string][][]byte{"v6": {{1, 1, 2, 3}}, "v4": nil, "label": {{3, 'f', 'o', 'o', 0}}}
	{
		sol, _ := dhcpv6.NewSolicit(net.HardwareAddr{2, 0, 0, 0, 0, 7})
		small["v6"] = append(small["v6"], sol.ToBytes())
		disc, _ := dhcpv4.NewDiscovery(net.HardwareAddr{2, 0, 0, 0, 0, 7})
		small["v4"] = append(small["v4"], disc.ToBytes())
	}
	for _, f := range costFamilies(rng, sizes[len(sizes)-1]) {
		if len(f.in) > 65507 {
			continue
		}
		for _, tgt := range small[f.entry] {
			alloc, retained, ok, killed := measureChildAfter(f.entry, tgt, f.entry, f.in)
			o.Emit(map[string]any{"op": "Cost", "family": "small-after-" + f.name, "entry": f.entry, "n": len(tgt), "depth": 2, "accepted": ok,
				"allocKiB": (alloc + 1023) / 1024, "retainedKiB": (retained + 1023) / 1024, "killed": killed}, "history-"+f.name, append(append([]byte{}, tgt...), f.in...), ok || killed)
		}
	}
	// the witnesses that fit the servers' read buffer, through the servers' receive paths
	for _, f := range costFamilies(rng, 4096) {
		if len(f.in) > 4096 || f.entry == "label" {
			continue
		}
		alloc, _, ok, killed := measureChild(f.entry+"srv", f.in)
		o.Emit(map[string]any{"op": "Cost", "family": f.name, "via": "server", "entry": f.entry + "srv", "n": len(f.in), "depth": f.depth, "accepted": ok,
			"allocKiB": (alloc + 1023) / 1024, "retainedKiB": 0, "killed": killed}, "server-"+f.name, append([]byte("srv"), f.in...), ok || killed)
	}
	for _, n := range sizes {
		for r := 0; r < reps; r++ {
			for _, f := range costFamilies(rng, n) {
				if len(f.in) > 65507 {
					continue
				}
				alloc, retained, ok, killed := measureChild(f.entry, f.in)
				o.Emit(map[string]any{"op": "Cost", "family": f.name, "entry": f.entry, "n": len(f.in), "depth": f.depth, "accepted": ok,
					"allocKiB": (alloc + 1023) / 1024, "retainedKiB": (retained + 1023) / 1024, "killed": killed}, "family-"+f.name, f.in, ok || killed)
			}
		}
	}
}
