package main

import (
	"fmt"
	"math/rand"
	"net"
	"time"

	"github.com/insomniacslk/dhcp/dhcpv4"
	"github.com/insomniacslk/dhcp/iana"
)

func init() { gens["c15"] = genC15 }

// code4 returns the library's own option-code value for c (the type its decoder produces), so that
// OptionCodeList.Add recognises a code it already holds; GenericOptionCode(c) compares unequal to it as
// an interface value, which would duplicate codes in the parameter request list.
func code4(c int) dhcpv4.OptionCode {
	var l dhcpv4.OptionCodeList
	if err := l.FromBytes([]byte{byte(c)}); err != nil || len(l) != 1 {
		return dhcpv4.GenericOptionCode(c)
	}
	return l[0]
}

type mod4 struct {
	desc map[string]any
	fn   dhcpv4.Modifier
}

func randMod4(rng *rand.Rand, other *dhcpv4.DHCPv4) mod4 {
	ip := net.IP(randBytes(rng, 4))
	switch rng.Intn(24) {
	case 22:
		ns := randNames(rng)
		if len(ns) == 0 {
			ns = []string{randName(rng)}
		}
		return mod4{map[string]any{"k": "names", "v": namesJSON(ns)}, dhcpv4.WithDomainSearchList(ns...)}
	case 23:
		id := randBytes(rng, 1+rng.Intn(9))
		return mod4{map[string]any{"k": "opt", "c": 61, "v": B(id)}, dhcpv4.WithOption(dhcpv4.OptClientIdentifier(id))}
	case 0:
		var x dhcpv4.TransactionID
		copy(x[:], randBytes(rng, 4))
		if rng.Intn(4) == 0 {
			x = dhcpv4.TransactionID{}
		}
		return mod4{map[string]any{"k": "xid", "v": B(x[:])}, dhcpv4.WithTransactionID(x)}
	case 1:
		return mod4{map[string]any{"k": "ci", "v": B(ip)}, dhcpv4.WithClientIP(ip)}
	case 2:
		return mod4{map[string]any{"k": "yi", "v": B(ip)}, dhcpv4.WithYourIP(ip)}
	case 3:
		return mod4{map[string]any{"k": "si", "v": B(ip)}, dhcpv4.WithServerIP(ip)}
	case 4:
		return mod4{map[string]any{"k": "gi", "v": B(ip)}, dhcpv4.WithGatewayIP(ip)}
	case 5:
		h := rng.Intn(256)
		return mod4{map[string]any{"k": "htype", "v": h}, dhcpv4.WithHWType(iana.HWType(h))}
	case 6:
		b := rng.Intn(2) == 0
		return mod4{map[string]any{"k": "bcast", "v": b}, dhcpv4.WithBroadcast(b)}
	case 7:
		hw := randBytes(rng, pick(rng, 6, 6, 8, 16, 1))
		return mod4{map[string]any{"k": "hw", "v": B(hw)}, dhcpv4.WithHwAddr(hw)}
	case 8:
		c := pick(rng, 53, 55, 82, 61, 54, 50, 1+rng.Intn(254))
		v := randBytes(rng, 1+rng.Intn(6))
		return mod4{map[string]any{"k": "opt", "c": c, "v": B(v)}, dhcpv4.WithGeneric(dhcpv4.GenericOptionCode(c), v)}
	case 9:
		c := pick(rng, 53, 55, 82, 61, 54, 50, 57)
		return mod4{map[string]any{"k": "del", "c": c}, dhcpv4.WithoutOption(dhcpv4.GenericOptionCode(c))}
	case 10:
		t := rng.Intn(9)
		return mod4{map[string]any{"k": "opt", "c": 53, "v": []int{t}}, dhcpv4.WithMessageType(dhcpv4.MessageType(t))}
	case 11:
		var cs []dhcpv4.OptionCode
		cl := []int{}
		for j := 1 + rng.Intn(4); j > 0; j-- {
			c := pick(rng, 1, 3, 6, 15, 42, 66, 67, rng.Intn(256))
			cs = append(cs, code4(c))
			cl = append(cl, c)
		}
		return mod4{map[string]any{"k": "reqopts", "v": cl}, dhcpv4.WithRequestedOptions(cs...)}
	case 12:
		return mod4{map[string]any{"k": "reqopts", "v": []int{66, 67}}, dhcpv4.WithNetboot}
	case 13:
		return mod4{map[string]any{"k": "relay", "v": B(ip)}, dhcpv4.WithRelay(ip)}
	case 14:
		m := net.CIDRMask(rng.Intn(33), 32)
		return mod4{map[string]any{"k": "opt", "c": 1, "v": B(m)}, dhcpv4.WithNetmask(m)}
	case 15:
		s := rng.Uint32()
		return mod4{map[string]any{"k": "opt", "c": 51, "v": u32b(s)}, dhcpv4.WithLeaseTime(s)}
	case 16:
		s := rng.Uint32()
		return mod4{map[string]any{"k": "opt", "c": 108, "v": u32b(s)}, dhcpv4.WithIPv6OnlyPreferred(s)}
	case 17:
		return mod4{map[string]any{"k": "opt", "c": 3, "v": B(ip)}, dhcpv4.WithRouter(ip)}
	case 18:
		ip2 := net.IP(randBytes(rng, 4))
		return mod4{map[string]any{"k": "opt", "c": 6, "v": B(append(append([]byte{}, ip...), ip2...))}, dhcpv4.WithDNS(ip, ip2)}
	case 19:
		uc := randNoNul(rng, 1+rng.Intn(8))
		if rng.Intn(2) == 0 {
			return mod4{map[string]any{"k": "opt", "c": 77, "v": B(append([]byte{byte(len(uc))}, uc...))}, dhcpv4.WithUserClass(uc, true)}
		}
		return mod4{map[string]any{"k": "opt", "c": 77, "v": B([]byte(uc))}, dhcpv4.WithUserClass(uc, false)}
	case 20:
		c := pick(rng, 82, 61, 54, 55, 12)
		return mod4{map[string]any{"k": "copy", "src": proj4(other), "c": c}, dhcpv4.WithOptionCopied(other, dhcpv4.GenericOptionCode(c))}
	default:
		return mod4{map[string]any{"k": "reply", "src": proj4(other)}, dhcpv4.WithReply(other)}
	}
}

// input4 builds a packet the builders answer: any opcode, flags, addresses, with and without 82/61/54/55
func input4(rng *rand.Rand) *dhcpv4.DHCPv4 {
	p := randPacket4(rng, 0, nil)
	p.Options = dhcpv4.Options{}
	// header addresses as a decoder or a careful caller produces them: never nil
	for _, f := range []*net.IP{&p.ClientIPAddr, &p.YourIPAddr, &p.ServerIPAddr, &p.GatewayIPAddr} {
		if *f == nil {
			*f = net.IPv4zero
		}
	}
	if rng.Intn(4) == 0 {
		p.TransactionID = dhcpv4.TransactionID{}
	}
	if rng.Intn(6) == 0 {
		p.TransactionID = dhcpv4.TransactionID{255, 255, 255, 255}
	}
	p.OpCode = dhcpv4.OpcodeType(pick(rng, 1, 2, 1, 2, 0, 3))
	p.Flags = uint16(pick(rng, 0, 0x8000, 0x8001, 1, rng.Intn(65536)))
	put := func(c uint8, v []byte) {
		switch rng.Intn(3) {
		case 0:
		case 1:
			p.Options[c] = v
		default:
			if rng.Intn(3) == 0 {
				p.Options[c] = []byte{} // present with an empty value
			} else {
				p.Options[c] = v
			}
		}
	}
	// values of every size class: a decoded packet concatenates split options, so echoed values can exceed 255 bytes
	put(82, randBytes(rng, pick(rng, 2+rng.Intn(8), 2+rng.Intn(8), 255, 256, 257, 300+rng.Intn(400))))
	put(61, randBytes(rng, pick(rng, 1+rng.Intn(8), 1+rng.Intn(8), 1+rng.Intn(8), 255, 256, 511)))
	put(54, randBytes(rng, pick(rng, 4, 4, 4, 4, 260)))
	put(55, randBytes(rng, 1+rng.Intn(5)))
	put(53, []byte{byte(1 + rng.Intn(8))})
	if rng.Intn(2) == 0 { // as received: through the wire (empty values become nil)
		q, err := dhcpv4.FromBytes(p.ToBytes())
		if err == nil {
			return q
		}
	}
	for c, v := range p.Options { // hand-built: keep empty values nil like the decoder does
		if len(v) == 0 {
			p.Options[c] = nil
		}
	}
	return p
}

func genC15(o *Out, rng *rand.Rand, tier string) {
	n := 700
	if tier == "thorough" {
		n = 12000
	}
	type builder struct {
		name string
		call func(in *dhcpv4.DHCPv4, hw net.HardwareAddr, ip net.IP, mods ...dhcpv4.Modifier) (*dhcpv4.DHCPv4, error)
	}
	builders := []builder{
		{"Discovery", func(in *dhcpv4.DHCPv4, hw net.HardwareAddr, ip net.IP, mods ...dhcpv4.Modifier) (*dhcpv4.DHCPv4, error) {
			return dhcpv4.NewDiscovery(hw, mods...)
		}},
		{"Inform", func(in *dhcpv4.DHCPv4, hw net.HardwareAddr, ip net.IP, mods ...dhcpv4.Modifier) (*dhcpv4.DHCPv4, error) {
			return dhcpv4.NewInform(hw, ip, mods...)
		}},
		{"RequestFromOffer", func(in *dhcpv4.DHCPv4, hw net.HardwareAddr, ip net.IP, mods ...dhcpv4.Modifier) (*dhcpv4.DHCPv4, error) {
			return dhcpv4.NewRequestFromOffer(in, mods...)
		}},
		{"RenewFromAck", func(in *dhcpv4.DHCPv4, hw net.HardwareAddr, ip net.IP, mods ...dhcpv4.Modifier) (*dhcpv4.DHCPv4, error) {
			return dhcpv4.NewRenewFromAck(in, mods...)
		}},
		{"ReplyFromRequest", func(in *dhcpv4.DHCPv4, hw net.HardwareAddr, ip net.IP, mods ...dhcpv4.Modifier) (*dhcpv4.DHCPv4, error) {
			return dhcpv4.NewReplyFromRequest(in, mods...)
		}},
		{"ReleaseFromACK", func(in *dhcpv4.DHCPv4, hw net.HardwareAddr, ip net.IP, mods ...dhcpv4.Modifier) (*dhcpv4.DHCPv4, error) {
			return dhcpv4.NewReleaseFromACK(in, mods...)
		}},
		{"New", func(in *dhcpv4.DHCPv4, hw net.HardwareAddr, ip net.IP, mods ...dhcpv4.Modifier) (*dhcpv4.DHCPv4, error) {
			return dhcpv4.New(mods...)
		}},
	}
	_ = time.Second
	// what servers and clients really do with the builders: every builder x every message type given by the caller x the
	// header fields the RFC attaches rules to (relayed or not, broadcast bit, client address), with and without a
	// caller's own choice of the broadcast bit - the builder's result is its defaults, then the caller's modifiers
	for _, b := range builders {
		for mt := 1; mt <= 8; mt++ {
			for combo := 0; combo < 8; combo++ {
				in := input4(rng)
				if combo&1 == 1 {
					in.GatewayIPAddr = net.IPv4(10, 7, 0, byte(1+rng.Intn(200))).To4()
					if (mt+combo)%4 == 0 { // a relay address of a special kind is a relay address
						in.GatewayIPAddr = append(net.IP(nil), specialIPs[rng.Intn(len(specialIPs))]...)
					}
				} else {
					in.GatewayIPAddr = net.IPv4zero.To4()
				}
				in.Flags = []uint16{0, 0x8000}[combo>>1&1]
				if combo&4 == 4 {
					in.ClientIPAddr = net.IPv4(10, 8, 0, byte(1+rng.Intn(200))).To4()
				}
				mods := []dhcpv4.Modifier{dhcpv4.WithMessageType(dhcpv4.MessageType(mt))}
				descs := []any{map[string]any{"k": "opt", "c": 53, "v": []int{mt}}}
				if (mt+combo)%3 == 0 {
					bc := (mt+combo)%2 == 0
					mods = append(mods, dhcpv4.WithBroadcast(bc))
					descs = append(descs, map[string]any{"k": "bcast", "v": bc})
				}
				hw := net.HardwareAddr(randBytes(rng, 6))
				ip := net.IP(randBytes(rng, 4))
				inJSON := proj4(in)
				inJSON["hw"], inJSON["ip"] = B(hw), B(ip)
				rec := map[string]any{"op": "B4", "builder": b.name, "in": inJSON, "mods": descs}
				func() {
					defer func() {
						if r := recover(); r != nil {
							rec["out"] = map[string]any{"panic": fmt.Sprint(r)}
						}
					}()
					out, err := b.call(in, hw, ip, mods...)
					if err != nil {
						rec["out"] = map[string]any{"ok": false}
					} else {
						rec["out"] = map[string]any{"ok": true, "val": proj4(out)}
					}
				}()
				o.Emit(rec, "builder-by-message-type-"+b.name, append([]byte(b.name+fmt.Sprint(descs)), in.ToBytes()...), true)
			}
		}
	}
	for i := 0; i < n; i++ {
		other := input4(rng)
		k := rng.Intn(5)
		// the caller's modifier slice has spare capacity and is reused for a second builder call
		mods := make([]dhcpv4.Modifier, 0, k+8)
		descs := []any{}
		for j := 0; j < k; j++ {
			m := randMod4(rng, other)
			mods = append(mods, m.fn)
			descs = append(descs, m.desc)
		}
		for round := 0; round < 2; round++ {
			b := builders[rng.Intn(len(builders))]
			in := input4(rng)
			hw := net.HardwareAddr(randBytes(rng, 6))
			ip := net.IP(randBytes(rng, 4))
			inJSON := proj4(in)
			inJSON["hw"] = B(hw)
			inJSON["ip"] = B(ip)
			rec := map[string]any{"op": "B4", "builder": b.name, "in": inJSON, "mods": descs}
			func() {
				defer func() {
					if r := recover(); r != nil {
						rec["out"] = map[string]any{"panic": fmt.Sprint(r)}
					}
				}()
				out, err := b.call(in, hw, ip, mods...)
				if err != nil {
					rec["out"] = map[string]any{"ok": false}
				} else {
					rec["out"] = map[string]any{"ok": true, "val": proj4(out)}
				}
			}()
			key := append([]byte(b.name+fmt.Sprint(descs)), in.ToBytes()...)
			cls := "builder-" + b.name
			if round == 1 {
				cls = "same-modifier-slice-reused"
			}
			o.Emit(rec, cls, key, k > 0)
		}
	}
}
