package main

import (
	"math/rand"
	"net"
	"time"

	"github.com/insomniacslk/dhcp/dhcpv6"
	"github.com/insomniacslk/dhcp/iana"
)

// Extended conformance, second part (spec/Dhcp6Mods.tla): every typed accessor of the DHCPv6 option
// containers, the container operations, the modifier algebra and the builders with caller modifiers.

func init() { gens["ext2"] = genExt2 }

func vOf(o dhcpv6.Option) any { return projOpt(o, "main")["v"] }

// accMsg6 builds a message with several instances, in any order, of every option an accessor looks at
func accMsg6(rng *rand.Rand) *dhcpv6.Message {
	m := &dhcpv6.Message{MessageType: dhcpv6.MessageType(1 + rng.Intn(11))}
	copy(m.TransactionID[:], randBytes(rng, 3))
	pool := []int{1, 1, 2, 3, 3, 4, 4, 25, 25, 97, 97, 13, 13, 6, 6, 23, 23, 24, 59, 59, 60, 60, 15, 15, 16, 16, 16, 17, 17, 17,
		8, 8, 32, 32, 39, 39, 88, 88, 56, 56, 61, 61, 200, 14}
	rng.Shuffle(len(pool), func(i, j int) { pool[i], pool[j] = pool[j], pool[i] })
	for _, c := range pool[:rng.Intn(len(pool)/2+1)] {
		o := randOpt6(rng, c, 2)
		// enterprise numbers from a small set, so that lookups by number hit the first, a later or no instance
		switch x := o.(type) {
		case *dhcpv6.OptVendorClass:
			x.EnterpriseNumber = uint32(pick(rng, 9, 9, 1271, 33049, 0))
		case *dhcpv6.OptVendorOpts:
			x.EnterpriseNumber = uint32(pick(rng, 9, 9, 1271, 33049, 0))
		}
		m.AddOption(o)
	}
	return m
}

type mod6 struct {
	f   dhcpv6.Modifier
	rec map[string]any
}

func randMod6(rng *rand.Rand) mod6 {
	addrs := func() ([]dhcpv6.OptIAAddress, []any) {
		var as []dhcpv6.OptIAAddress
		js := []any{}
		for k := rng.Intn(3); k > 0; k-- {
			a := randOpt6(rng, 5, 1).(*dhcpv6.OptIAAddress)
			as = append(as, *a)
			js = append(js, projOpt(a, "main"))
		}
		return as, js
	}
	iaid := func() ([4]byte, []int) {
		var x [4]byte
		copy(x[:], randBytes(rng, 4))
		return x, B(x[:])
	}
	ips := func() ([]net.IP, []any) {
		var l []net.IP
		for k := rng.Intn(3); k > 0; k-- {
			l = append(l, rip6(rng))
		}
		return l, ipList16(l)
	}
	switch rng.Intn(19) {
	case 0:
		o := randOpt6(rng, pick(rng, 1, 3, 6, 13, 14, 23, 59, 200, 16), 1)
		if o.Code() == 14 {
			o = &dhcpv6.OptionGeneric{OptionCode: dhcpv6.OptionRapidCommit}
		}
		return mod6{dhcpv6.WithOption(o), map[string]any{"k": "WithOption", "o": projOpt(o, "main")}}
	case 1:
		d := rduid(rng)
		return mod6{dhcpv6.WithClientID(d), map[string]any{"k": "WithClientID", "duid": projDUID(d)}}
	case 2:
		d := rduid(rng)
		return mod6{dhcpv6.WithServerID(d), map[string]any{"k": "WithServerID", "duid": projDUID(d)}}
	case 3:
		return mod6{dhcpv6.WithNetboot, map[string]any{"k": "WithNetboot"}}
	case 4:
		fl, name := uint8(rng.Intn(256)), randName(rng)
		return mod6{dhcpv6.WithFQDN(fl, name), map[string]any{"k": "WithFQDN", "flags": []int{int(fl)}, "name": B([]byte(name))}}
	case 5:
		uc := rdata(rng)
		return mod6{dhcpv6.WithUserClass(uc), map[string]any{"k": "WithUserClass", "uc": B(uc)}}
	case 6:
		at := iana.Arch(pick(rng, 0, 7, 9, 65535, rng.Intn(65536)))
		return mod6{dhcpv6.WithArchType(at), map[string]any{"k": "WithArchType", "arch": u16b(uint16(at))}}
	case 7:
		as, js := addrs()
		return mod6{dhcpv6.WithIANA(as...), map[string]any{"k": "WithIANA", "addrs": js}}
	case 8:
		x, j := iaid()
		return mod6{dhcpv6.WithIAID(x), map[string]any{"k": "WithIAID", "iaid": j}}
	case 9:
		x, j := iaid()
		as, js := addrs()
		return mod6{dhcpv6.WithIATA(x, as...), map[string]any{"k": "WithIATA", "iaid": j, "addrs": js}}
	case 10:
		l, j := ips()
		return mod6{dhcpv6.WithDNS(l...), map[string]any{"k": "WithDNS", "ips": j}}
	case 11:
		ns := rlabels(rng).Labels
		return mod6{dhcpv6.WithDomainSearchList(ns...), map[string]any{"k": "WithDomainSearchList", "names": namesJSON(ns)}}
	case 12:
		return mod6{dhcpv6.WithRapidCommit, map[string]any{"k": "WithRapidCommit"}}
	case 13:
		var cs []dhcpv6.OptionCode
		js := []any{}
		for k := rng.Intn(4); k > 0; k-- {
			c := pick(rng, 23, 24, 59, 60, 23, rng.Intn(65536))
			cs = append(cs, dhcpv6.OptionCode(c))
			js = append(js, u16b(uint16(c)))
		}
		return mod6{dhcpv6.WithRequestedOptions(cs...), map[string]any{"k": "WithRequestedOptions", "codes": js}}
	case 14:
		l, j := ips()
		return mod6{dhcpv6.WithDHCP4oDHCP6Server(l...), map[string]any{"k": "WithDHCP4oDHCP6Server", "ips": j}}
	case 15:
		x, j := iaid()
		var ps []*dhcpv6.OptIAPrefix
		js := []any{}
		for k := rng.Intn(3); k > 0; k-- {
			p := randOpt6(rng, 26, 1).(*dhcpv6.OptIAPrefix)
			ps = append(ps, p)
			js = append(js, projOpt(p, "main"))
		}
		return mod6{dhcpv6.WithIAPD(x, ps...), map[string]any{"k": "WithIAPD", "iaid": j, "prefixes": js}}
	case 16:
		ht, lla := iana.HWType(pick(rng, 1, 6, 65535)), net.HardwareAddr(randBytes(rng, pick(rng, 6, 0, 8, 20)))
		return mod6{dhcpv6.WithClientLinkLayerAddress(ht, lla), map[string]any{"k": "WithClientLinkLayerAddress", "hw": u16b(uint16(ht)), "addr": B(lla)}}
	case 17:
		d := time.Duration(pick(rng, 0, 600, 86400, 0x7fffffff, rng.Intn(1<<31))) * time.Second
		return mod6{dhcpv6.WithInformationRefreshTime(d), map[string]any{"k": "WithInformationRefreshTime", "secs": secs4(d)}}
	default:
		x, j := iaid()
		return mod6{dhcpv6.WithIAID(x), map[string]any{"k": "WithIAID", "iaid": j}}
	}
}

func genExt2(o *Out, rng *rand.Rand, tier string) {
	n := 500
	if tier == "thorough" {
		n = 8000
	}
	guardRec := func(rec map[string]any, f func()) {
		defer func() {
			if r := recover(); r != nil {
				rec["panic"] = "panic"
			}
		}()
		f()
	}
	listV := func(n int, at func(i int) dhcpv6.Option) []any {
		l := []any{}
		for i := 0; i < n; i++ {
			l = append(l, vOf(at(i)))
		}
		return l
	}
	optV := func(o dhcpv6.Option, isNil bool) []any {
		if isNil {
			return []any{}
		}
		return []any{vOf(o)}
	}
	subs := func(kind string, opts dhcpv6.Options, res map[string]any, key []byte) {
		rec := map[string]any{"op": "Sub6", "kind": kind, "opts": projOpts(opts, "main"), "res": res}
		o.Emit(rec, "v6-sub-accessors-"+kind, append([]byte("sub"+kind), key...), len(opts) > 0)
	}
	var walk func(os dhcpv6.Options)
	walk = func(os dhcpv6.Options) {
		for _, op := range os {
			res := map[string]any{}
			switch x := op.(type) {
			case *dhcpv6.OptIANA:
				guardRec(res, func() {
					as := x.Options.Addresses()
					res["Addresses"] = listV(len(as), func(i int) dhcpv6.Option { return as[i] })
					one := x.Options.OneAddress()
					res["OneAddress"] = optV(one, one == nil)
					st := x.Options.Status()
					res["Status"] = optV(st, st == nil)
				})
				subs("ia", x.Options.Options, res, x.ToBytes())
				walk(x.Options.Options)
			case *dhcpv6.OptIATA:
				guardRec(res, func() {
					as := x.Options.Addresses()
					res["Addresses"] = listV(len(as), func(i int) dhcpv6.Option { return as[i] })
					one := x.Options.OneAddress()
					res["OneAddress"] = optV(one, one == nil)
					st := x.Options.Status()
					res["Status"] = optV(st, st == nil)
				})
				subs("ia", x.Options.Options, res, x.ToBytes())
				walk(x.Options.Options)
			case *dhcpv6.OptIAPD:
				guardRec(res, func() {
					ps := x.Options.Prefixes()
					res["Prefixes"] = listV(len(ps), func(i int) dhcpv6.Option { return ps[i] })
					st := x.Options.Status()
					res["Status"] = optV(st, st == nil)
				})
				subs("pd", x.Options.Options, res, x.ToBytes())
				walk(x.Options.Options)
			case *dhcpv6.OptIAAddress:
				guardRec(res, func() {
					st := x.Options.Status()
					res["Status"] = optV(st, st == nil)
				})
				subs("leaf", x.Options.Options, res, x.ToBytes())
			case *dhcpv6.OptIAPrefix:
				guardRec(res, func() {
					st := x.Options.Status()
					res["Status"] = optV(st, st == nil)
				})
				subs("leaf", x.Options.Options, res, x.ToBytes())
			case *dhcpv6.Opt4RD:
				guardRec(res, func() {
					mr := x.FourRDOptions.MapRules()
					res["MapRules"] = listV(len(mr), func(i int) dhcpv6.Option { return mr[i] })
					nm := x.FourRDOptions.NonMapRule()
					res["NonMapRule"] = optV(nm, nm == nil)
				})
				subs("4rd", x.FourRDOptions.Options, res, x.ToBytes())
			}
		}
	}
	for i := 0; i < n; i++ {
		m := accMsg6(rng)
		if i%2 == 1 { // as a receiver sees it
			if d, err := dhcpv6.FromBytes(m.ToBytes()); err == nil {
				m = d.(*dhcpv6.Message)
			}
		}
		ent := uint32(pick(rng, 9, 1271, 33049, 0, 7))
		def := time.Duration(pick(rng, 0, 86400, 600)) * time.Second
		res := map[string]any{}
		guardRec(res, func() {
			mo := m.Options
			archs := []any{}
			for _, a := range mo.ArchTypes() {
				archs = append(archs, u16b(uint16(a)))
			}
			res["ArchTypes"] = archs
			duid := func(d dhcpv6.DUID) any {
				if d == nil {
					return []any{}
				}
				return projDUID(d)
			}
			res["ClientID"] = duid(mo.ClientID())
			res["ServerID"] = duid(mo.ServerID())
			ianas := mo.IANA()
			res["IANA"] = listV(len(ianas), func(i int) dhcpv6.Option { return ianas[i] })
			res["OneIANA"] = optV(mo.OneIANA(), mo.OneIANA() == nil)
			iatas := mo.IATA()
			res["IATA"] = listV(len(iatas), func(i int) dhcpv6.Option { return iatas[i] })
			res["OneIATA"] = optV(mo.OneIATA(), mo.OneIATA() == nil)
			iapds := mo.IAPD()
			res["IAPD"] = listV(len(iapds), func(i int) dhcpv6.Option { return iapds[i] })
			res["OneIAPD"] = optV(mo.OneIAPD(), mo.OneIAPD() == nil)
			frds := mo.FourRD()
			res["FourRD"] = listV(len(frds), func(i int) dhcpv6.Option { return frds[i] })
			res["Status"] = optV(mo.Status(), mo.Status() == nil)
			req := []any{}
			for _, c := range mo.RequestedOptions() {
				req = append(req, u16b(uint16(c)))
			}
			res["RequestedOptions"] = req
			res["DNS"] = ipList16(mo.DNS())
			res["DomainSearchList"] = labelsJSON(mo.DomainSearchList())
			res["BootFileURL"] = B([]byte(mo.BootFileURL()))
			ps := []any{}
			for _, p := range mo.BootFileParam() {
				ps = append(ps, B([]byte(p)))
			}
			res["BootFileParam"] = ps
			res["UserClasses"] = items(mo.UserClasses())
			vcs := mo.VendorClasses()
			res["VendorClasses"] = listV(len(vcs), func(i int) dhcpv6.Option { return vcs[i] })
			res["VendorClass"] = items(mo.VendorClass(ent))
			vos := mo.VendorOpts()
			res["VendorOpts"] = listV(len(vos), func(i int) dhcpv6.Option { return vos[i] })
			res["VendorOpt"] = projOpts(mo.VendorOpt(ent), "vendor")
			el := mo.ElapsedTime()
			if el < 0 || el%(10*time.Millisecond) != 0 || el/(10*time.Millisecond) > 0xffff {
				res["ElapsedTime"] = []int{-1, -1}
			} else {
				res["ElapsedTime"] = u16b(uint16(el / (10 * time.Millisecond)))
			}
			res["InformationRefreshTime"] = secs4(mo.InformationRefreshTime(def))
			res["FQDN"] = optV(mo.FQDN(), mo.FQDN() == nil)
			res["DHCP4oDHCP6Server"] = optV(mo.DHCP4oDHCP6Server(), mo.DHCP4oDHCP6Server() == nil)
			res["NTPServers"] = ipList16(mo.NTPServers())
		})
		rec := map[string]any{"op": "Acc6x", "msg": proj6(m), "ent": u32b(ent), "def": secs4(def), "res": res}
		o.Emit(rec, "v6-all-accessors", append([]byte("acc"), m.ToBytes()...), len(m.Options.Options) > 1)
		walk(m.Options.Options)

		// ---- DUID equality: equal copies, one field changed, another kind
		{
			a := rduid(rng)
			b, _ := dhcpv6.DUIDFromBytes(a.ToBytes())
			if b == nil || rng.Intn(3) == 0 {
				b = rduid(rng)
			} else if rng.Intn(2) == 0 {
				w := a.ToBytes()
				w[rng.Intn(len(w))] ^= byte(1 << uint(rng.Intn(8)))
				if x, err := dhcpv6.DUIDFromBytes(w); err == nil {
					b = x
				}
			}
			rec := map[string]any{"op": "DuidEq", "a": projDUID(a), "b": projDUID(b)}
			guardRec(rec, func() { rec["res"] = a.Equal(b); rec["sym"] = b.Equal(a) })
			o.Emit(rec, "duid-equal", append(append([]byte("deq"), a.ToBytes()...), b.ToBytes()...), true)
		}
		// ---- relay accessors
		var d dhcpv6.DHCPv6 = m
		r, _ := dhcpv6.EncapsulateRelay(d, dhcpv6.MessageTypeRelayForward, rip6(rng), rip6(rng))
		extra := []int{18, 18, 37, 37, 79, 79, 135, 200}
		rng.Shuffle(len(extra), func(i, j int) { extra[i], extra[j] = extra[j], extra[i] })
		for _, c := range extra[:rng.Intn(len(extra))] {
			if rng.Intn(2) == 0 {
				r.Options.Options = append(dhcpv6.Options{randOpt6(rng, c, 1)}, r.Options.Options...)
			} else {
				r.AddOption(randOpt6(rng, c, 1))
			}
		}
		if rng.Intn(6) == 0 {
			r.Options.Del(dhcpv6.OptionRelayMsg)
		}
		res = map[string]any{}
		guardRec(res, func() {
			ro := r.Options
			if x := ro.RelayMessage(); x != nil {
				res["RelayMessage"] = []any{proj6(x)}
			} else {
				res["RelayMessage"] = []any{}
			}
			res["InterfaceID"] = B(ro.InterfaceID())
			res["RemoteID"] = optV(ro.RemoteID(), ro.RemoteID() == nil)
			ht, lla := ro.ClientLinkLayerAddress()
			if ro.GetOne(dhcpv6.OptionClientLinkLayerAddr) == nil {
				res["ClientLinkLayerAddress"] = []any{}
				if ht != 0 || lla != nil {
					res["ClientLinkLayerAddress"] = "not-default"
				}
			} else {
				res["ClientLinkLayerAddress"] = []any{[]any{u16b(uint16(ht)), B(lla)}}
			}
		})
		rec = map[string]any{"op": "AccRelay", "msg": proj6(r), "res": res}
		o.Emit(rec, "v6-relay-accessors", append([]byte("racc"), r.ToBytes()...), true)

		// ---- container operations
		base := accMsg6(rng)
		before := proj6(base)
		code := pick(rng, 1, 3, 6, 16, 23, 200, 77)
		no := randOpt6(rng, code, 1)
		kind := pick(rng, 0, 1, 2)
		rec = map[string]any{"op": "Cont6", "kind": []string{"Add", "Update", "Del"}[kind], "in": before, "o": projOpt(no, "main"), "code": code}
		guardRec(rec, func() {
			switch kind {
			case 0:
				base.AddOption(no)
			case 1:
				base.UpdateOption(no)
			default:
				base.Options.Del(dhcpv6.OptionCode(code))
			}
			rec["out"] = proj6(base)
			rec["get"] = projOpts(base.GetOption(dhcpv6.OptionCode(code)), "main")
			one := base.GetOneOption(dhcpv6.OptionCode(code))
			if one == nil {
				rec["getone"] = []any{}
			} else {
				rec["getone"] = []any{projOpt(one, "main")}
			}
		})
		o.Emit(rec, "v6-container-ops", append([]byte{byte(kind), byte(code)}, base.ToBytes()...), true)

		// ---- modifiers on an existing message or relay, and builders with caller modifiers
		// fresh modifier values for every application (a modifier that carries an option shares it with every message
		// it is applied to, and later modifiers edit such options in place)
		modSeed, nm := rng.Int63(), rng.Intn(4)
		mkMods := func() (fs []dhcpv6.Modifier, mj []any) {
			r2 := rand.New(rand.NewSource(modSeed))
			mj = []any{}
			for k := 0; k < nm; k++ {
				x := randMod6(r2)
				fs = append(fs, x.f)
				mj = append(mj, x.rec)
			}
			return
		}
		fs, mj := mkMods()
		var target dhcpv6.DHCPv6 = accMsg6(rng)
		if rng.Intn(5) == 0 {
			target, _ = dhcpv6.EncapsulateRelay(target, dhcpv6.MessageTypeRelayForward, rip6(rng), rip6(rng))
		}
		rec = map[string]any{"op": "Mod6", "in": proj6(target), "mods": mj}
		guardRec(rec, func() {
			for _, f := range fs {
				f(target)
			}
			rec["out"] = proj6(target)
		})
		o.Emit(rec, "v6-modifiers", append([]byte("mod"), target.ToBytes()...), nm > 0)

		src := innerMsg6(rng)
		hw := randBytes(rng, pick(rng, 6, 6, 4, 3, 0, 8, 20))
		for _, fn := range []string{"NewMessage", "Solicit", "Advertise", "Request", "Reply"} {
			fs, mj := mkMods()
			rec = map[string]any{"op": "Build6m", "fn": fn, "in": proj6(src), "hw": B(hw), "mods": mj, "time": []int{0, 0, 0, 0}}
			var key []byte
			guardRec(rec, func() {
				var out *dhcpv6.Message
				var err error
				switch fn {
				case "NewMessage":
					out, err = dhcpv6.NewMessage(fs...)
				case "Solicit":
					out, err = dhcpv6.NewSolicit(hw, fs...)
				case "Advertise":
					out, err = dhcpv6.NewAdvertiseFromSolicit(src, fs...)
				case "Request":
					out, err = dhcpv6.NewRequestFromAdvertise(src, fs...)
				default:
					out, err = dhcpv6.NewReplyFromMessage(src, fs...)
				}
				rec["out"] = res6nil(out, err)
				if err == nil && out != nil {
					key = out.ToBytes()
					if llt, ok := out.Options.ClientID().(*dhcpv6.DUIDLLT); ok && fn == "Solicit" {
						rec["time"] = u32b(llt.Time) // the clock reading NewSolicit put into its DUID
					}
				}
			})
			o.Emit(rec, "v6-builders-with-modifiers", append([]byte(fn), key...), true)
		}
	}
}

func res6nil(m *dhcpv6.Message, err error) map[string]any {
	if err != nil || m == nil {
		return map[string]any{"ok": false, "v": []any{}}
	}
	return map[string]any{"ok": true, "v": proj6(m)}
}
