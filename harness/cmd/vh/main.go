// Command vh is the Go side of the conformance binding between the TLA+
// specification in /verif/spec and the real insomniacslk/dhcp code.
//
//	vh gen <family> -o trace.ndjson [-seed N] [-tier quick|thorough]
//
// Every generator drives the real library (built from /repo's working tree)
// and records one ndjson line per call: the input and what the library
// returned.  TLC then decides, line by line, whether that is what the
// specification allows.  vh never judges anything itself.
package main

import (
	"runtime/debug"
	"strings"
	"strconv"
	"bufio"
	"crypto/sha256"
	"encoding/json"
	"flag"
	"fmt"
	"math/rand"
	"os"
	"sort"
)

// Out is the trace writer shared by all generators.
type Out struct {
	w        *bufio.Writer
	f        *os.File
	n        int
	seen     map[[32]byte]struct{}
	nontriv  map[[32]byte]struct{}
	classes  map[string]int
	samples  []json.RawMessage
	sampleOf map[string]bool
	extra    map[string]any
}

func newOut(path string) *Out {
	f, err := os.Create(path)
	if err != nil {
		panic(err)
	}
	return &Out{w: bufio.NewWriterSize(f, 1<<20), f: f, seen: map[[32]byte]struct{}{}, nontriv: map[[32]byte]struct{}{},
		classes: map[string]int{}, sampleOf: map[string]bool{}}
}

// Emit writes one trace line. rec must be a map or struct; the field "id" is
// added. key identifies the case for distinct counting; cls is the generator
// class (for the evidence); nontrivial says whether the case exercises the
// property's mechanism by the generator's stated rule.
func (o *Out) Emit(rec map[string]any, cls string, key []byte, nontrivial bool) {
	o.n++
	rec["id"] = o.n
	rec["cls"] = cls
	b, err := json.Marshal(rec)
	if err != nil {
		panic(err)
	}
	o.w.Write(b)
	o.w.WriteByte('\n')
	h := sha256.Sum256(append([]byte(cls+"|"), key...))
	hk := sha256.Sum256(key)
	_ = h
	o.seen[hk] = struct{}{}
	if nontrivial {
		o.nontriv[hk] = struct{}{}
	}
	o.classes[cls]++
	if !o.sampleOf[cls] && len(b) < 4000 {
		o.sampleOf[cls] = true
		o.samples = append(o.samples, json.RawMessage(append([]byte(nil), b...)))
	}
}

func (o *Out) Close(extra map[string]any) {
	o.w.Flush()
	o.f.Close()
	st := map[string]any{
		"lines":               o.n,
		"distinct":            len(o.seen),
		"distinct_nontrivial": len(o.nontriv),
		"classes":             o.classes,
		"samples":             o.samples,
	}
	for k, v := range extra {
		st[k] = v
	}
	b, _ := json.MarshalIndent(st, "", " ")
	os.WriteFile(o.f.Name()+".stats", b, 0o644)
}

// B converts bytes to a JSON-friendly non-nil int slice.
func B(b []byte) []int {
	r := make([]int, len(b))
	for i, x := range b {
		r[i] = int(x)
	}
	return r
}

type genFn func(o *Out, rng *rand.Rand, tier string)

var gens = map[string]genFn{}

func main() {
	if (len(os.Args) == 4 || len(os.Args) == 6) && os.Args[1] == "measure" {
		measureMain(os.Args[2:]...)
		return
	}
	if len(os.Args) == 5 && os.Args[1] == "climb" {
		seed, _ := strconv.ParseInt(os.Args[2], 10, 64)
		evals, _ := strconv.Atoi(os.Args[3])
		climbMain(seed, evals, os.Args[4])
		return
	}
	if len(os.Args) == 3 && os.Args[1] == "rawlong" {
		rawLongMain(os.Args[2])
		return
	}
	if len(os.Args) == 3 && os.Args[1] == "concur" {
		concurMain(os.Args[2])
		return
	}
	if len(os.Args) == 4 && os.Args[1] == "rerun" {
		rerun(os.Args[2], os.Args[3])
		return
	}
	if len(os.Args) < 3 || os.Args[1] != "gen" {
		fmt.Fprintln(os.Stderr, "usage: vh gen <family> -o file [-seed N] [-tier quick|thorough]")
		var names []string
		for k := range gens {
			names = append(names, k)
		}
		sort.Strings(names)
		fmt.Fprintln(os.Stderr, "families:", names)
		os.Exit(2)
	}
	fam := os.Args[2]
	fs := flag.NewFlagSet("gen", flag.ExitOnError)
	out := fs.String("o", "trace.ndjson", "output file")
	seed := fs.Int64("seed", 1, "seed")
	tier := fs.String("tier", "quick", "tier")
	fs.Parse(os.Args[3:])
	g, ok := gens[fam]
	if !ok {
		fmt.Fprintln(os.Stderr, "unknown family", fam)
		os.Exit(2)
	}
	o := newOut(*out)
	func() {
		// a library call made while inputs are being built (an encoding, a constructor) is a use of the library like
		// any other: if it panics, that is recorded as a line no trace specification accepts, not lost with the process
		defer func() {
			if r := recover(); r != nil {
				stack := string(debug.Stack())
				inLib := strings.Contains(stack, "github.com/insomniacslk/dhcp/")
				if !inLib {
					panic(r) // the harness's own fault
				}
				if len(stack) > 1500 {
					stack = stack[:1500]
				}
				what := "panic while building inputs: " + fmt.Sprint(r)
				// (the line has the fields of every trace schema, so that each trace specification reads it - and rejects it)
				o.Emit(map[string]any{"op": "GeneratorPanic", "what": what, "where": stack, "bad": []string{what},
					"fn": "GeneratorPanic", "builder": "GeneratorPanic", "family": "GeneratorPanic:" + fmt.Sprint(r), "entry": "generator",
					"n": 0, "depth": 0, "allocKiB": 1 << 30, "retainedKiB": 1 << 30, "killed": false, "accepted": false, "steps": 1, "len": 0,
					"proto": "panic", "in": []int{}, "ev": []any{map[string]any{"a": "Panic", "what": what}},
					"args": map[string]any{}, "out": map[string]any{"panic": what, "ok": false, "v": []any{}}, "mods": []any{}},
					"library-panic-while-building-inputs", []byte(fmt.Sprint(r)), true)
			}
		}()
		g(o, rand.New(rand.NewSource(*seed)), *tier)
	}()
	o.Close(o.extra)
}
