package main

import (
	"fmt"
	"math/rand"

	"github.com/insomniacslk/dhcp/dhcpv4"
	"github.com/insomniacslk/dhcp/dhcpv4/ztpv4"
	"github.com/insomniacslk/dhcp/dhcpv6"
	"github.com/insomniacslk/dhcp/dhcpv6/ztpv6"
	"github.com/insomniacslk/dhcp/iana"
)

// Extended conformance: the vendor-data case tables of ztpv4 / ztpv6 against spec/Ztp.tla.

// vendor strings from the grammar of the case tables: a known or near-miss prefix, pieces, separators
func ztpString(rng *rand.Rand, v6 bool) string {
	prefixes := []string{"Arista", "ZPESystems", "Juniper", "1271", "FPR4100", "FPR9300", "Cisco", "NVOS", "12710", "arista", "Junipe", ""}
	seps := []string{";", ":", "-", "##", "#", ""}
	piece := func() string {
		return []string{"", "a", "DCS-7050S-64", "01.23", "JPE12221671", "x:y", "p;q", "qfx10002-361", "SN", "##"}[rng.Intn(10)]
	}
	s := prefixes[rng.Intn(len(prefixes))]
	sep := seps[rng.Intn(len(seps))]
	if rng.Intn(10) < 6 { // a prefix with the separator its format uses
		pairs := [][2]string{{"Arista", ";"}, {"ZPESystems", ":"}, {"Juniper", "-"}, {"Juniper", ":"}, {"1271", "-"}, {"Cisco", ";"}, {"NVOS", "##"}, {"FPR4100", ""}, {"FPR9300", ""}}
		pr := pairs[rng.Intn(len(pairs))]
		s, sep = pr[0], pr[1]
		if sep == "" && rng.Intn(4) != 0 {
			return s
		}
	}
	for k := rng.Intn(6); k > 0; k-- {
		if rng.Intn(8) == 0 {
			s += seps[rng.Intn(len(seps))]
		} else {
			s += sep
		}
		s += piece()
	}
	return s
}

// ztpSystematic: every vendor prefix with its separator and 0 ... 5 further fields (each case table reads its fields by
// position: one field short of what it reads is where an index goes wrong), fields empty and not
func ztpSystematic() []string {
	var out []string
	for _, pr := range [][2]string{{"Arista", ";"}, {"ZPESystems", ":"}, {"Juniper", "-"}, {"Juniper", ":"}, {"1271", "-"}, {"Cisco", ";"}, {"NVOS", "##"},
		{"Ciena", "-"}, {"Mellanox", ";"}} {
		for n := 0; n <= 5; n++ {
			for _, empty := range []bool{false, true} {
				s := pr[0]
				for k := 0; k < n; k++ {
					s += pr[1]
					if !empty {
						s += []string{"DCS-7050S-64", "01.23", "JPE12221671", "x", "y"}[k]
					}
				}
				out = append(out, s)
			}
		}
	}
	return out
}

func ztpOut(rec map[string]any, name, model, serial string, err error, nilData bool) {
	if err != nil || nilData {
		rec["st"] = "err"
		return
	}
	rec["st"], rec["vendor"], rec["model"], rec["serial"] = "ok", B([]byte(name)), B([]byte(model)), B([]byte(serial))
}

func genZtp(o *Out, rng *rand.Rand, tier string) {
	n := 1500
	if tier == "thorough" {
		n = 20000
	}
	safeRec := func(rec map[string]any, f func()) {
		defer func() {
			if r := recover(); r != nil {
				rec["panic"] = fmt.Sprint(r)
			}
		}()
		f()
	}
	for i := 0; i < n; i++ {
		// ---- DHCPv4
		p := randPacket4(rng, 0, nil)
		p.Options = dhcpv4.Options{}
		if rng.Intn(8) != 0 {
			p.Options[60] = []byte(ztpString(rng, false))
		}
		if sys := ztpSystematic(); i < len(sys) {
			p.Options[60] = []byte(sys[i])
		}
		if rng.Intn(2) == 0 {
			p.Options[12] = []byte([]string{"host1", "", "h\x00\x00", "\x00"}[rng.Intn(4)])
		}
		if rng.Intn(2) == 0 {
			p.Options[61] = []byte([]string{"SER123", "", "\x01abc"}[rng.Intn(3)])
		}
		if rng.Intn(2) == 0 {
			fields := []string{"SN:0;PID:R-IOSXRV9000-CC", "PID:x;SN:1;SN:2", "SN:0;PID", "SN:a:b", "", "FOO:1", "SN:5"}
			ids := dhcpv4.VIVCIdentifiers{}
			for k := rng.Intn(3); k >= 0; k-- {
				ids = append(ids, dhcpv4.VIVCIdentifier{EntID: iana.EnterpriseID(pick(rng, 9, 9, 1271, 0)), Data: []byte(fields[rng.Intn(len(fields))])})
			}
			raw := ids.ToBytes()
			if rng.Intn(6) == 0 && len(raw) > 0 {
				raw = raw[:rng.Intn(len(raw))] // malformed option
			}
			p.Options[124] = raw
		}
		q, err := dhcpv4.FromBytes(p.ToBytes())
		if err != nil {
			continue
		}
		rec := map[string]any{"op": "Ztp4", "pkt": proj4(q)}
		safeRec(rec, func() {
			vd, err := ztpv4.ParseVendorData(q)
			if vd == nil {
				ztpOut(rec, "", "", "", err, true)
			} else {
				ztpOut(rec, vd.VendorName, vd.Model, vd.Serial, err, false)
			}
		})
		o.Emit(rec, "ztp-v4", append([]byte("z4"), q.ToBytes()...), len(q.Options) > 0)

		// ---- DHCPv6: vendor class / vendor options on a message, optionally inside relays
		m := &dhcpv6.Message{MessageType: dhcpv6.MessageTypeSolicit}
		copy(m.TransactionID[:], randBytes(rng, 3))
		if rng.Intn(2) == 0 {
			var d dhcpv6.DUID = &dhcpv6.DUIDEN{EnterpriseNumber: 1271, EnterpriseIdentifier: []byte("CIENASER")}
			if rng.Intn(3) == 0 {
				d = &dhcpv6.DUIDLL{HWType: iana.HWTypeEthernet, LinkLayerAddr: randBytes(rng, 6)}
			}
			m.AddOption(dhcpv6.OptClientID(d))
		}
		addVendor := func(x interface{ AddOption(dhcpv6.Option) }) {
			if rng.Intn(4) != 0 {
				vo := &dhcpv6.OptVendorOpts{EnterpriseNumber: uint32(pick(rng, 33049, 30065, 9, 1271))}
				for k := rng.Intn(4); k > 0; k-- {
					code := dhcpv6.OptionCode(pick(rng, 1, 3, 1, 3, 2, 6))
					data := []byte(ztpString(rng, true))
					if rng.Intn(4) == 0 {
						data = []byte([]string{"MSN2100", "MT1234X56ABC", ""}[rng.Intn(3)])
					}
					vo.VendorOpts = append(vo.VendorOpts, &dhcpv6.OptionGeneric{OptionCode: code, OptionData: data})
				}
				x.AddOption(vo)
			}
			if rng.Intn(2) == 0 {
				vc := &dhcpv6.OptVendorClass{EnterpriseNumber: uint32(pick(rng, 30065, 9, 1271))}
				for k := 1 + rng.Intn(3); k > 0; k-- {
					vc.Data = append(vc.Data, []byte(ztpString(rng, true)))
				}
				x.AddOption(vc)
			}
		}
		var d dhcpv6.DHCPv6 = m
		addVendor(m)
		for k := rng.Intn(3); k > 0; k-- {
			r, _ := dhcpv6.EncapsulateRelay(d, dhcpv6.MessageTypeRelayForward, rip6(rng), rip6(rng))
			if rng.Intn(2) == 0 {
				addVendor(r)
			}
			if rng.Intn(8) == 0 {
				r.Options.Del(dhcpv6.OptionRelayMsg)
			}
			d = r
		}
		// through the wire, as a server would see it
		d2, err := dhcpv6.FromBytes(d.ToBytes())
		if err != nil {
			continue
		}
		rec = map[string]any{"op": "Ztp6", "msg": proj6(d2)}
		safeRec(rec, func() {
			vd, err := ztpv6.ParseVendorData(d2)
			if vd == nil {
				ztpOut(rec, "", "", "", err, true)
			} else {
				ztpOut(rec, vd.VendorName, vd.Model, vd.Serial, err, false)
			}
		})
		o.Emit(rec, "ztp-v6", append([]byte("z6"), d2.ToBytes()...), true)
	}
}

func init() { gens["ztp"] = genZtp }

// ---- interface names in relay information (spec/ZtpCircuit.tla)

// circuitString draws an ASCII string from the grammar of the interface-name expressions: well-formed names of
// every format, near misses, names embedded in other text, several names in one string, newlines.
func circuitString(rng *rand.Rand) string {
	num := func() string {
		return []string{"0", "1", "3", "17", "52", "2001", "007", "9", "48", ""}[rng.Intn(10)]
	}
	good := []func() string{
		func() string { return []string{"et", "xe", "ge"}[rng.Intn(3)] + "-" + num() + "/" + num() + "/" + num() + ":" + num() + "." + num() },
		func() string { return []string{"et", "xe", "ge"}[rng.Intn(3)] + "-" + num() + "/" + num() + "/" + num() + "." + num() },
		func() string { return []string{"et", "xe", "ge"}[rng.Intn(3)] + "-" + num() + "/" + num() + "/" + num() },
		func() string { return "et-" + num() + "/" + num() + "/" + num() + num() + num() },
		func() string { return "Ethernet" + num() + "/" + num() + "/" + num() },
		func() string { return "Ethernet" + num() + ":Vlan" + num() },
		func() string { return "Ethernet" + num() + ":" + num() },
		func() string { return "Ethernet" + num() + "/" + num() },
		func() string { return "Gi" + num() + "/" + num() + ":" + num() },
		func() string { return "ae" + num() + "." + num() },
		func() string { return "ae" + num() + num() + num() },
		func() string { return "Port-Channel" + num() },
		func() string { return "sw1.OSC-" + num() + "-" + num() },
		func() string { return "sw1.OSC-" + num() + "-" + num() + "-" + num() },
	}
	junk := []string{"", "", "\x01\x0c", " ", "x", "\n", "Ethernet", ":", "/", ".", "-", "9", "vlan", "et-", ".OSC"}
	s := ""
	if rng.Intn(3) == 0 {
		s = junk[rng.Intn(len(junk))]
	}
	for k := pick(rng, 1, 1, 1, 2); k > 0; k-- {
		s += good[rng.Intn(len(good))]()
		if rng.Intn(3) == 0 {
			s += junk[rng.Intn(len(junk))]
		}
	}
	if rng.Intn(10) == 0 { // a random edit
		b := []byte(s)
		if len(b) > 0 {
			b[rng.Intn(len(b))] = "0/:.-\nE"[rng.Intn(7)]
		}
		s = string(b)
	}
	return s
}

func genZtpCircuit(o *Out, rng *rand.Rand, tier string) {
	n := 1500
	if tier == "thorough" {
		n = 20000
	}
	safeRec := func(rec map[string]any, f func()) {
		defer func() {
			if r := recover(); r != nil {
				rec["panic"] = fmt.Sprint(r)
			}
		}()
		f()
	}
	put := func(rec map[string]any, slot, mod, port, subport, vlan string) {
		rec["st"], rec["slot"], rec["mod"], rec["port"], rec["subport"], rec["vlan"] = "ok",
			B([]byte(slot)), B([]byte(mod)), B([]byte(port)), B([]byte(subport)), B([]byte(vlan))
	}
	for i := 0; i < n; i++ {
		// ---- DHCPv4: relay agent information with (usually) a circuit-id
		p := randPacket4(rng, 0, nil)
		p.Options = dhcpv4.Options{}
		name := circuitString(rng)
		switch rng.Intn(10) {
		case 0: // no option 82
		case 1: // malformed sub-options
			p.Options[82] = append([]byte{1, byte(len(name) + 3)}, name...)
		case 2: // remote-id only
			p.Options[82] = append([]byte{2, byte(len(name))}, name...)
		case 3: // circuit-id after another sub-option, and a second circuit-id (instances concatenate)
			raw := append([]byte{2, 2, 'r', 'r', 1, byte(len(name))}, name...)
			p.Options[82] = append(raw, 1, 1, '7')
		default:
			p.Options[82] = append([]byte{1, byte(len(name))}, name...)
		}
		q, err := dhcpv4.FromBytes(p.ToBytes())
		if err != nil {
			continue
		}
		rec := map[string]any{"op": "Circ4", "pkt": proj4(q), "st": "err"}
		safeRec(rec, func() {
			c, err := ztpv4.ParseCircuitID(q)
			if err == nil && c != nil {
				put(rec, c.Slot, c.Module, c.Port, c.SubPort, c.Vlan)
			}
		})
		o.Emit(rec, "circuit-id-v4", append([]byte("c4"), q.ToBytes()...), len(q.Options) > 0)

		// ---- DHCPv6: remote-id / interface-id of the innermost relay
		m := &dhcpv6.Message{MessageType: dhcpv6.MessageTypeSolicit}
		copy(m.TransactionID[:], randBytes(rng, 3))
		var d dhcpv6.DHCPv6 = m
		depth := rng.Intn(4)
		for k := 0; k < depth; k++ {
			r, _ := dhcpv6.EncapsulateRelay(d, dhcpv6.MessageTypeRelayForward, rip6(rng), rip6(rng))
			if rng.Intn(3) != 0 {
				r.AddOption(&dhcpv6.OptRemoteID{EnterpriseNumber: 30065, RemoteID: []byte(circuitString(rng))})
			}
			if rng.Intn(2) == 0 {
				r.AddOption(dhcpv6.OptInterfaceID([]byte(circuitString(rng))))
			}
			if rng.Intn(10) == 0 {
				r.Options.Del(dhcpv6.OptionRelayMsg)
			}
			d = r
		}
		d2, err := dhcpv6.FromBytes(d.ToBytes())
		if err != nil {
			continue
		}
		rec = map[string]any{"op": "Circ6", "msg": proj6(d2), "st": "err"}
		safeRec(rec, func() {
			c, err := ztpv6.ParseRemoteID(d2)
			if err == nil && c != nil {
				put(rec, c.Slot, c.Module, c.Port, c.SubPort, c.Vlan)
			}
		})
		o.Emit(rec, "remote-id-v6", append([]byte("c6"), d2.ToBytes()...), depth > 0)
	}
}

func init() { gens["ztpc"] = genZtpCircuit }
