package main

import (
	"fmt"
	"math/rand"

	"github.com/insomniacslk/dhcp/dhcpv4"
	"github.com/insomniacslk/dhcp/dhcpv4/ztpv4"
	"github.com/insomniacslk/dhcp/dhcpv6"
	"github.com/insomniacslk/dhcp/dhcpv6/ztpv6"
	"github.com/insomniacslk/dhcp/iana"
)

// Extended conformance: the vendor-data case tables of ztpv4 / ztpv6 against spec/Ztp.tla.

// vendor strings from the grammar of the case tables: a known or near-miss prefix, pieces, separators
func ztpString(rng *rand.Rand, v6 bool) string {
	prefixes := []string{"Arista", "ZPESystems", "Juniper", "1271", "FPR4100", "FPR9300", "Cisco", "NVOS", "12710", "arista", "Junipe", ""}
	seps := []string{";", ":", "-", "##", "#", ""}
	piece := func() string {
		return []string{"", "a", "DCS-7050S-64", "01.23", "JPE12221671", "x:y", "p;q", "qfx10002-361", "SN", "##"}[rng.Intn(10)]
	}
	s := prefixes[rng.Intn(len(prefixes))]
	sep := seps[rng.Intn(len(seps))]
	if rng.Intn(10) < 6 { // a prefix with the separator its format uses
		pairs := [][2]string{{"Arista", ";"}, {"ZPESystems", ":"}, {"Juniper", "-"}, {"Juniper", ":"}, {"1271", "-"}, {"Cisco", ";"}, {"NVOS", "##"}, {"FPR4100", ""}, {"FPR9300", ""}}
		pr := pairs[rng.Intn(len(pairs))]
		s, sep = pr[0], pr[1]
		if sep == "" && rng.Intn(4) != 0 {
			return s
		}
	}
	for k := rng.Intn(6); k > 0; k-- {
		if rng.Intn(8) == 0 {
			s += seps[rng.Intn(len(seps))]
		} else {
			s += sep
		}
		s += piece()
	}
	return s
}

func ztpOut(rec map[string]any, name, model, serial string, err error, nilData bool) {
	if err != nil || nilData {
		rec["st"] = "err"
		return
	}
	rec["st"], rec["vendor"], rec["model"], rec["serial"] = "ok", B([]byte(name)), B([]byte(model)), B([]byte(serial))
}

func genZtp(o *Out, rng *rand.Rand, tier string) {
	n := 1500
	if tier == "thorough" {
		n = 20000
	}
	safeRec := func(rec map[string]any, f func()) {
		defer func() {
			if r := recover(); r != nil {
				rec["panic"] = fmt.Sprint(r)
			}
		}()
		f()
	}
	for i := 0; i < n; i++ {
		// ---- DHCPv4
		p := randPacket4(rng, 0, nil)
		p.Options = dhcpv4.Options{}
		if rng.Intn(8) != 0 {
			p.Options[60] = []byte(ztpString(rng, false))
		}
		if rng.Intn(2) == 0 {
			p.Options[12] = []byte([]string{"host1", "", "h\x00\x00", "\x00"}[rng.Intn(4)])
		}
		if rng.Intn(2) == 0 {
			p.Options[61] = []byte([]string{"SER123", "", "\x01abc"}[rng.Intn(3)])
		}
		if rng.Intn(2) == 0 {
			fields := []string{"SN:0;PID:R-IOSXRV9000-CC", "PID:x;SN:1;SN:2", "SN:0;PID", "SN:a:b", "", "FOO:1", "SN:5"}
			ids := dhcpv4.VIVCIdentifiers{}
			for k := rng.Intn(3); k >= 0; k-- {
				ids = append(ids, dhcpv4.VIVCIdentifier{EntID: iana.EnterpriseID(pick(rng, 9, 9, 1271, 0)), Data: []byte(fields[rng.Intn(len(fields))])})
			}
			raw := ids.ToBytes()
			if rng.Intn(6) == 0 && len(raw) > 0 {
				raw = raw[:rng.Intn(len(raw))] // malformed option
			}
			p.Options[124] = raw
		}
		q, err := dhcpv4.FromBytes(p.ToBytes())
		if err != nil {
			continue
		}
		rec := map[string]any{"op": "Ztp4", "pkt": proj4(q)}
		safeRec(rec, func() {
			vd, err := ztpv4.ParseVendorData(q)
			if vd == nil {
				ztpOut(rec, "", "", "", err, true)
			} else {
				ztpOut(rec, vd.VendorName, vd.Model, vd.Serial, err, false)
			}
		})
		o.Emit(rec, "ztp-v4", append([]byte("z4"), q.ToBytes()...), len(q.Options) > 0)

		// ---- DHCPv6: vendor class / vendor options on a message, optionally inside relays
		m := &dhcpv6.Message{MessageType: dhcpv6.MessageTypeSolicit}
		copy(m.TransactionID[:], randBytes(rng, 3))
		if rng.Intn(2) == 0 {
			var d dhcpv6.DUID = &dhcpv6.DUIDEN{EnterpriseNumber: 1271, EnterpriseIdentifier: []byte("CIENASER")}
			if rng.Intn(3) == 0 {
				d = &dhcpv6.DUIDLL{HWType: iana.HWTypeEthernet, LinkLayerAddr: randBytes(rng, 6)}
			}
			m.AddOption(dhcpv6.OptClientID(d))
		}
		addVendor := func(x interface{ AddOption(dhcpv6.Option) }) {
			if rng.Intn(4) != 0 {
				vo := &dhcpv6.OptVendorOpts{EnterpriseNumber: uint32(pick(rng, 33049, 30065, 9, 1271))}
				for k := rng.Intn(4); k > 0; k-- {
					code := dhcpv6.OptionCode(pick(rng, 1, 3, 1, 3, 2, 6))
					data := []byte(ztpString(rng, true))
					if rng.Intn(4) == 0 {
						data = []byte([]string{"MSN2100", "MT1234X56ABC", ""}[rng.Intn(3)])
					}
					vo.VendorOpts = append(vo.VendorOpts, &dhcpv6.OptionGeneric{OptionCode: code, OptionData: data})
				}
				x.AddOption(vo)
			}
			if rng.Intn(2) == 0 {
				vc := &dhcpv6.OptVendorClass{EnterpriseNumber: uint32(pick(rng, 30065, 9, 1271))}
				for k := 1 + rng.Intn(3); k > 0; k-- {
					vc.Data = append(vc.Data, []byte(ztpString(rng, true)))
				}
				x.AddOption(vc)
			}
		}
		var d dhcpv6.DHCPv6 = m
		addVendor(m)
		for k := rng.Intn(3); k > 0; k-- {
			r, _ := dhcpv6.EncapsulateRelay(d, dhcpv6.MessageTypeRelayForward, rip6(rng), rip6(rng))
			if rng.Intn(2) == 0 {
				addVendor(r)
			}
			if rng.Intn(8) == 0 {
				r.Options.Del(dhcpv6.OptionRelayMsg)
			}
			d = r
		}
		// through the wire, as a server would see it
		d2, err := dhcpv6.FromBytes(d.ToBytes())
		if err != nil {
			continue
		}
		rec = map[string]any{"op": "Ztp6", "msg": proj6(d2)}
		safeRec(rec, func() {
			vd, err := ztpv6.ParseVendorData(d2)
			if vd == nil {
				ztpOut(rec, "", "", "", err, true)
			} else {
				ztpOut(rec, vd.VendorName, vd.Model, vd.Serial, err, false)
			}
		})
		o.Emit(rec, "ztp-v6", append([]byte("z6"), d2.ToBytes()...), true)
	}
}

func init() { gens["ztp"] = genZtp }
