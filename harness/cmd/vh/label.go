package main

import (
	"fmt"
	"math/rand"
	"strings"

	"github.com/insomniacslk/dhcp/dhcpv4"
	"github.com/insomniacslk/dhcp/dhcpv6"
	"github.com/insomniacslk/dhcp/rfc1035label"
)

func init() { gens["c19"] = genC19 }

func namesJSON(ns []string) []any {
	out := make([]any, 0, len(ns))
	for _, n := range ns {
		out = append(out, B([]byte(n)))
	}
	return out
}

func labelDec(in []byte) (rec map[string]any, l *rfc1035label.Labels) {
	rec = map[string]any{"ok": false, "names": []any{}}
	defer func() {
		if r := recover(); r != nil {
			rec = map[string]any{"panic": fmt.Sprint(r), "ok": false, "names": []any{}}
			l = nil
		}
	}()
	buf := append([]byte(nil), in...)
	l, err := rfc1035label.FromBytes(buf)
	if err != nil {
		return rec, nil
	}
	reuse(buf) // the caller's buffer is used again: names and re-encoding are read after that
	return map[string]any{"ok": true, "names": namesJSON(l.Labels), "reenc": B(l.ToBytes())}, l
}

func randLabel(rng *rand.Rand, maxLen int) string {
	n := 1 + rng.Intn(maxLen)
	b := make([]byte, n)
	for i := range b {
		c := byte(rng.Intn(256))
		if c == '.' {
			c = '-'
		}
		if rng.Intn(3) > 0 {
			c = "abcxyz019-_"[rng.Intn(11)]
		}
		b[i] = c
	}
	return string(b)
}

func randName(rng *rand.Rand) string {
	k := 1 + rng.Intn(8)
	if rng.Intn(4) == 0 {
		k = 1 + rng.Intn(2) // bare host names, two-label names
	}
	parts := make([]string, k)
	for i := range parts {
		parts[i] = randLabel(rng, pick(rng, 1, 3, 8, 62, 63))
	}
	return strings.Join(parts, ".")
}

func randNames(rng *rand.Rand) []string {
	if rng.Intn(5) == 0 {
		// names that share suffixes, the way search lists do (a compressing encoder would point into earlier names,
		// and into names that end in a pointer themselves): a suffix chain, a repeated name, a sibling
		base := randLabel(rng, pick(rng, 3, 7)) + "." + randLabel(rng, pick(rng, 2, 3))
		a := randLabel(rng, 3) + "." + base
		ns := []string{base, a, randLabel(rng, 3) + "." + a, base, randLabel(rng, 4) + "." + base}
		return ns[:2+rng.Intn(4)]
	}
	ns := make([]string, rng.Intn(9))
	for i := range ns {
		ns[i] = randName(rng)
		if rng.Intn(12) == 0 {
			ns[i] = "" // the root: a name of no labels (one zero octet on the wire)
		}
	}
	return ns
}

// a possibly compressed, possibly broken wire form
func randLabelWire(rng *rand.Rand) []byte {
	var b []byte
	var starts []int
	for k := rng.Intn(6); k >= 0; k-- {
		starts = append(starts, len(b))
		for j := rng.Intn(4); j >= 0; j-- {
			l := randLabel(rng, pick(rng, 1, 2, 5, 63))
			b = append(b, byte(len(l)))
			b = append(b, l...)
		}
		switch rng.Intn(5) {
		case 0, 1:
			b = append(b, 0)
		case 2:
			t := starts[rng.Intn(len(starts))]
			b = append(b, 0xc0|byte(t>>8), byte(t))
		case 3:
			b = append(b, 0xc0|byte(rng.Intn(2)), byte(rng.Intn(256))) // arbitrary target
		default:
			if k == 0 {
				break // partial name at the end
			}
			b = append(b, 0)
		}
	}
	if rng.Intn(4) == 0 && len(b) > 0 {
		b[rng.Intn(len(b))] = byte(pick(rng, 0, 1, 63, 64, 191, 192, 255, rng.Intn(256)))
	}
	if rng.Intn(6) == 0 && len(b) > 0 {
		b = b[:rng.Intn(len(b))]
	}
	if len(b) > 512 {
		b = b[:512]
	}
	return b
}

func genC19(o *Out, rng *rand.Rand, tier string) {
	maxLen, n := 6, 1500
	if tier == "thorough" {
		maxLen, n = 7, 25000
	}
	var accepted [][]byte
	emitDec := func(in []byte, cls string) {
		rec, l := labelDec(in)
		rec["op"], rec["in"] = "LDec", B(in)
		o.Emit(rec, cls, in, len(in) > 0)
		if l != nil && len(in) > 6 && len(accepted) < 3000 {
			accepted = append(accepted, append([]byte(nil), in...))
		}
	}
	defer func() {
		concurrentDecodes(accepted, func(in []byte) any { rec, _ := labelDec(in); return rec }, func(in []byte, out any) {
			rec := out.(map[string]any)
			rec["op"], rec["in"] = "LDec", B(in)
			o.Emit(rec, "concurrent-decoders", append([]byte("cc"), in...), true)
		})
	}()
	alpha := []byte{0, 1, 2, 3, 'a', 0xC0, 0x40}
	var rec func(cur []byte)
	rec = func(cur []byte) {
		emitDec(cur, "exhaustive")
		if len(cur) == maxLen {
			return
		}
		for _, a := range alpha {
			rec(append(cur, a))
		}
	}
	rec(nil)
	// a second small scope whose alphabet has the byte '.' (legal inside a label on the wire)
	alpha = []byte{0, 1, 2, '.', 'a', 0xC0}
	maxLen--
	rec(nil)
	maxLen++
	for i := 0; i < n; i++ {
		w := randLabelWire(rng)
		if i%5 == 0 && len(w) > 2 { // '.' bytes inside labels
			for k := 1 + rng.Intn(2); k > 0; k-- {
				w[1+rng.Intn(len(w)-1)] = '.'
			}
		}
		emitDec(w, "random-wire")
	}
	// compression pointers over the whole 14-bit offset range (two-byte pointer arithmetic): targets beyond 255, 1023, 4095
	for i := 0; i < n/10; i++ {
		var b []byte
		var starts []int
		size := []int{260, 260, 1030, 1030, 4100, 8200}[i%6]
		if tier == "thorough" && i%12 == 11 {
			size = 16100
		}
		lab := 20
		if size > 1000 {
			lab = 63
		}
		for len(b) < size+rng.Intn(200) {
			starts = append(starts, len(b))
			for j := rng.Intn(3); j >= 0; j-- {
				l := randLabel(rng, lab)
				b = append(b, byte(len(l)))
				b = append(b, l...)
			}
			b = append(b, 0)
		}
		for k := 0; k < 3; k++ {
			l := randLabel(rng, 5)
			b = append(b, byte(len(l)))
			b = append(b, l...)
			t := starts[len(starts)-1-rng.Intn(2)]
			b = append(b, 0xc0|byte(t>>8), byte(t))
		}
		emitDec(b, "far-pointer")
	}
	// lists in which many names end in a pointer (a search list of one company's subdomains): 1 ... 300 pointers in one value
	for _, k := range []int{1, 2, 5, 9, 10, 11, 12, 16, 17, 18, 33, 35, 64, 65, 100, 128, 129, 300, 301} {
		for variant := 0; variant < 3; variant++ {
			base := []byte{7, 'e', 'x', 'a', 'm', 'p', 'l', 'e', 3, 'c', 'o', 'm', 0}
			if k%2 == 1 { // a target of many short labels
				base = []byte{1, 'a', 1, 'b', 1, 'c', 1, 'd', 1, 'e', 1, 'f', 2, 'i', 'o', 0}
			}
			b := append([]byte(nil), base...)
			prev := 0
			for j := 0; j < k && len(b) < 16000; j++ {
				at := len(b)
				l := randLabel(rng, 4)
				switch variant {
				case 0: // label + pointer to the first name
					b = append(append(append(b, byte(len(l))), l...), 0xc0, 0)
				case 1: // label + pointer to the previous name (which ends in a pointer itself)
					b = append(append(append(b, byte(len(l))), l...), 0xc0|byte(prev>>8), byte(prev))
				default: // a bare pointer: the first name once more
					b = append(b, 0xc0, 0)
				}
				prev = at
			}
			emitDec(b, "many-pointers")
		}
	}
	// encode -> decode
	for i := 0; i < n; i++ {
		ns := randNames(rng)
		l := &rfc1035label.Labels{Labels: ns}
		w := l.ToBytes()
		out, _ := labelDec(w)
		o.Emit(map[string]any{"op": "LRT", "names": namesJSON(ns), "wire": B(w), "out": out}, "roundtrip", w, len(ns) > 0)
	}
	// sets made with the package's constructor and filled name by name, several of them alive at the same time: each
	// encodes its own names
	for i := 0; i < n/4; i++ {
		k := 2 + rng.Intn(3)
		sets := make([]*rfc1035label.Labels, k)
		want := make([][]string, k)
		for j := range sets {
			sets[j] = rfc1035label.NewLabels()
		}
		for round := 0; round < 4; round++ { // filled in turns
			for j := range sets {
				if rng.Intn(3) > 0 {
					nm := randName(rng)
					sets[j].Labels = append(sets[j].Labels, nm)
					want[j] = append(want[j], nm)
				}
			}
		}
		for j := range sets {
			w := sets[j].ToBytes()
			out, _ := labelDec(w)
			ns := want[j]
			if ns == nil {
				ns = []string{}
			}
			o.Emit(map[string]any{"op": "LRT", "names": namesJSON(ns), "wire": B(w), "out": out}, "roundtrip-constructed-sets", append([]byte{byte(j)}, w...), len(ns) > 0)
		}
	}
	// encode -> decode through every option that carries names, built with the option's own constructor (an option may
	// bring an encoder of its own): the wire form is judged by the specification's decoder, the names must come back
	for i := 0; i < n/2; i++ {
		ns := randNames(rng)
		if len(ns) == 0 {
			continue
		}
		via := []string{"v4ds", "v6dsl", "v6fqdn", "v6ntp", "v4mod"}[i%5]
		if via == "v6fqdn" || via == "v6ntp" {
			ns = ns[:1]
		}
		rec := map[string]any{"op": "LRTV", "via": via, "names": namesJSON(ns), "wire": []int{}, "out": map[string]any{"ok": false, "names": []any{}}}
		func() {
			defer func() {
				if r := recover(); r != nil {
					rec["out"] = map[string]any{"panic": fmt.Sprint(r), "ok": false, "names": []any{}}
				}
			}()
			l := &rfc1035label.Labels{Labels: append([]string(nil), ns...)}
			out := map[string]any{"ok": false, "names": []any{}}
			switch via {
			case "v4ds", "v4mod":
				var p *dhcpv4.DHCPv4
				if via == "v4ds" {
					p, _ = dhcpv4.New(dhcpv4.WithOption(dhcpv4.OptDomainSearch(l)))
				} else {
					p, _ = dhcpv4.New(dhcpv4.WithDomainSearchList(ns...))
				}
				q, err := dhcpv4.FromBytes(p.ToBytes())
				if err != nil {
					break
				}
				rec["wire"] = B(q.Options.Get(dhcpv4.OptionDNSDomainSearchList))
				if g := q.DomainSearch(); g != nil {
					out = map[string]any{"ok": true, "names": namesJSON(g.Labels)}
				}
			case "v6dsl":
				w := dhcpv6.OptDomainSearchList(l).ToBytes()
				rec["wire"] = B(w)
				if opt, err := dhcpv6.ParseOption(dhcpv6.OptionDomainSearchList, w); err == nil {
					m := &dhcpv6.Message{}
					m.AddOption(opt)
					if g := m.Options.DomainSearchList(); g != nil {
						out = map[string]any{"ok": true, "names": namesJSON(g.Labels)}
					}
				}
			case "v6fqdn":
				w := (&dhcpv6.OptFQDN{Flags: 1, DomainName: l}).ToBytes()
				rec["wire"] = B(w[1:])
				if opt, err := dhcpv6.ParseOption(dhcpv6.OptionFQDN, w); err == nil {
					out = map[string]any{"ok": true, "names": namesJSON(opt.(*dhcpv6.OptFQDN).DomainName.Labels)}
				}
			default:
				so := dhcpv6.NTPSuboptionSrvFQDN{Labels: *l}
				w := so.ToBytes()
				rec["wire"] = B(w)
				var back dhcpv6.NTPSuboptionSrvFQDN
				if err := back.FromBytes(w); err == nil {
					out = map[string]any{"ok": true, "names": namesJSON(back.Labels.Labels)}
				}
			}
			rec["out"] = out
		}()
		o.Emit(rec, "roundtrip-via-"+via, append([]byte(via), []byte(fmt.Sprint(ns))...), true)
	}
	// the Labels object: parse, then every single edit, encodings in between
	for i := 0; i < n; i++ {
		var in []byte
		if i%3 == 0 {
			in = (&rfc1035label.Labels{Labels: randNames(rng)}).ToBytes()
		} else {
			in = randLabelWire(rng)
		}
		out, l := labelDec(in)
		if l == nil {
			continue
		}
		steps := []any{}
		encs := []any{B(l.ToBytes())}
		for k := 1 + rng.Intn(4); k > 0; k-- {
			var st map[string]any
			switch op := rng.Intn(4); {
			case op == 0 && len(l.Labels) > 0:
				j := rng.Intn(len(l.Labels))
				nm := randName(rng)
				switch rng.Intn(8) {
				case 0, 1:
					nm = l.Labels[j] // "edit" to the same value
				case 2: // a change of letter case only: a different name list all the same
					old := l.Labels[j]
					nm = strings.ToUpper(old)
					if nm == old {
						nm = strings.ToLower(old)
					}
				case 3: // one byte changed, same length
					if old := []byte(l.Labels[j]); len(old) > 0 {
						k := rng.Intn(len(old))
						if old[k] != '.' {
							old[k] ^= 1
							if old[k] == '.' || old[k] == 0 {
								old[k] = 'q'
							}
						}
						nm = string(old)
					}
				case 4: // another name of the list
					nm = l.Labels[rng.Intn(len(l.Labels))]
				}
				l.Labels[j] = nm // in place
				st = map[string]any{"k": "set", "i": j + 1, "name": B([]byte(nm))}
			case op == 1 && len(l.Labels) > 0:
				j := rng.Intn(len(l.Labels))
				l.Labels = append(l.Labels[:j:j], l.Labels[j+1:]...)
				st = map[string]any{"k": "del", "i": j + 1, "name": []int{}}
			case op == 2:
				nm := randName(rng)
				l.Labels = append(l.Labels, nm)
				st = map[string]any{"k": "app", "i": 0, "name": B([]byte(nm))}
			case op == 3 && rng.Intn(3) == 0 && len(l.Labels) > 1:
				// two names change places: the same set of names in another order
				a, b := rng.Intn(len(l.Labels)), rng.Intn(len(l.Labels))
				l.Labels[a], l.Labels[b] = l.Labels[b], l.Labels[a]
				st = map[string]any{"k": "swap", "i": a + 1, "j": b + 1, "name": []int{}}
			case op == 3 && rng.Intn(3) == 0:
				// the same object decodes again: the bytes it was built from, or another name list - what it held is gone
				again := in
				if rng.Intn(2) == 0 {
					again = (&rfc1035label.Labels{Labels: randNames(rng)}).ToBytes()
				}
				if err := l.FromBytes(append([]byte(nil), again...)); err == nil {
					st = map[string]any{"k": "reparse", "i": 0, "name": B(again), "got": namesJSON(l.Labels)}
				} else {
					st = map[string]any{"k": "badparse", "i": 0, "name": B(again)}
				}
			case op == 3 && rng.Intn(2) == 0:
				// a parse that fails leaves the object as it was
				bad := [][]byte{{63}, {5, 'a'}, {0xc0}, {2, 'x', 'y', 0xc0, 3, 0xc0, 3}}[rng.Intn(4)]
				if err := l.FromBytes(append([]byte(nil), bad...)); err == nil {
					st = map[string]any{"k": "reparsed", "i": 0, "name": B(bad)} // (does not happen: these strings are not decodable)
				} else {
					st = map[string]any{"k": "badparse", "i": 0, "name": B(bad)}
				}
			default:
				st = map[string]any{"k": "enc", "i": 0, "name": []int{}}
			}
			steps = append(steps, st)
			encs = append(encs, B(l.ToBytes()))
		}
		o.Emit(map[string]any{"op": "LObj", "in": B(in), "out": out, "steps": steps, "encs": encs}, "object-edits", append(in, byte(len(steps))), true)
	}
	// the same decoder reached through the options that carry names
	texts := []string{"corp.example.com", "example.com", "a.b c.d", "example.com,foo.org", "localhost", "EXAMPLE.ORG.", "lab-1.example.net eng.example.net",
		"x", "-", "a,b", " ", "corp.example.com\x00"}
	for i := 0; i < n/2+8*len(texts); i++ {
		in := randLabelWire(rng)
		if i%4 == 0 {
			in = (&rfc1035label.Labels{Labels: randNames(rng)}).ToBytes()
		}
		if i >= n/2 {
			// names as text where the wire format belongs (a mis-configured server): not what RFC 1035 3.1 describes
			in = []byte(texts[(i-n/2)/8])
		}
		via := []string{"v4ds", "v6dsl", "v6fqdn", "v6ntp"}[i%4]
		if i >= n/2 {
			via = []string{"v4ds", "v6dsl", "v6fqdn", "v6ntp"}[(i-n/2)%4]
		}
		if via == "v4ds" && (len(in) == 0 || len(in) > 1000) {
			continue // an empty option value reads as "option absent" through the DHCPv4 accessor (C17), not a label question
		}
		rec := map[string]any{"op": "LVia", "via": via, "in": B(in), "ok": false, "names": []any{}}
		func() {
			defer func() {
				if r := recover(); r != nil {
					rec["panic"] = fmt.Sprint(r)
				}
			}()
			switch via {
			case "v4ds":
				p, _ := dhcpv4.New(dhcpv4.WithGeneric(dhcpv4.OptionDNSDomainSearchList, in))
				q, err := dhcpv4.FromBytes(p.ToBytes())
				if err != nil {
					return
				}
				if l := q.DomainSearch(); l != nil {
					rec["ok"], rec["names"] = true, namesJSON(l.Labels)
					rec["reenc"] = B(dhcpv4.OptDomainSearch(l).Value.ToBytes()) // the option put into another packet as it was read
				}
			case "v6dsl":
				opt, err := dhcpv6.ParseOption(dhcpv6.OptionDomainSearchList, in)
				if err == nil {
					m := &dhcpv6.Message{}
					m.AddOption(opt)
					if l := m.Options.DomainSearchList(); l != nil {
						rec["ok"], rec["names"] = true, namesJSON(l.Labels)
						rec["reenc"] = B(opt.ToBytes())
					}
				}
			case "v6fqdn":
				opt, err := dhcpv6.ParseOption(dhcpv6.OptionFQDN, append([]byte{1}, in...))
				if err == nil {
					rec["ok"], rec["names"] = true, namesJSON(opt.(*dhcpv6.OptFQDN).DomainName.Labels)
					if w := opt.ToBytes(); len(w) > 0 && w[0] == 1 {
						rec["reenc"] = B(w[1:])
					} else {
						rec["reenc"] = B(w)
					}
				}
			case "v6ntp":
				var so dhcpv6.NTPSuboptionSrvFQDN
				if err := so.FromBytes(in); err == nil {
					rec["ok"], rec["names"] = true, namesJSON(so.Labels.Labels)
					rec["reenc"] = B(so.ToBytes())
				}
			}
		}()
		o.Emit(rec, "via-"+via, append([]byte(via), in...), true)
	}
}
