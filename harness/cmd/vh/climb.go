package main

import (
	"encoding/json"
	"fmt"
	"math/rand"
	"os"
	"runtime"
	"sort"
	"time"

	"github.com/insomniacslk/dhcp/dhcpv4"
	"github.com/insomniacslk/dhcp/dhcpv6"
)

// C09, adversarial part: hill-climbing mutation that maximises bytes allocated by decode + re-encode relative
// to the bound of spec/Cost.tla. `vh climb <seed> <evals> <out.json>` runs one island population per corpus
// kind in this process and writes its best candidates; the caller measures those again in a child process
// of their own and lets TLC judge the measurements.

// ---- nesting depth of an input as the layout tables read it (tolerant: lengths are clamped)
func depthOpts6(b []byte, lvl int, fuel *int) int {
	d := lvl
	for len(b) >= 4 && *fuel > 0 {
		*fuel--
		code := int(b[0])<<8 | int(b[1])
		l := int(b[2])<<8 | int(b[3])
		if 4+l > len(b) {
			l = len(b) - 4
		}
		p := b[4 : 4+l]
		skip := -1
		switch code {
		case 3, 25:
			skip = 12
		case 4, 17:
			skip = 4
		case 5:
			skip = 24
		case 26:
			skip = 25
		case 56, 97, 94, 95:
			skip = 0
		case 9:
			if x := depthMsg6(p, lvl+1, fuel); x > d {
				d = x
			}
		}
		if skip >= 0 && len(p) >= skip {
			if x := depthOpts6(p[skip:], lvl+1, fuel); x > d {
				d = x
			}
		}
		b = b[4+l:]
	}
	return d
}

func depthMsg6(b []byte, lvl int, fuel *int) int {
	if len(b) == 0 {
		return lvl
	}
	h := 4
	if b[0] == 12 || b[0] == 13 {
		h = 34
	}
	if len(b) < h {
		return lvl
	}
	return depthOpts6(b[h:], lvl, fuel)
}

func apparentDepth(entry string, b []byte) int {
	if entry != "v6" {
		return 1
	}
	fuel := 1 << 20
	return depthMsg6(b, 0, &fuel) + 1
}

func boundBytes(n, d int) int { return 256*n + 8*n*d + 64*1024 }

// evalAlloc: bytes allocated by decode (+ re-encode when accepted); timedOut when it does not finish in 5 s
func evalAlloc(entry string, in []byte) (alloc int, timedOut bool) {
	done := make(chan int, 1)
	go func() {
		defer func() {
			if recover() != nil {
				done <- 0
			}
		}()
		buf := append([]byte(nil), in...)
		var m0, m1 runtime.MemStats
		runtime.ReadMemStats(&m0)
		switch entry {
		case "v6":
			if d, err := dhcpv6.FromBytes(buf); err == nil {
				_ = d.ToBytes()
			}
		case "v4":
			if p, err := dhcpv4.FromBytes(buf); err == nil {
				_ = p.ToBytes()
			}
		}
		runtime.ReadMemStats(&m1)
		done <- int(m1.TotalAlloc - m0.TotalAlloc)
	}()
	select {
	case a := <-done:
		return a, false
	case <-time.After(5 * time.Second):
		return 1 << 40, true
	}
}

type climbCand struct {
	Entry  string  `json:"entry"`
	Island string  `json:"island"`
	In     []byte  `json:"in"`
	Alloc  int     `json:"alloc"`
	Depth  int     `json:"depth"`
	Score  float64 `json:"score"` // alloc / bound
	Killed bool    `json:"killed"`
}

const climbMaxLen = 2048

func mutateClimb(rng *rand.Rand, m []byte, corpus [][]byte) []byte {
	m = append([]byte(nil), m...)
	for k := 1 + rng.Intn(3); k > 0; k-- {
		if len(m) == 0 {
			m = append(m, byte(rng.Intn(256)))
			continue
		}
		switch rng.Intn(9) {
		case 0:
			m[rng.Intn(len(m))] = byte(pick(rng, 0, 1, 0xff, 0xfe, 0x7f, 0x80, rng.Intn(256)))
		case 1: // a 16-bit field: lengths and counts live there
			if len(m) >= 2 {
				i := rng.Intn(len(m) - 1)
				v := pick(rng, 0xffff, 0xfffe, 0, 1, len(m)-i-2, len(m)-i-1, len(m)-i-3, rng.Intn(65536))
				m[i], m[i+1] = byte(v>>8), byte(v)
			}
		case 2: // duplicate a chunk
			i := rng.Intn(len(m))
			n := 1 + rng.Intn(64)
			if i+n > len(m) {
				n = len(m) - i
			}
			j := rng.Intn(len(m) + 1)
			m = append(m[:j:j], append(append([]byte(nil), m[i:i+n]...), m[j:]...)...)
		case 3: // delete a chunk
			i := rng.Intn(len(m))
			n := 1 + rng.Intn(16)
			if i+n > len(m) {
				n = len(m) - i
			}
			m = append(m[:i:i], m[i+n:]...)
		case 4: // splice a piece of another corpus member in
			o := corpus[rng.Intn(len(corpus))]
			if len(o) > 0 {
				i := rng.Intn(len(o))
				n := 1 + rng.Intn(64)
				if i+n > len(o) {
					n = len(o) - i
				}
				j := rng.Intn(len(m) + 1)
				m = append(m[:j:j], append(append([]byte(nil), o[i:i+n]...), m[j:]...)...)
			}
		case 5: // wrap the tail in an option header of a container / list type
			j := rng.Intn(len(m) + 1)
			rest := len(m) - j
			code := pick(rng, 3, 4, 5, 25, 26, 9, 17, 15, 16, 56, 24, 6, 23, rng.Intn(150))
			h := []byte{byte(code >> 8), byte(code), byte(rest >> 8), byte(rest)}
			m = append(m[:j:j], append(h, m[j:]...)...)
		case 6: // repeat the last k bytes up to the size cap
			k := 1 + rng.Intn(8)
			if k > len(m) {
				k = len(m)
			}
			tail := append([]byte(nil), m[len(m)-k:]...)
			for r := rng.Intn(200); r > 0 && len(m)+k <= climbMaxLen; r-- {
				m = append(m, tail...)
			}
		case 7: // fix up the enclosing lengths so that the result is a tiling again: set a length to "all that follows"
			if len(m) >= 4 {
				i := rng.Intn(len(m) - 3)
				rest := len(m) - i - 4
				m[i+2], m[i+3] = byte(rest>>8), byte(rest)
			}
		default:
			m = append(m, randBytes(rng, 1+rng.Intn(8))...)
		}
	}
	if len(m) > climbMaxLen {
		m = m[:climbMaxLen]
	}
	return m
}

type island struct {
	name, entry string
	corpus      [][]byte
	pop         []climbCand
}

func (is *island) consider(c climbCand, keep int) {
	for _, p := range is.pop {
		if string(p.In) == string(c.In) {
			return
		}
	}
	is.pop = append(is.pop, c)
	sort.SliceStable(is.pop, func(i, j int) bool { return is.pop[i].Score > is.pop[j].Score })
	if len(is.pop) > keep {
		is.pop = is.pop[:keep]
	}
}

func climbMain(seed int64, evals int, outPath string) {
	rng := rand.New(rand.NewSource(seed))
	hdr4 := stdHeader4()
	labelCodes := map[int]bool{24: true, 39: true, 56: true, 21: true, 64: true}
	var v6plain, v6all, v6single, v4c [][]byte
	for i := 0; i < 24; i++ {
		m := &dhcpv6.Message{MessageType: dhcpv6.MessageType(1 + rng.Intn(11))}
		copy(m.TransactionID[:], randBytes(rng, 3))
		for k := 1 + rng.Intn(5); k > 0; k-- {
			c := randCode6(rng)
			if c == 9 || labelCodes[c] {
				c = 3
			}
			m.AddOption(randOpt6(rng, c, 2))
		}
		v6plain = append(v6plain, m.ToBytes())
		v6all = append(v6all, randMsg6(rng, 2, rng.Intn(3)).ToBytes())
	}
	for _, c := range v6Known {
		m := &dhcpv6.Message{MessageType: dhcpv6.MessageTypeReply}
		m.AddOption(randOpt6(rng, c, 2))
		if !labelCodes[c] {
			v6single = append(v6single, m.ToBytes())
		}
	}
	for i := 0; i < 16; i++ {
		v4c = append(v4c, randPacket4(rng, rng.Intn(6), []int{0, 1, 4, 8, 255}).ToBytes())
		w, _ := wirePacket4(rng)
		v4c = append(v4c, w)
	}
	_ = hdr4
	islands := []*island{{name: "v6-messages", entry: "v6", corpus: v6plain}, {name: "v6-single-options", entry: "v6", corpus: v6single},
		{name: "v6-any", entry: "v6", corpus: v6all}, {name: "v4-packets", entry: "v4", corpus: v4c}}
	score := func(is *island, in []byte) climbCand {
		a, killed := evalAlloc(is.entry, in)
		d := apparentDepth(is.entry, in)
		return climbCand{Entry: is.entry, Island: is.name, In: in, Alloc: a, Depth: d, Score: float64(a) / float64(boundBytes(len(in), d)), Killed: killed}
	}
	finish := func() {
		var best []climbCand
		for _, is := range islands {
			k := 3
			if len(is.pop) < k {
				k = len(is.pop)
			}
			best = append(best, is.pop[:k]...)
		}
		b, _ := json.Marshal(best)
		os.WriteFile(outPath, b, 0o644)
	}
	for _, is := range islands {
		for _, in := range is.corpus {
			if len(in) <= climbMaxLen {
				is.consider(score(is, in), 24)
			}
		}
	}
	for e := 0; e < evals; e++ {
		is := islands[e%len(islands)]
		if len(is.pop) == 0 {
			continue
		}
		// tournament of two, biased to the better half
		a, b := rng.Intn(len(is.pop)), rng.Intn(len(is.pop))
		if b < a {
			a = b
		}
		child := mutateClimb(rng, is.pop[a].In, is.corpus)
		c := score(is, child)
		if c.Killed {
			is.pop = append([]climbCand{c}, is.pop...)
			finish()
			fmt.Println("killed")
			os.Exit(0) // the goroutine cannot be stopped: report and end
		}
		if len(is.pop) < 24 || c.Score > is.pop[len(is.pop)-1].Score {
			is.consider(c, 24)
		}
	}
	finish()
}
