package main

import (
	"math"
	"encoding/json"
	"crypto/sha256"
	"encoding/hex"
	"fmt"
	"math/rand"
	"net"
	"reflect"
	"sort"
	"strings"
	"time"

	"github.com/insomniacslk/dhcp/dhcpv4"
	"github.com/insomniacslk/dhcp/dhcpv6"
	"github.com/insomniacslk/dhcp/iana"
	"github.com/insomniacslk/dhcp/netboot"
	"github.com/insomniacslk/dhcp/dhcpv4/ztpv4"
	"github.com/insomniacslk/dhcp/dhcpv6/ztpv6"
	"github.com/insomniacslk/dhcp/rfc1035label"
)

func init() {
	gens["c08"] = genC08
	gens["c20"] = genC20
}

func hs(s string) string { h := sha256.Sum256([]byte(s)); return hex.EncodeToString(h[:10]) }

// fp is a deterministic deep fingerprint of a call result (pointers are followed, maps sorted).
func fp(v reflect.Value, depth int) string {
	if !v.IsValid() {
		return "<invalid>"
	}
	if depth > 8 {
		return "<deep>"
	}
	switch v.Kind() {
	case reflect.Ptr, reflect.Interface:
		if v.IsNil() {
			return "nil"
		}
		return "&" + fp(v.Elem(), depth+1)
	case reflect.Slice, reflect.Array:
		if v.Kind() == reflect.Slice && v.IsNil() {
			return "nil[]"
		}
		var sb strings.Builder
		sb.WriteString("[")
		for i := 0; i < v.Len(); i++ {
			sb.WriteString(fp(v.Index(i), depth+1))
			sb.WriteString(",")
		}
		sb.WriteString("]")
		return sb.String()
	case reflect.Struct:
		var sb strings.Builder
		sb.WriteString(v.Type().Name() + "{")
		for i := 0; i < v.NumField(); i++ {
			sb.WriteString(fp(v.Field(i), depth+1))
			sb.WriteString(";")
		}
		sb.WriteString("}")
		return sb.String()
	case reflect.Map:
		keys := v.MapKeys()
		ss := make([]string, 0, len(keys))
		for _, k := range keys {
			ss = append(ss, fp(k, depth+1)+":"+fp(v.MapIndex(k), depth+1))
		}
		sort.Strings(ss)
		return "map{" + strings.Join(ss, ",") + "}"
	case reflect.String:
		return fmt.Sprintf("%q", v.String())
	case reflect.Bool:
		return fmt.Sprint(v.Bool())
	case reflect.Int, reflect.Int8, reflect.Int16, reflect.Int32, reflect.Int64:
		return fmt.Sprint(v.Int())
	case reflect.Uint, reflect.Uint8, reflect.Uint16, reflect.Uint32, reflect.Uint64:
		return fmt.Sprint(v.Uint())
	case reflect.Func, reflect.Chan:
		return "<func>"
	}
	return "<" + v.Kind().String() + ">"
}

var mutatorPrefixes = []string{"Set", "Add", "Update", "Del", "FromBytes", "Unmarshal", "Marshal"}

// readOnlyMethods lists the niladic exported methods of v that are not documented mutators.
func readOnlyMethods(v reflect.Value) []string {
	var out []string
	t := v.Type()
	for i := 0; i < t.NumMethod(); i++ {
		m := t.Method(i)
		if m.Type.NumIn() != 1 { // receiver only
			continue
		}
		skip := false
		for _, p := range mutatorPrefixes {
			if strings.HasPrefix(m.Name, p) {
				skip = true
			}
		}
		if skip {
			continue
		}
		out = append(out, m.Name)
	}
	return out
}

func callMethod(v reflect.Value, name string) (r string) {
	defer func() {
		if e := recover(); e != nil {
			r = "PANIC:" + fmt.Sprint(e)
		}
	}()
	res := v.MethodByName(name).Call(nil)
	parts := make([]string, len(res))
	for i, x := range res {
		parts[i] = fp(x, 0)
	}
	return hs(strings.Join(parts, "|"))
}

// ---- subjects: something that can be observed (encoding, projection, printed form) and probed
type subject struct {
	proto string
	obs   func() map[string]any // {"enc","val","str"}
	recv  []reflect.Value       // receivers whose read-only methods are called
	enc   func() []byte
	uses  []readUse             // read-only uses that are not niladic methods: package functions taking the value, methods with arguments
}

// readUse is one read-only use of a value; its result is fingerprinted (builders that draw a fresh transaction id
// report only whether they succeeded)
type readUse struct {
	name string
	f    func() any
}

func useResult(u readUse) (r string) {
	defer func() {
		if e := recover(); e != nil {
			r = "PANIC:" + fmt.Sprint(e)
		}
	}()
	v := u.f()
	if v == nil {
		return hs("nil")
	}
	return hs(fp(reflect.ValueOf(v), 0))
}

// uses4: everything the packages offer for reading a DHCPv4 packet besides its niladic methods
func uses4(p *dhcpv4.DHCPv4) []readUse {
	errOnly := func(_ any, err error) any { return err != nil }
	return []readUse{
		{"netboot.GetNetConfFromPacketv4", func() any { nc, err := netboot.GetNetConfFromPacketv4(p); return []any{nc, err != nil} }},
		{"ztpv4.ParseVendorData", func() any { vd, err := ztpv4.ParseVendorData(p); return []any{vd, err != nil} }},
		{"netboot.ConversationToNetconfv4", func() any { nc, err := netboot.ConversationToNetconfv4([]*dhcpv4.DHCPv4{p, p, p, p}); return []any{nc, err != nil} }},
		{"ztpv4.ParseCircuitID", func() any { c, err := ztpv4.ParseCircuitID(p); return []any{c, err != nil} }},
		{"dhcpv4.NewReplyFromRequest", func() any { r, err := dhcpv4.NewReplyFromRequest(p); return []any{r, err != nil} }},
		{"dhcpv4.NewRequestFromOffer", func() any { r, err := dhcpv4.NewRequestFromOffer(p); return []any{r, err != nil} }},
		{"dhcpv4.NewRenewFromAck", func() any { r, err := dhcpv4.NewRenewFromAck(p); return []any{r, err != nil} }},
		{"dhcpv4.NewReleaseFromACK", func() any { return errOnly(dhcpv4.NewReleaseFromACK(p)) }},
		{"IsOptionRequested(6)", func() any { return p.IsOptionRequested(dhcpv4.OptionDomainNameServer) }},
		{"IsOptionRequested(200)", func() any { return p.IsOptionRequested(dhcpv4.GenericOptionCode(200)) }},
		{"GetOneOption(55)", func() any { return p.GetOneOption(dhcpv4.OptionParameterRequestList) }},
		{"InformationRefreshTime-style defaults", func() any {
			return []any{p.IPAddressLeaseTime(time.Hour), p.IPAddressRenewalTime(time.Minute), p.IPAddressRebindingTime(time.Second)}
		}},
	}
}

// uses6: the same for DHCPv6 messages and relay chains
func uses6(d dhcpv6.DHCPv6) []readUse {
	us := []readUse{
		{"dhcpv6.ExtractMAC", func() any { m, err := dhcpv6.ExtractMAC(d); return []any{m, err != nil} }},
		{"ztpv6.ParseVendorData", func() any { vd, err := ztpv6.ParseVendorData(d); return []any{vd, err != nil} }},
		{"ztpv6.ParseRemoteID", func() any { c, err := ztpv6.ParseRemoteID(d); return []any{c, err != nil} }},
		{"dhcpv6.DecapsulateRelay", func() any { x, err := dhcpv6.DecapsulateRelay(d); return []any{x, err != nil} }},
		{"dhcpv6.DecapsulateRelayIndex(-1)", func() any { x, err := dhcpv6.DecapsulateRelayIndex(d, -1); return []any{x, err != nil} }},
		{"dhcpv6.GetTransactionID", func() any { x, err := dhcpv6.GetTransactionID(d); return []any{x, err != nil} }},
		{"GetOption(6)", func() any { return d.GetOption(dhcpv6.OptionORO) }},
		{"GetOneOption(3)", func() any { return d.GetOneOption(dhcpv6.OptionIANA) }},
	}
	if m, ok := d.(*dhcpv6.Message); ok {
		us = append(us,
			readUse{"netboot.GetNetConfFromPacketv6", func() any { nc, err := netboot.GetNetConfFromPacketv6(m); return []any{nc, err != nil} }},
			readUse{"netboot.ConversationToNetconf", func() any {
				nc, err := netboot.ConversationToNetconf([]dhcpv6.DHCPv6{m, m})
				return []any{nc, err != nil}
			}},
			// ... as the last message of a conversation whose earlier messages carry what this one lacks (an ADVERTISE with the
			// boot file the REPLY leaves out or leaves empty, and the other way round)
			readUse{"netboot.ConversationToNetconf(full ADVERTISE, this)", func() any {
				nc, err := netboot.ConversationToNetconf([]dhcpv6.DHCPv6{companion6(m, true), m})
				return []any{nc, err != nil}
			}},
			readUse{"netboot.ConversationToNetconf(this, bare REPLY)", func() any {
				nc, err := netboot.ConversationToNetconf([]dhcpv6.DHCPv6{m, companion6(m, false)})
				return []any{nc, err != nil}
			}},
			readUse{"dhcpv6.NewAdvertiseFromSolicit", func() any { r, err := dhcpv6.NewAdvertiseFromSolicit(m); return []any{r, err != nil} }},
			readUse{"dhcpv6.NewReplyFromMessage", func() any { r, err := dhcpv6.NewReplyFromMessage(m); return []any{r, err != nil} }},
			readUse{"dhcpv6.NewRequestFromAdvertise", func() any { _, err := dhcpv6.NewRequestFromAdvertise(m); return err != nil }},
			readUse{"IsOptionRequested(23)", func() any { return m.IsOptionRequested(dhcpv6.OptionDNSRecursiveNameServer) }},
			readUse{"IsOptionRequested(59)", func() any { return m.IsOptionRequested(dhcpv6.OptionBootfileURL) }},
			readUse{"Options.VendorClass(9)", func() any { return m.Options.VendorClass(9) }},
			readUse{"Options.VendorOpt(9)", func() any { return m.Options.VendorOpt(9) }},
			readUse{"Options.InformationRefreshTime(def)", func() any { return m.Options.InformationRefreshTime(time.Hour) }},
		)
	}
	if r, ok := d.(*dhcpv6.RelayMessage); ok {
		reply := &dhcpv6.Message{MessageType: dhcpv6.MessageTypeReply}
		us = append(us, readUse{"dhcpv6.NewRelayReplFromRelayForw", func() any { x, err := dhcpv6.NewRelayReplFromRelayForw(r, reply); return []any{x, err != nil} }})
	}
	return us
}

// companion6: another message of the same conversation - an ADVERTISE that carries addresses, name servers and boot file
// (full), or a REPLY that carries the addresses only and an empty boot file URL
func companion6(m *dhcpv6.Message, full bool) *dhcpv6.Message {
	c := &dhcpv6.Message{MessageType: dhcpv6.MessageTypeAdvertise, TransactionID: m.TransactionID}
	if !full {
		c.MessageType = dhcpv6.MessageTypeReply
	}
	ia := &dhcpv6.OptIANA{IaId: [4]byte{1, 2, 3, 4}, T1: time.Hour, T2: 2 * time.Hour}
	ia.Options.Options = dhcpv6.Options{&dhcpv6.OptIAAddress{IPv6Addr: net.ParseIP("2001:db8::77"), PreferredLifetime: time.Hour, ValidLifetime: 2 * time.Hour}}
	c.AddOption(ia)
	c.AddOption(dhcpv6.OptDNS(net.ParseIP("2001:db8::53")))
	if full {
		c.AddOption(dhcpv6.OptBootFileURL("tftp://[2001:db8::1]/boot.efi"))
		c.AddOption(dhcpv6.OptBootFileParam("console=ttyS0", "quiet"))
	} else {
		c.AddOption(dhcpv6.OptBootFileURL(""))
	}
	return c
}

func safe(f func() map[string]any) (m map[string]any) {
	defer func() {
		if e := recover(); e != nil {
			m = map[string]any{"a": "Panic", "what": fmt.Sprint(e)}
		}
	}()
	m = f()
	if v, ok := m["val"]; ok {
		// a fingerprint of the value tree: two trees of different shape cannot be compared in TLA+ (an evaluation error,
		// not a verdict), their fingerprints can
		if b, err := json.Marshal(v); err == nil {
			m["valh"] = hs(string(b))
		}
	}
	return m
}

func subj4(p *dhcpv4.DHCPv4) subject {
	return subject{proto: "v4",
		obs: func() map[string]any {
			val, str := proj4(p), hs(p.Summary()+p.String()) // read before this observation's own encoding
			return map[string]any{"a": "Obs", "enc": B(p.ToBytes()), "val": val, "str": str}
		},
		recv: []reflect.Value{reflect.ValueOf(p)}, enc: p.ToBytes, uses: uses4(p)}
}
func subj6(d dhcpv6.DHCPv6) subject {
	s := subject{proto: "v6",
		obs: func() map[string]any {
			val, str := proj6(d), hs(d.Summary()+d.String()) // read before this observation's own encoding
			return map[string]any{"a": "Obs", "enc": B(d.ToBytes()), "val": val, "str": str}
		},
		recv: []reflect.Value{reflect.ValueOf(d)}, enc: d.ToBytes, uses: uses6(d)}
	if m, ok := d.(*dhcpv6.Message); ok {
		s.recv = append(s.recv, reflect.ValueOf(m.Options))
		for _, o := range m.Options.Options {
			s.recv = append(s.recv, reflect.ValueOf(o))
		}
	}
	if r, ok := d.(*dhcpv6.RelayMessage); ok {
		s.recv = append(s.recv, reflect.ValueOf(r.Options))
	}
	return s
}
func subjOpt6(o dhcpv6.Option) subject {
	return subject{proto: "opt6",
		obs: func() map[string]any {
			val, str := projOpt(o, "main"), hs(o.String()) // read before this observation's own encoding
			return map[string]any{"a": "Obs", "enc": B(o.ToBytes()), "val": val, "str": str}
		},
		recv: []reflect.Value{reflect.ValueOf(o)}, enc: o.ToBytes}
}

// subjOpt6Big: an option whose value is too large to log; the observation carries fingerprints
func subjOpt6Big(o dhcpv6.Option) subject {
	return subject{proto: "opt6",
		obs: func() map[string]any {
			vb, _ := json.Marshal(projOpt(o, "main"))
			val, str := hs(string(vb)), hs(o.String())
			return map[string]any{"a": "Obs", "enc": B(o.ToBytes()), "val": val, "str": str}
		},
		recv: []reflect.Value{reflect.ValueOf(o)}, enc: o.ToBytes}
}
func subjOpt4(o dhcpv4.Option) subject {
	return subject{proto: "opt4",
		obs: func() map[string]any {
			return map[string]any{"a": "Obs", "enc": B(o.Value.ToBytes()), "val": map[string]any{"c": int(o.Code.Code())}, "str": hs(o.String() + o.Value.String())}
		},
		recv: []reflect.Value{reflect.ValueOf(o), reflect.ValueOf(o.Value)}, enc: o.Value.ToBytes}
}
func subjLabels(l *rfc1035label.Labels) subject {
	return subject{proto: "label",
		obs: func() map[string]any {
			return map[string]any{"a": "Obs", "enc": B(l.ToBytes()), "val": namesJSON(l.Labels), "str": hs(l.String())}
		},
		recv: []reflect.Value{reflect.ValueOf(l)}, enc: l.ToBytes}
}

func scribble(rng *rand.Rand, b []byte, pat string, next []byte) {
	for i := range b {
		switch pat {
		case "zero":
			b[i] = 0
		case "ones":
			b[i] = 0xff
		case "small":
			b[i] = byte(1 + i%5)
		case "random":
			b[i] = byte(rng.Intn(256))
		case "next":
			if len(next) > 0 {
				b[i] = next[i%len(next)]
			}
		}
	}
}

var patterns = []string{"zero", "ones", "small", "random", "next"}

// corpus of accepted wire inputs covering every option type, nested ones included
func corpus6(rng *rand.Rand, n int) [][]byte {
	var out [][]byte
	for _, c := range v6Known {
		for k := 0; k < 2; k++ {
			m := &dhcpv6.Message{MessageType: dhcpv6.MessageTypeReply}
			copy(m.TransactionID[:], randBytes(rng, 3))
			m.AddOption(randOpt6(rng, c, 2))
			out = append(out, m.ToBytes())
		}
	}
	for i := 0; i < n; i++ {
		out = append(out, randMsg6(rng, 1+rng.Intn(3), pick(rng, 0, 0, 1, 2, 3)).ToBytes())
	}
	// every place a link-layer address travels in (client link-layer address option of a relay, DUID-LL / DUID-LLT of the
	// relayed client), for the hardware types of the registry, with addresses of every length from none to over-long
	for _, hw := range []iana.HWType{1, 6, 27, 32, 0} {
		for L := 0; L <= 9; L++ {
			inner := &dhcpv6.Message{MessageType: dhcpv6.MessageTypeSolicit}
			copy(inner.TransactionID[:], randBytes(rng, 3))
			if L%2 == 0 {
				inner.AddOption(dhcpv6.OptClientID(&dhcpv6.DUIDLL{HWType: hw, LinkLayerAddr: randBytes(rng, L)}))
			} else {
				inner.AddOption(dhcpv6.OptClientID(&dhcpv6.DUIDLLT{HWType: hw, Time: 7, LinkLayerAddr: randBytes(rng, L)}))
			}
			out = append(out, inner.ToBytes())
			r, _ := dhcpv6.EncapsulateRelay(inner, dhcpv6.MessageTypeRelayForward, net.ParseIP("2001:db8::1"), net.ParseIP("fe80::1"))
			out = append(out, r.ToBytes())
			r.AddOption(dhcpv6.OptClientLinkLayerAddress(hw, net.HardwareAddr(randBytes(rng, L))))
			out = append(out, r.ToBytes())
			r2, _ := dhcpv6.EncapsulateRelay(r, dhcpv6.MessageTypeRelayForward, net.ParseIP("2001:db8::2"), net.ParseIP("fe80::2"))
			out = append(out, r2.ToBytes())
		}
	}
	// well-framed messages in which one option of a known type is malformed (cut short by an octet, or three octets
	// where its layout wants another number): rejected as a whole - and if a decoder ever becomes lenient about them,
	// what it keeps of them is checked like everything else
	for _, c := range v6Known {
		good := randOpt6(rng, c, 1).ToBytes()
		cut := good[:len(good)/2]
		if len(good) > 0 {
			cut = good[:len(good)-1]
		}
		for _, pay := range [][]byte{good[:len(good)/2], cut, append(append([]byte{}, good...), 0), {1, 2, 3}} {
			if len(pay) > 400 {
				continue
			}
			msg := append([]byte{7, 1, 2, 3, 0, 14, 0, 0, byte(c >> 8), byte(c), byte(len(pay) >> 8), byte(len(pay))}, pay...)
			msg = append(msg, 0, 8, 0, 2, 0, 1)
			out = append(out, msg)
			out = append(out, append(append(append([]byte{12, 0}, make([]byte, 32)...), 0, 9, byte(len(msg)>>8), byte(len(msg))), msg...))
		}
	}
	// relay chains of depth 1..4 in which one level (any of them) carries no relay message option: decodable, and
	// every operation that walks the chain meets the hole
	for depth := 1; depth <= 4; depth++ {
		for hole := 1; hole <= depth; hole++ { // 1 = the innermost relay
			var d dhcpv6.DHCPv6 = &dhcpv6.Message{MessageType: dhcpv6.MessageTypeSolicit}
			for k := 1; k <= depth; k++ {
				r, _ := dhcpv6.EncapsulateRelay(d, dhcpv6.MessageTypeRelayForward, net.ParseIP("2001:db8::1"), net.ParseIP("fe80::1"))
				r.AddOption(dhcpv6.OptInterfaceID([]byte{byte(k)}))
				if k == hole {
					r.Options.Del(dhcpv6.OptionRelayMsg)
				}
				d = r
			}
			out = append(out, d.ToBytes())
		}
	}
	// long relay chains (the hop count limit of RFC 8415 is 32 - a limit for relays, not for decoders - and the hop count
	// field goes up to 255), built on the wire around messages that carry options with and without a type in the library
	for _, depth := range []int{8, 16, 31, 32, 33, 34, 40, 48} {
		inner := []byte{1, 9, 9, byte(depth), 0, 8, 0, 2, 0, 7, 0xfd, 0xe9, 0, 5, 'o', 'p', 'a', 'q', byte(depth), 0, 6, 0, 4, 0, 23, 0, 24}
		w := inner
		for k := 0; k < depth; k++ {
			hdr := append(append([]byte{12, byte(k)}, net.ParseIP("2001:db8::1")...), net.ParseIP("fe80::1")...)
			hdr = append(hdr, 0xfd, 0xea, 0, 3, 'l', 'v', byte(k)) // an option without a type at every level
			w = append(append(hdr, 0, 9, byte(len(w)>>8), byte(len(w))), w...)
		}
		out = append(out, w)
	}
	out = append(out, subOptionWires(rng)...)
	// compressed names (the label set keeps its original bytes)
	names := []byte{3, 'f', 'o', 'o', 3, 'c', 'o', 'm', 0, 3, 'b', 'a', 'r', 0xc0, 4}
	for _, code := range []int{24, 39} {
		p := names
		if code == 39 {
			p = append([]byte{1}, 3, 'f', 'o', 'o', 3, 'c', 'o', 'm', 0)
		}
		out = append(out, append([]byte{7, 1, 2, 3, 0, byte(code), 0, byte(len(p))}, p...))
	}
	ntp := append([]byte{0, 3, 0, byte(len(names))}, names...)
	out = append(out, append([]byte{7, 1, 2, 3, 0, 56, 0, byte(len(ntp))}, ntp...))
	return out
}

func genC08(o *Out, rng *rand.Rand, tier string) {
	n := 250
	if tier == "thorough" {
		n = 5000
	}
	c6 := corpus6(rng, n)
	var c4 [][]byte
	for i := 0; i < n; i++ {
		if i%2 == 0 {
			w, _ := wirePacket4(rng)
			c4 = append(c4, w)
		} else {
			p := randPacket4(rng, rng.Intn(6), boundaryLens[:10])
			c4 = append(c4, p.ToBytes())
		}
	}
	// option 119 with compressed names through the DHCPv4 accessor too
	run := func(proto string, in []byte, next []byte, pat string) {
		buf := append([]byte(nil), in...) // the caller's buffer; the library decodes from THIS slice
		ev := []any{}
		var s subject
		switch proto {
		case "v4":
			p, err := dhcpv4.FromBytes(buf)
			if err != nil {
				return
			}
			ev = append(ev, map[string]any{"a": "Decode", "ok": true, "val": proj4(p)})
			s = subj4(p)
		case "v6":
			d, err := decodeVia(buf, entryFor(in)) // through FromBytes or through the concrete entry point of its header family
			if err != nil {
				return
			}
			ev = append(ev, map[string]any{"a": "Decode", "ok": true, "val": proj6(d)})
			s = subj6(d)
		case "label":
			l, err := rfc1035label.FromBytes(buf)
			if err != nil {
				return
			}
			ev = append(ev, map[string]any{"a": "Decode", "ok": true, "val": namesJSON(l.Labels)})
			s = subjLabels(l)
		}
		ev = append(ev, safe(s.obs))
		scribble(rng, buf, pat, next)
		ev = append(ev, map[string]any{"a": "Scribble", "buf": "in", "pat": pat})
		ev = append(ev, safe(s.obs))
		if proto == "label" {
			// a bare label set is not a message: its ToBytes hands out the stored original (the clause about
			// encodings being fresh buffers is about messages)
			o.Emit(map[string]any{"proto": proto, "in": B(in), "ev": ev}, "scribble-"+proto+"-"+pat, append([]byte(proto+pat), in...), len(in) > 8)
			return
		}
		// the encoding handed to the caller may be modified too; an encoding the caller still holds must
		// not change when the message is encoded again
		held := s.enc()
		ev = append(ev, map[string]any{"a": "Encode", "enc": B(held)})
		enc := s.enc()
		ev = append(ev, map[string]any{"a": "Encode", "enc": B(enc)})
		scribble(rng, enc, pat, next)
		ev = append(ev, map[string]any{"a": "Scribble", "buf": "out", "pat": pat})
		ev = append(ev, map[string]any{"a": "Held", "enc": B(held)})
		ev = append(ev, safe(s.obs))
		ev = append(ev, map[string]any{"a": "Held", "enc": B(held)})
		o.Emit(map[string]any{"proto": proto, "in": B(in), "ev": ev}, "scribble-"+proto+"-"+pat, append([]byte(proto+pat), in...), len(in) > 8)
	}
	for i, in := range c6 {
		for _, pat := range patterns {
			run("v6", in, c6[(i+1)%len(c6)], pat)
		}
	}
	for i, in := range c4 {
		for _, pat := range patterns {
			run("v4", in, c4[(i+1)%len(c4)], pat)
		}
	}
	for i := 0; i < n; i++ {
		in := randLabelWire(rng)
		for _, pat := range patterns {
			run("label", in, randLabelWire(rng), pat)
		}
	}
}

func standalone4(rng *rand.Rand) dhcpv4.Option {
	ip := net.IP(randBytes(rng, 4))
	switch rng.Intn(12) {
	case 0:
		var cs []dhcpv4.OptionCode
		for j := 2 + rng.Intn(5); j > 0; j-- {
			cs = append(cs, code4(rng.Intn(256)))
		}
		return dhcpv4.OptParameterRequestList(cs...)
	case 1:
		return dhcpv4.OptRouter(ip, net.IP(randBytes(rng, 4)))
	case 2:
		return dhcpv4.OptDomainSearch(&rfc1035label.Labels{Labels: []string{randName(rng), randName(rng)}})
	case 3:
		dst := net.IP(randBytes(rng, 4))
		if rng.Intn(2) == 0 {
			dst = net.IP{255, 255, 255, 255} // host bits set below every mask length
		}
		return dhcpv4.OptClasslessStaticRoute(&dhcpv4.Route{Dest: &net.IPNet{IP: dst, Mask: net.CIDRMask(pick(rng, 1, 7, 9, 15, 23, 26, 31, rng.Intn(33)), 32)}, Router: ip},
			&dhcpv4.Route{Dest: &net.IPNet{IP: net.IP(randBytes(rng, 4)), Mask: net.CIDRMask(rng.Intn(33), 32)}, Router: net.IP(randBytes(rng, 4))})
	case 4:
		return dhcpv4.OptRelayAgentInfo(dhcpv4.OptGeneric(dhcpv4.GenericOptionCode(1), randBytes(rng, 3)), dhcpv4.OptGeneric(dhcpv4.GenericOptionCode(5), ip))
	case 5:
		return dhcpv4.OptClientArch(iana.Arch(rng.Intn(30)), iana.Arch(rng.Intn(30)))
	case 6:
		return dhcpv4.OptRFC3004UserClass([]string{randNoNul(rng, 3), randNoNul(rng, 4)})
	case 7:
		return dhcpv4.OptVIVC(dhcpv4.VIVCIdentifier{EntID: iana.EnterpriseID(rng.Uint32()), Data: randBytes(rng, 4)})
	case 8:
		return dhcpv4.OptIPAddressLeaseTime(time.Duration(rng.Intn(1<<30)) * time.Second)
	case 9:
		return dhcpv4.OptSubnetMask(net.CIDRMask(rng.Intn(33), 32))
	case 10:
		return dhcpv4.OptMessageType(dhcpv4.MessageType(rng.Intn(10)))
	default:
		return dhcpv4.OptGeneric(dhcpv4.GenericOptionCode(rng.Intn(255)), randBytes(rng, 5))
	}
}

func genC20(o *Out, rng *rand.Rand, tier string) {
	n := 400
	if tier == "thorough" {
		n = 8000
	}
	excluded := map[string]bool{}
	variant := 0
	printCall := func(s subject) []any {
		r := s.recv[0]
		if m := r.MethodByName("String"); m.IsValid() && m.Type().NumIn() == 0 {
			return []any{map[string]any{"a": "Call", "m": fmt.Sprintf("#0 %s.String", r.Type().String()), "r": callMethod(r, "String")}}
		}
		return []any{}
	}
	printFirst := func(s subject) []any {
		variant++
		if variant%2 == 0 {
			return []any{} // observe (encode) first in every other life
		}
		// printed before anything is encoded: printing after an encoding must give the same text
		r := s.recv[0]
		if m := r.MethodByName("String"); m.IsValid() && m.Type().NumIn() == 0 {
			return []any{map[string]any{"a": "Call", "m": fmt.Sprintf("#0 %s.String", r.Type().String()), "r": callMethod(r, "String")}}
		}
		return []any{}
	}
	run := func(s subject, cls string, key []byte) {
		ev := append(printFirst(s), safe(s.obs))
		type mref struct {
			r reflect.Value
			m string
			i int
		}
		var all []mref
		for i, r := range s.recv {
			for _, m := range readOnlyMethods(r) {
				all = append(all, mref{r, m, i})
			}
		}
		if len(all) == 0 {
			return
		}
		steps := 1 + rng.Intn(6)
		for k := 0; k < steps; k++ {
			var name string
			var call func() string
			if len(s.uses) > 0 && rng.Intn(4) == 0 {
				u := s.uses[rng.Intn(len(s.uses))]
				name, call = "use "+u.name, func() string { return useResult(u) }
			} else {
				m := all[rng.Intn(len(all))]
				name = fmt.Sprintf("#%d %s.%s", m.i, m.r.Type().String(), m.m) // receiver index: two options of one type are two receivers
				call = func() string { return callMethod(m.r, m.m) }
			}
			ev = append(ev, map[string]any{"a": "Call", "m": name, "r": call()})
			if rng.Intn(2) == 0 || k == steps-1 {
				ev = append(ev, safe(s.obs))
			}
			if rng.Intn(3) == 0 { // the same call again must give the same result
				ev = append(ev, map[string]any{"a": "Call", "m": name, "r": call()})
			}
		}
		o.Emit(map[string]any{"proto": s.proto, "in": []int{}, "ev": ev}, cls, append(key, byte(steps)), true)
	}
	// every read-only method of every receiver at least once per value kind (pairs exhaustively for small values)
	// every life starts from a freshly built (identical) value: mk rebuilds it from the same sub-seed
	exhaustive := func(mk func(r *rand.Rand) subject, cls string) {
		seed := rng.Int63()
		fresh := func() subject { return mk(rand.New(rand.NewSource(seed))) }
		s0 := fresh()
		key := s0.enc()
		for i, r0 := range s0.recv {
			for _, m := range readOnlyMethods(r0) {
				s := fresh()
				r := s.recv[i]
				name := fmt.Sprintf("#%d %s.%s", i, r.Type().String(), m)
				ev := append(printFirst(s), safe(s.obs), map[string]any{"a": "Call", "m": name, "r": callMethod(r, m)}, safe(s.obs),
					map[string]any{"a": "Call", "m": name, "r": callMethod(r, m)}, safe(s.obs))
				ev = append(ev, printCall(s)...) // printed again at the end of the life
				o.Emit(map[string]any{"proto": s.proto, "in": []int{}, "ev": ev}, cls, append(append([]byte(nil), key...), name...), true)
			}
		}
		for i := range s0.uses {
			s := fresh()
			u := s.uses[i]
			name := "use " + u.name
			ev := append(printFirst(s), safe(s.obs), map[string]any{"a": "Call", "m": name, "r": useResult(u)}, safe(s.obs),
				map[string]any{"a": "Call", "m": name, "r": useResult(u)}, safe(s.obs))
			ev = append(ev, printCall(s)...)
			o.Emit(map[string]any{"proto": s.proto, "in": []int{}, "ev": ev}, cls, append(append([]byte(nil), key...), name...), true)
		}
	}
	// one life in which every read-only helper is applied once, in a random order, with an observation after each
	allUses := func(mk func(r *rand.Rand) subject, cls string) {
		s := mk(rand.New(rand.NewSource(rng.Int63())))
		key := s.enc()
		ev := append(printFirst(s), safe(s.obs))
		for _, i := range rng.Perm(len(s.uses)) {
			u := s.uses[i]
			ev = append(ev, map[string]any{"a": "Call", "m": "use " + u.name, "r": useResult(u)}, safe(s.obs))
		}
		ev = append(ev, printCall(s)...)
		o.Emit(map[string]any{"proto": s.proto, "in": []int{}, "ev": ev}, cls, key, true)
	}
	for _, c := range v6Known {
		for k := 0; k < 2; k++ {
			cc := c
			exhaustive(func(r *rand.Rand) subject { return subjOpt6(randOpt6(r, cc, 2)) }, "standalone-opt6-every-method")
		}
	}
	for k := 0; k < 120; k++ {
		exhaustive(func(r *rand.Rand) subject { return subjOpt4(standalone4(r)) }, "standalone-opt4-every-method")
	}
	// values at and beyond what their wire field can carry (the encoder's treatment of them must not change them)
	for k := 0; k < 3; k++ {
		kk := k
		exhaustive(func(r *rand.Rand) subject {
			big := string(make([]byte, 65536+kk))
			return subjOpt6Big(dhcpv6.OptBootFileParam([][]string{{"a", big, "b", "c"}, {big, "x"}, {"p", "q", big, big, "r"}}[kk]...))
		}, "oversized-values")
		exhaustive(func(r *rand.Rand) subject {
			p := randPacket4(r, 2, []int{0, 1, 4, 8})
			if p.Options == nil {
				p.Options = dhcpv4.Options{}
			}
			p.ClientHWAddr = randBytes(r, []int{17, 20, 32}[kk]) // longer than the 16-byte field (IP over InfiniBand: 20)
			return subj4(p)
		}, "oversized-values")
	}
	// messages in which options of codes the library has a type for are held as opaque values (put there by a program that
	// builds options from bytes, or by a custom option parser): the typed accessors then have nothing typed to return - and
	// nothing to change
	for k := 0; k < 6; k++ {
		kk := k
		exhaustive(func(r *rand.Rand) subject {
			m := &dhcpv6.Message{MessageType: dhcpv6.MessageTypeReply}
			copy(m.TransactionID[:], randBytes(r, 3))
			gen := func(code dhcpv6.OptionCode, o dhcpv6.Option) dhcpv6.Option {
				return &dhcpv6.OptionGeneric{OptionCode: code, OptionData: o.ToBytes()}
			}
			m.AddOption(gen(dhcpv6.OptionClientID, dhcpv6.OptClientID(&dhcpv6.DUIDLL{HWType: 1, LinkLayerAddr: randBytes(r, 6)})))
			m.AddOption(gen(dhcpv6.OptionDNSRecursiveNameServer, dhcpv6.OptDNS(net.ParseIP("2001:db8::53"))))
			m.AddOption(gen(dhcpv6.OptionElapsedTime, dhcpv6.OptElapsedTime(1500*time.Millisecond)))
			m.AddOption(gen(dhcpv6.OptionIANA, randOpt6(r, 3, 2)))
			m.AddOption(gen(dhcpv6.OptionORO, dhcpv6.OptRequestedOption(dhcpv6.OptionBootfileURL, dhcpv6.OptionDNSRecursiveNameServer)))
			nonmap := []byte{0x00, 0x7f, 5, 220} // a 4RD non-map rule with a traffic class octet but the T flag clear
			m.AddOption(&dhcpv6.OptionGeneric{OptionCode: dhcpv6.Option4RD, OptionData: append([]byte{0, 99, 0, 4}, nonmap...)})
			m.AddOption(gen(dhcpv6.OptionBootfileURL, dhcpv6.OptBootFileURL("http://boot.example/x")))
			if kk%2 == 1 {
				m.AddOption(randOpt6(r, 23, 1)) // a typed one after the opaque one of the same code
				m.AddOption(dhcpv6.OptElapsedTime(time.Second))
			}
			if kk >= 4 { // malformed payloads under known codes
				m.AddOption(&dhcpv6.OptionGeneric{OptionCode: dhcpv6.OptionServerID, OptionData: []byte{0}})
				m.AddOption(&dhcpv6.OptionGeneric{OptionCode: dhcpv6.OptionIAPD, OptionData: []byte{1, 2, 3}})
			}
			return subj6(m)
		}, "known-codes-held-as-opaque")
	}
	// authentication options (RFC 8415 21.11; the library has no type for them): every protocol, and for the reconfigure key
	// protocol both kinds of authentication information (the key in the clear, a digest), in a message and behind a relay
	for proto := 0; proto <= 4; proto++ {
		for _, kind := range []int{1, 2, 0} {
			if proto != 3 && kind != 1 {
				continue
			}
			pp, kk := proto, kind
			exhaustive(func(r *rand.Rand) subject {
				m := &dhcpv6.Message{MessageType: dhcpv6.MessageTypeReply}
				copy(m.TransactionID[:], randBytes(r, 3))
				m.AddOption(dhcpv6.OptClientID(&dhcpv6.DUIDLL{HWType: 1, LinkLayerAddr: randBytes(r, 6)}))
				auth := append([]byte{byte(pp), 1, 0}, randBytes(r, 8)...) // protocol, algorithm, RDM, replay detection
				auth = append(auth, byte(kk))
				auth = append(auth, randBytes(r, 16)...)
				m.AddOption(&dhcpv6.OptionGeneric{OptionCode: dhcpv6.OptionAuth, OptionData: auth})
				m.AddOption(dhcpv6.OptElapsedTime(0))
				var d dhcpv6.DHCPv6 = m
				if r.Intn(2) == 0 {
					d, _ = dhcpv6.EncapsulateRelay(m, dhcpv6.MessageTypeRelayReply, net.ParseIP("2001:db8::1"), net.ParseIP("fe80::1"))
				}
				if r.Intn(2) == 0 {
					if q, err := dhcpv6.FromBytes(d.ToBytes()); err == nil {
						return subj6(q)
					}
				}
				return subj6(d)
			}, "authentication-options")
		}
	}
	// numbers beyond what their wire field can hold, in hand-built values (a program computes a duration and stores it): reading
	// and printing leave the stored value alone, whatever the encoder makes of it
	for _, d := range []time.Duration{20 * time.Minute, 655360 * time.Millisecond, 655350 * time.Millisecond, -time.Second, 1 << 33 * time.Second, 1<<32*time.Second + 5*time.Second, -5 * time.Hour, math.MaxInt64} {
		dd := d
		exhaustive(func(r *rand.Rand) subject { return subjOpt6(dhcpv6.OptElapsedTime(dd)) }, "out-of-range-numbers")
		exhaustive(func(r *rand.Rand) subject { return subjOpt6(dhcpv6.OptInformationRefreshTime(dd)) }, "out-of-range-numbers")
		exhaustive(func(r *rand.Rand) subject {
			return subjOpt6(&dhcpv6.OptIANA{IaId: [4]byte{1, 2, 3, 4}, T1: dd, T2: dd + time.Second,
				Options: dhcpv6.IdentityOptions{Options: dhcpv6.Options{&dhcpv6.OptIAAddress{IPv6Addr: net.ParseIP("2001:db8::9"), PreferredLifetime: dd, ValidLifetime: dd}}}})
		}, "out-of-range-numbers")
		exhaustive(func(r *rand.Rand) subject {
			m := &dhcpv6.Message{MessageType: dhcpv6.MessageTypeSolicit}
			copy(m.TransactionID[:], randBytes(r, 3))
			m.AddOption(dhcpv6.OptClientID(&dhcpv6.DUIDLL{HWType: 1, LinkLayerAddr: randBytes(r, 6)}))
			m.AddOption(dhcpv6.OptElapsedTime(dd))
			m.AddOption(dhcpv6.OptInformationRefreshTime(dd))
			m.AddOption(&dhcpv6.OptIAPD{IaId: [4]byte{9, 9, 9, 9}, T1: dd, T2: dd})
			return subj6(m)
		}, "out-of-range-numbers")
		exhaustive(func(r *rand.Rand) subject { return subjOpt4(dhcpv4.OptIPAddressLeaseTime(dd)) }, "out-of-range-numbers")
		exhaustive(func(r *rand.Rand) subject {
			p, _ := dhcpv4.New(dhcpv4.WithOption(dhcpv4.OptRenewTimeValue(dd)), dhcpv4.WithOption(dhcpv4.OptRebindingTimeValue(dd)), dhcpv4.WithOption(dhcpv4.OptIPv6OnlyPreferred(dd)))
			copy(p.TransactionID[:], randBytes(r, 4))
			return subj4(p)
		}, "out-of-range-numbers")
	}
	for k := 0; k < 6; k++ {
		exhaustive(func(r *rand.Rand) subject {
			p := randPacket4(r, 4, []int{0, 1, 4, 8})
			if p.Options == nil {
				p.Options = dhcpv4.Options{}
			}
			p.UpdateOption(dhcpv4.OptParameterRequestList(code4(9), code4(3), code4(200), code4(1)))
			return subj4(p)
		}, "packet4-every-method")
		kk := k
		exhaustive(func(r *rand.Rand) subject { return subj6(randMsg6(r, 2, kk%3)) }, "message6-every-method")
	}
	// what a boot client receives: replies carrying everything the configuration extractors look at, with name lists
	// that contain the root, repeated and mixed-case names
	for k := 0; k < 10; k++ {
		kk := k
		exhaustive(func(r *rand.Rand) subject {
			m := &dhcpv6.Message{MessageType: dhcpv6.MessageTypeReply}
			copy(m.TransactionID[:], randBytes(r, 3))
			names := [][]string{{"", "a.example"}, {"x.example", "", "y.example"}, {"", ""}, {"A.Example", "a.example"}, {"corp.example", "corp.example", ""}}[kk%5]
			m.AddOption(randOpt6(r, 1, 1))
			m.AddOption(randOpt6(r, 3, 2))
			m.AddOption(dhcpv6.OptDNS(net.ParseIP("2001:db8::53")))
			m.AddOption(dhcpv6.OptDomainSearchList(&rfc1035label.Labels{Labels: append([]string(nil), names...)}))
			m.AddOption(randOpt6(r, 56, 1))
			switch kk % 4 { // the boot file: given, present but empty, parameters without a file, absent
			case 0:
				m.AddOption(dhcpv6.OptBootFileURL("http://boot.example/x"))
			case 1:
				m.AddOption(dhcpv6.OptBootFileURL(""))
			case 2:
				m.AddOption(dhcpv6.OptBootFileParam("a=b", "c"))
			}
			if kk >= 5 { // as received
				if d, err := dhcpv6.FromBytes(m.ToBytes()); err == nil {
					return subj6(d)
				}
			}
			return subj6(m)
		}, "netboot-reply6-every-method")
		exhaustive(func(r *rand.Rand) subject {
			names := [][]string{{"", "a.example"}, {"x.example", "", "y.example"}, {"A.Example", "a.example"}}[kk%3]
			p, _ := dhcpv4.New(dhcpv4.WithYourIP(net.IPv4(10, 1, 2, 3)), dhcpv4.WithNetmask(net.CIDRMask(24, 32)), dhcpv4.WithRouter(net.IPv4(10, 1, 2, 1)),
				dhcpv4.WithDNS(net.IPv4(10, 1, 2, 53)), dhcpv4.WithLeaseTime(3600), dhcpv4.WithMessageType(dhcpv4.MessageTypeAck),
				dhcpv4.WithOption(dhcpv4.OptNTPServers(net.IPv4(10, 1, 2, 123))), dhcpv4.WithOption(dhcpv4.OptBootFileName("pxelinux.0")),
				dhcpv4.WithOption(dhcpv4.OptDomainSearch(&rfc1035label.Labels{Labels: append([]string(nil), names...)})))
			copy(p.TransactionID[:], randBytes(r, 4))
			if kk >= 5 {
				if q, err := dhcpv4.FromBytes(p.ToBytes()); err == nil {
					return subj4(q)
				}
			}
			return subj4(p)
		}, "netboot-ack4-every-method")
	}
	// a packet that carries every option the library has a type for (printing walks a decoder per option type), and
	// relay chains whose peer addresses are EUI-64 interface identifiers, with and without a client link-layer option
	for k := 0; k < 4; k++ {
		kk := k
		exhaustive(func(r *rand.Rand) subject {
			p, _ := dhcpv4.New()
			copy(p.TransactionID[:], randBytes(r, 4))
			for i := 0; i < 14; i++ { // (standalone4 draws one of its twelve kinds)
				o := standalone4(r)
				p.UpdateOption(o)
			}
			p.UpdateOption(dhcpv4.OptClasslessStaticRoute(&dhcpv4.Route{Dest: &net.IPNet{IP: net.IPv4(10, 9, 0, 0).To4(), Mask: net.CIDRMask(16, 32)}, Router: net.IPv4(10, 0, 0, 1).To4()},
				&dhcpv4.Route{Dest: &net.IPNet{IP: net.IPv4(0, 0, 0, 0).To4(), Mask: net.CIDRMask(0, 32)}, Router: net.IPv4(10, 0, 0, 254).To4()}))
			p.UpdateOption(dhcpv4.OptVIVC(dhcpv4.VIVCIdentifier{EntID: 9, Data: []byte("SN:1;PID:x")}, dhcpv4.VIVCIdentifier{EntID: 4242, Data: []byte{1, 2, 3}}))
			p.UpdateOption(dhcpv4.OptRelayAgentInfo(dhcpv4.OptGeneric(dhcpv4.AgentRemoteIDSubOption, []byte("rid")), dhcpv4.OptGeneric(dhcpv4.AgentCircuitIDSubOption, []byte("Ethernet1/2"))))
			p.UpdateOption(dhcpv4.OptRFC3004UserClass([]string{"ipxe", "boot"}))
			p.UpdateOption(dhcpv4.OptClientArch(iana.EFI_X86_64, iana.EFI_ARM64))
			p.UpdateOption(dhcpv4.OptDomainSearch(&rfc1035label.Labels{Labels: []string{"a.example", "b.a.example"}}))
			if kk >= 2 {
				// codes that are markers on the wire, held in the map like any other (a program that copies option maps around)
				p.Options[255] = []byte{}
				p.Options[0] = []byte{}
			}
			if kk%2 == 1 {
				if q, err := dhcpv4.FromBytes(p.ToBytes()); err == nil {
					return subj4(q)
				}
			}
			return subj4(p)
		}, "packet4-all-typed-options")
		exhaustive(func(r *rand.Rand) subject {
			inner := &dhcpv6.Message{MessageType: dhcpv6.MessageTypeSolicit}
			copy(inner.TransactionID[:], randBytes(r, 3))
			inner.AddOption(dhcpv6.OptClientID(&dhcpv6.DUIDLL{HWType: 1, LinkLayerAddr: randBytes(r, 6)}))
			var d dhcpv6.DHCPv6 = inner
			for lvl := 0; lvl <= kk%3; lvl++ {
				peer := net.IP(append(append(append(net.ParseIP("fe80::")[:8:8], randBytes(r, 3)...), 0xff, 0xfe), randBytes(r, 3)...))
				rm, _ := dhcpv6.EncapsulateRelay(d, dhcpv6.MessageTypeRelayForward, net.ParseIP("2001:db8::1"), peer)
				if kk == 3 && lvl == 0 {
					rm.AddOption(dhcpv6.OptClientLinkLayerAddress(1, net.HardwareAddr(randBytes(r, 6))))
				}
				rm.AddOption(dhcpv6.OptInterfaceID([]byte("Ethernet1/2/3")))
				d = rm
			}
			return subj6(d)
		}, "relay6-eui64-peers-every-method")
	}
	// link-layer addresses of every hardware type and shape, wherever a message carries one (client link-layer option of the
	// innermost relay, DUID-LL / DUID-LLT client identifiers, alone or behind relays without the option): the helpers that
	// derive a MAC from them look at type, length and contents
	{
		hws := []iana.HWType{iana.HWTypeEthernet, iana.HWTypeIEEE802, iana.HWTypeEUI64, iana.HWTypeInfiniband, iana.HWTypeFibreChannel, 0, 65535}
		shapes := func(r *rand.Rand) [][]byte {
			a, b := randBytes(r, 3), randBytes(r, 3)
			return [][]byte{append(append([]byte(nil), a...), b...), // 48-bit
				append(append(append([]byte(nil), a...), 0xff, 0xfe), b...),       // 64-bit made from a 48-bit address
				append(append(append([]byte(nil), a...), 0xff, 0xff), b...),       // 64-bit made from an EUI-48
				randBytes(r, 8), randBytes(r, 20), randBytes(r, 16), {0xff, 0xff, 0xff, 0xff, 0xff, 0xff}, make([]byte, 6), randBytes(r, 1), {}}
		}
		nsh := len(shapes(rand.New(rand.NewSource(1))))
		for hi := range hws {
			for si := 0; si < nsh; si++ {
				for place := 0; place < 4; place++ {
					hw, sidx, pl := hws[hi], si, place
					allUses(func(r *rand.Rand) subject {
						addr := net.HardwareAddr(shapes(r)[sidx])
						inner := &dhcpv6.Message{MessageType: dhcpv6.MessageTypeSolicit}
						copy(inner.TransactionID[:], randBytes(r, 3))
						switch pl {
						case 0, 2:
							inner.AddOption(dhcpv6.OptClientID(&dhcpv6.DUIDLL{HWType: hw, LinkLayerAddr: append(net.HardwareAddr(nil), addr...)}))
						case 1:
							inner.AddOption(dhcpv6.OptClientID(&dhcpv6.DUIDLLT{HWType: hw, Time: 0x2a2a2a2a, LinkLayerAddr: append(net.HardwareAddr(nil), addr...)}))
						default:
							inner.AddOption(dhcpv6.OptClientID(&dhcpv6.DUIDEN{EnterpriseNumber: 9, EnterpriseIdentifier: []byte("x")}))
						}
						var d dhcpv6.DHCPv6 = inner
						if pl >= 2 {
							rm, _ := dhcpv6.EncapsulateRelay(d, dhcpv6.MessageTypeRelayForward, net.ParseIP("2001:db8::1"), net.ParseIP("fe80::1"))
							if pl == 3 {
								rm.AddOption(dhcpv6.OptClientLinkLayerAddress(hw, append(net.HardwareAddr(nil), addr...)))
							}
							d = rm
						}
						if r.Intn(2) == 0 { // as received
							if q, err := dhcpv6.FromBytes(d.ToBytes()); err == nil {
								return subj6(q)
							}
						}
						return subj6(d)
					}, "link-layer-address-shapes")
				}
			}
		}
	}
	// values as they come off the wire from other implementations: acceptable but not what this library would have
	// written (repeated request codes, compressed names, reserved bits, unsorted DHCPv4 areas), alone and behind relays -
	// a value that does not re-encode byte for byte is where a cached encoding and the fields can drift apart
	for k := 0; k < 8; k++ {
		kk := k
		exhaustive(func(r *rand.Rand) subject {
			w := []byte{byte(1 + kk%3), 9, 9, byte(kk)}
			w = append(w, 0, 6, 0, 8, 0, 23, 0, 24, 0, 23, 0, 23) // a request list naming a code three times
			names := []byte{3, 'f', 'o', 'o', 3, 'c', 'o', 'm', 0, 3, 'b', 'a', 'r', 0xc0, 4}
			w = append(append(w, 0, 24, 0, byte(len(names))), names...)
			w = append(w, 0, 39, 0, 6, 0xff, 1, 'h', 1, 'x', 0) // FQDN with reserved flag bits
			w = append(w, 0, 1, 0, 10, 0, 3, 0, 1, 2, 0, 0, 0, 0, 7)
			for hops := 0; hops < kk%3; hops++ {
				hdr := append(append([]byte{12, byte(hops)}, net.ParseIP("2001:db8::1")...), net.ParseIP("fe80::2ff:fe00:1")...)
				hdr = append(hdr, 0, 18, 0, 2, 'i', byte(hops), 0, 9, byte(len(w)>>8), byte(len(w)))
				w = append(hdr, w...)
			}
			d, err := dhcpv6.FromBytes(w)
			if err != nil {
				panic("harness: the non-canonical message must decode: " + err.Error())
			}
			return subj6(d)
		}, "decoded-noncanonical6-every-method")
		exhaustive(func(r *rand.Rand) subject {
			for {
				w, _ := wirePacket4(r)
				if q, err := dhcpv4.FromBytes(w); err == nil {
					return subj4(q)
				}
			}
		}, "decoded-noncanonical4-every-method")
	}
	// a value that is changed for a moment and put back (a name list rewritten while a template is filled in, an option
	// list tried with one more entry): whatever was read or printed while it was changed, once it is what it was it
	// encodes and prints as it did
	for k := 0; k < 16; k++ {
		wire := [][]byte{{3, 'f', 'o', 'o', 3, 'c', 'o', 'm', 0, 3, 'b', 'a', 'r', 0xc0, 4}, {4, 'h', 'o', 's', 't'}, {1, 'a', 0, 1, 'b', 0},
			{3, 'w', 'w', 'w', 7, 'e', 'x', 'a', 'm', 'p', 'l', 'e', 0, 2, 'f', 't', 0xc0, 4, 0xc0, 4}}[k%4]
		var s subject
		var names *[]string
		switch k / 4 {
		case 0:
			l, err := rfc1035label.FromBytes(append([]byte(nil), wire...))
			if err != nil {
				continue
			}
			s, names = subjLabels(l), &l.Labels
		case 1:
			opt, err := dhcpv6.ParseOption(dhcpv6.OptionDomainSearchList, wire)
			if err != nil {
				continue
			}
			m := &dhcpv6.Message{MessageType: dhcpv6.MessageTypeReply}
			m.AddOption(opt)
			s, names = subj6(m), &m.Options.DomainSearchList().Labels
		case 2:
			opt, err := dhcpv6.ParseOption(dhcpv6.OptionFQDN, append([]byte{1}, wire...))
			if err != nil {
				continue
			}
			s, names = subjOpt6(opt), &opt.(*dhcpv6.OptFQDN).DomainName.Labels
		default:
			p, _ := dhcpv4.New(dhcpv4.WithGeneric(dhcpv4.OptionDNSDomainSearchList, wire))
			q, err := dhcpv4.FromBytes(p.ToBytes())
			if err != nil || q.DomainSearch() == nil {
				continue
			}
			l := q.DomainSearch() // (the accessor decodes afresh: the packet is not touched by what follows)
			s, names = subjLabels(l), &l.Labels
		}
		if len(*names) == 0 {
			continue
		}
		ev := []any{safe(s.obs)}
		saved := append([]string(nil), (*names)...)
		(*names)[0] = "changed.for.a.moment"
		if k%2 == 0 {
			*names = append(*names, "one.more")
		}
		for _, r := range s.recv {
			for _, m := range readOnlyMethods(r) {
				callMethod(r, m) // (results while changed are nobody's business)
			}
		}
		s.enc()
		*names = append((*names)[:0], saved...)
		ev = append(ev, safe(s.obs), safe(s.obs))
		o.Emit(map[string]any{"proto": s.proto, "in": []int{}, "ev": ev}, "changed-and-put-back", append([]byte{byte(k)}, wire...), true)
	}
	// messages holding several instances of the same option type (accessors that merge or pick among them)
	for k := 0; k < 12; k++ {
		exhaustive(func(r *rand.Rand) subject {
			m := &dhcpv6.Message{MessageType: dhcpv6.MessageTypeRequest}
			copy(m.TransactionID[:], randBytes(r, 3))
			for _, c := range []int{6, 3, 25, 1, 23, 6, 16, 3, 6} {
				if r.Intn(3) > 0 {
					m.AddOption(randOpt6(r, c, 2))
				}
			}
			return subj6(m)
		}, "message6-duplicate-options-every-method")
	}
	for i := 0; i < n; i++ {
		switch i % 6 {
		case 0:
			p := randPacket4(rng, rng.Intn(8), []int{0, 1, 2, 4, 8, 16})
			if p.Options == nil {
				p.Options = dhcpv4.Options{}
			}
			run(subj4(p), "constructed-v4", p.ToBytes())
		case 1:
			w, _ := wirePacket4(rng)
			if p, err := dhcpv4.FromBytes(w); err == nil {
				run(subj4(p), "decoded-v4", w)
			}
		case 2:
			d := randMsg6(rng, 1+rng.Intn(3), pick(rng, 0, 0, 1, 2))
			run(subj6(d), "constructed-v6", d.ToBytes())
		case 3:
			w := randMsg6(rng, 2, rng.Intn(2)).ToBytes()
			if d, err := dhcpv6.FromBytes(w); err == nil {
				run(subj6(d), "decoded-v6", w)
			}
		case 4:
			op := randOpt6(rng, randCode6(rng), 2)
			run(subjOpt6(op), "standalone-opt6", op.ToBytes())
		default:
			op := standalone4(rng)
			run(subjOpt4(op), "standalone-opt4", append([]byte{op.Code.Code()}, op.Value.ToBytes()...))
		}
	}
	names := []string{}
	for k := range excluded {
		names = append(names, k)
	}
	o.extra = map[string]any{"excluded_method_prefixes": mutatorPrefixes}
}
