package main

import (
	"bufio"
	"encoding/json"
	"math/rand"
	"os"
	"strings"

	"github.com/insomniacslk/dhcp/dhcpv4"
)

func init() {
	gens["c06v4"] = genC06v4
	gens["c07"] = genC07
}

func toB(xs []int) []byte {
	b := make([]byte, len(xs))
	for i, x := range xs {
		b[i] = byte(x)
	}
	return b
}

// fix4 records decode -> encode -> decode -> encode of one input.
func fix4(o *Out, in []byte, cls string) {
	out, p := dec4(in)
	rec := map[string]any{"op": "Fix4", "in": B(in), "out": out, "b1": []int{}, "b2": []int{}, "out2": map[string]any{"ok": false}}
	if p != nil {
		b1, perr := enc4(p)
		if perr != nil {
			rec["out"] = map[string]any{"panic": perr}
		} else {
			rec["b1"] = B(b1)
			out2, p2 := dec4(b1)
			rec["out2"] = out2
			if p2 != nil {
				b2, perr2 := enc4(p2)
				if perr2 != nil {
					rec["out2"] = map[string]any{"panic": perr2}
				} else {
					rec["b2"] = B(b2)
				}
			}
		}
	}
	o.Emit(rec, cls, in, p != nil)
}

// overloadWires: packets that carry option 52 (the header's sname / file fields "hold options", RFC 2132 9.3 - the library
// does not interpret it: the fields stay names, the option stays an option) with fields shaped like option lists: well
// formed with End, without End, a second option that runs past the field, a plain name, empty; and the same fields
// without option 52
func overloadWires(rng *rand.Rand) [][]byte {
	var out [][]byte
	shapes := func(room int) [][]byte {
		host := []byte{12, 4, 'h', 'o', 's', 't'}
		return [][]byte{
			append(append([]byte{}, host...), 255),
			append(append(append([]byte{}, host...), 15, 3, 'l', 'a', 'n'), 255),
			append([]byte{}, host...),
			append(append([]byte{}, host...), 15, byte(room)),
			[]byte("pxelinux.0"),
			{255},
			{},
			append(append([]byte{0, 0}, host...), 255),
		}
	}
	for _, ov := range []int{-1, 1, 2, 3, 0, 4} {
		for si, sn := range shapes(64) {
			for fi, fn := range shapes(128) {
				if (si+fi+ov+8)%3 != 0 && si != fi {
					continue // a third of the cross product, the diagonal in full
				}
				w := append([]byte(nil), stdHeader4()...)
				copy(w[44:108], sn)
				copy(w[108:236], fn)
				w = append(w, 53, 1, 2, 12, 2, 'o', 'k')
				if ov >= 0 {
					w = append(w, 52, 1, byte(ov))
				}
				if rng.Intn(2) == 0 {
					w = append(w, 66, 4, 't', 'f', 't', 'p') // a TFTP server name option next to the fields
				}
				out = append(out, append(w, 255))
			}
		}
	}
	return out
}

// cookieWires: options areas in which the octets of the magic cookie (99 130 83 99) turn up again: as the first option (code
// 99 with 130 octets that begin 83 99), a second cookie in front of the options, the cookie inside a value, at the very end
func cookieWires(rng *rand.Rand) [][]byte {
	var out [][]byte
	hdr := stdHeader4()
	val := append([]byte{83, 99}, randBytes(rng, 128)...)
	out = append(out, append(append(append([]byte(nil), hdr...), append([]byte{99, 130}, val...)...), 53, 1, 5, 255))
	out = append(out, append(append(append([]byte(nil), hdr...), append([]byte{99, 130}, val...)...), 255))
	out = append(out, append(append([]byte(nil), hdr...), 99, 130, 83, 99, 53, 1, 5, 255)) // (the option overruns: not a packet)
	out = append(out, append(append([]byte(nil), hdr...), 53, 1, 5, 43, 4, 99, 130, 83, 99, 255))
	out = append(out, append(append([]byte(nil), hdr...), 53, 1, 5, 255, 99, 130, 83, 99))
	out = append(out, append(append([]byte(nil), hdr...), 99, 2, 83, 99, 255))
	out = append(out, append(append([]byte(nil), hdr...), 99, 0, 130, 0, 83, 0, 99, 0, 255))
	// what a BOOTP server of before RFC 1497 sends: the 236-octet header and a vendor area of zeroes - no cookie, at the BOOTP
	// minimum of 300 octets and at other sizes, as request and as reply, with and without an address in yiaddr
	for _, op := range []byte{1, 2} {
		for _, n := range []int{236, 240, 299, 300, 301, 364, 548} {
			w := append([]byte(nil), hdr[:236]...)
			w[0] = op
			if n%2 == 0 {
				copy(w[16:20], []byte{192, 0, 2, 9})
			}
			out = append(out, append(w, make([]byte, n-236)...))
		}
	}
	return out
}

func genC06v4(o *Out, rng *rand.Rand, tier string) {
	for _, w := range cookieWires(rng) {
		fix4(o, w, "cookie-octets-among-the-options")
	}
	for _, w := range overloadWires(rng) {
		fix4(o, w, "option-overload-fields")
	}
	maxLen, n := 5, 1200
	if tier == "thorough" {
		maxLen, n = 6, 20000
	}
	hdr := stdHeader4()
	// exhaustive small scope (accepted ones are the interesting subset; rejected ones are checked for agreement only)
	alpha := []byte{0, 1, 2, 3, 82, 255}
	var rec func(cur []byte)
	rec = func(cur []byte) {
		if len(cur) > 0 && cur[len(cur)-1] == 255 || len(cur) == 0 {
			fix4(o, append(append([]byte(nil), hdr...), cur...), "exhaustive-area")
		}
		if len(cur) == maxLen {
			return
		}
		for _, a := range alpha {
			rec(append(cur, a))
		}
	}
	rec(nil)
	// every hardware type of the registry (and a few outside it) with every hardware address length worth a thought:
	// the header is read the same way whatever the link is (chaddr = the first min(hlen,16) bytes)
	{
		htypes := []int{0, 1, 2, 6, 7, 15, 16, 18, 20, 23, 24, 27, 31, 32, 33, 37, 38, 100, 254, 255}
		hlens := []int{0, 1, 2, 4, 5, 6, 7, 8, 12, 15, 16, 17, 20, 21, 32, 64, 128, 255}
		for _, ht := range htypes {
			for _, hl := range hlens {
				w := append([]byte(nil), hdr...)
				w[1], w[2] = byte(ht), byte(hl)
				for i := 28; i < 44; i++ {
					w[i] = byte(0xa0 + i)
				}
				w = append(w, 53, 1, byte(1+(ht+hl)%8), 61, 3, 1, byte(ht), byte(hl), 255)
				fix4(o, w, "hardware-type-by-address-length")
			}
		}
	}
	// a dozen and more instances of a few codes in arbitrary order
	for _, cnt := range []int{12, 13, 14, 20, 40, 100} {
		for rep := 0; rep < 2; rep++ {
			w := append([]byte(nil), hdr...)
			for k := 0; k < cnt; k++ {
				code := []byte{43, 60, 82, 1, 43, 200}[rng.Intn(6)]
				n := 1 + rng.Intn(4)
				w = append(w, code, byte(n))
				for j := 0; j < n; j++ {
					w = append(w, byte(k*8+j))
				}
			}
			fix4(o, append(w, 255), "many-instances-mixed")
		}
	}
	// packets as the protocol means them (message types, boot options, structured values, empty options): received,
	// forwarded, received again
	meaningfulPackets(rng, func(p *dhcpv4.DHCPv4) {
		if w, perr := enc4(p); perr == nil {
			fix4(o, w, "meaningful-packets")
		}
	})
	for i := 0; i < n; i++ {
		switch i % 4 {
		case 0: // unsorted / split / padded areas, garbage after End, odd hlen, names without NUL
			w, _ := wirePacket4(rng)
			fix4(o, w, "noncanonical")
		case 1: // a long value split into unequal instances, interleaved with another code
			p := randPacket4(rng, 0, nil)
			p.Options = dhcpv4.Options{}
			w := p.ToBytes()[:240]
			v := randBytes(rng, pick(rng, 10, 255, 256, 400, 700))
			for len(v) > 0 {
				k := 1 + rng.Intn(len(v))
				if k > 255 {
					k = 255
				}
				w = append(w, 7, byte(k))
				w = append(w, v[:k]...)
				v = v[k:]
				if rng.Intn(2) == 0 {
					w = append(w, 0, 9, 1, byte(rng.Intn(256)))
				}
			}
			w = append(w, 255)
			fix4(o, w, "split-interleaved")
		case 2:
			p := randPacket4(rng, rng.Intn(6), boundaryLens[:12])
			fix4(o, p.ToBytes(), "canonical")
		default:
			w, _ := wirePacket4(rng)
			w[240+rng.Intn(len(w)-240)] = byte(rng.Intn(256))
			fix4(o, w, "mutated")
		}
	}
}

// genC07 replays op sequences chosen by TLC (CASE lines of MC_Dhcp4Ops) through the real
// packet API and records the resulting contents and encoding. File name in VH_CASES.
func genC07(o *Out, rng *rand.Rand, tier string) {
	path := os.Getenv("VH_CASES")
	reps := 20
	if path != "" {
		f, err := os.Open(path)
		if err != nil {
			panic(err)
		}
		sc := bufio.NewScanner(f)
		sc.Buffer(make([]byte, 1<<20), 1<<26)
		for sc.Scan() {
			line := sc.Text()
			i := strings.Index(line, "{")
			if i < 0 {
				continue
			}
			var c struct {
				Ops  [][]json.RawMessage `json:"ops"`
				Opts []struct {
					C int   `json:"c"`
					V []int `json:"v"`
				} `json:"opts"`
			}
			if err := json.Unmarshal([]byte(line[i:]), &c); err != nil {
				panic(err)
			}
			p := randPacket4(rng, 0, nil)
			if rng.Intn(2) == 0 {
				p.Options = nil // UpdateOption must cope with a nil map
			} else {
				p.Options = dhcpv4.Options{}
			}
			opsDesc := []any{}
			for _, op := range c.Ops {
				var kind string
				var code int
				json.Unmarshal(op[0], &kind)
				json.Unmarshal(op[1], &code)
				if kind == "U" {
					var v []int
					json.Unmarshal(op[2], &v)
					opt := dhcpv4.OptGeneric(dhcpv4.GenericOptionCode(code), toB(v))
					how := rng.Intn(3)
					if p.Options == nil && how == 2 {
						how = 0
					}
					switch how {
					case 0:
						p.UpdateOption(opt)
					case 1:
						dhcpv4.WithOption(opt)(p)
					default:
						p.Options.Update(opt)
					}
					opsDesc = append(opsDesc, []any{"U", code, len(v), how})
				} else {
					how := rng.Intn(2)
					if p.Options == nil {
						how = 0
					}
					if how == 0 {
						p.DeleteOption(dhcpv4.GenericOptionCode(code))
					} else {
						dhcpv4.WithoutOption(dhcpv4.GenericOptionCode(code))(p)
					}
					opsDesc = append(opsDesc, []any{"D", code, how})
				}
			}
			if p.Options == nil {
				p.Options = dhcpv4.Options{}
			}
			first, _ := enc4(p) // kept while other messages are encoded
			distinct := 1
			for r := 1; r < reps; r++ {
				if string(p.ToBytes()) != string(first) {
					distinct++
					break
				}
			}
			expect := make([]map[string]any, 0, len(c.Opts))
			for _, e := range c.Opts {
				expect = append(expect, map[string]any{"c": e.C, "v": e.V})
			}
			key, _ := json.Marshal(opsDesc)
			o.Emit(map[string]any{"op": "Ops4", "ops": opsDesc, "val": proj4(p), "wire": B(first), "expect": expect, "nenc": distinct},
				"tlc-op-sequence", key, len(c.Ops) >= 2)
		}
		f.Close()
	}
	// random values of the C01 domain, encoded 20 times each
	n := 600
	if tier == "thorough" {
		n = 8000
	}
	// a packet is not changed by what is done to packets derived from it: a reply that echoes its options, a copy
	// of its option map, each then given new values for the shared codes
	for i := 0; i < n/3; i++ {
		p := randPacket4(rng, rng.Intn(4), []int{0, 1, 4, 8})
		if p.Options == nil {
			p.Options = dhcpv4.Options{}
		}
		callerBuf := map[uint8][]byte{}
		for _, c := range []uint8{61, 82, 54, uint8(1 + rng.Intn(254))} {
			callerBuf[c] = randBytes(rng, 1+rng.Intn(12))
			p.UpdateOption(dhcpv4.OptGeneric(dhcpv4.GenericOptionCode(c), callerBuf[c])) // the stored value is the caller's slice
		}
		before := map[uint8]string{}
		for c, b := range callerBuf {
			before[c] = string(b)
		}
		val := proj4(p)
		first, _ := enc4(p)
		distinct := 1
		derived := []*dhcpv4.DHCPv4{}
		if r, err := dhcpv4.NewReplyFromRequest(p); err == nil {
			derived = append(derived, r)
		}
		if r, err := dhcpv4.NewRequestFromOffer(p); err == nil {
			derived = append(derived, r)
		}
		cp := *p
		cp.Options = dhcpv4.Options{}
		for c, v := range p.Options {
			cp.Options[c] = v
		}
		derived = append(derived, &cp)
		for _, d := range derived {
			for c := range callerBuf {
				if old, ok := d.Options[c]; ok && len(old) > 0 {
					d.UpdateOption(dhcpv4.OptGeneric(dhcpv4.GenericOptionCode(c), randBytes(rng, 1+rng.Intn(len(old)))))
				}
			}
		}
		if string(p.ToBytes()) != string(first) {
			distinct++
		}
		for c, b := range callerBuf {
			if string(b) != before[c] {
				distinct++ // the caller's own buffer was written to
			}
		}
		o.Emit(map[string]any{"op": "Enc4", "val": val, "wire": B(p.ToBytes()), "nenc": distinct}, "derived-packets-updated", first, true)
	}
	var special []*dhcpv4.DHCPv4
	hwAndIdentifier(rng, func(p *dhcpv4.DHCPv4) { special = append(special, p) })
	// callers that terminate or pad the option list themselves (code ported from APIs where that was the caller's job): the
	// markers are not options; the encoding has its one End option all the same
	for k := 0; k < 12; k++ {
		p := randPacket4(rng, 1+rng.Intn(4), []int{0, 1, 4, 8})
		if p.Options == nil {
			p.Options = dhcpv4.Options{}
		}
		if k%3 != 1 {
			p.UpdateOption(dhcpv4.OptGeneric(dhcpv4.OptionEnd, nil))
		}
		if k%3 != 0 {
			p.UpdateOption(dhcpv4.OptGeneric(dhcpv4.OptionPad, []byte{}))
		}
		special = append(special, p)
	}
	for i := 0; i < n+len(special); i++ {
		var p *dhcpv4.DHCPv4
		if i < len(special) {
			p = special[i]
		} else {
			p = randPacket4(rng, rng.Intn(9), boundaryLens[:12])
		}
		if p.Options == nil {
			p.Options = dhcpv4.Options{}
		}
		first, _ := enc4(p) // kept while other messages are encoded
		distinct := 1
		for r := 1; r < reps; r++ {
			if string(p.ToBytes()) != string(first) {
				distinct++
				break
			}
		}
		// same contents built in a different insertion order must encode identically
		q := *p
		q.Options = dhcpv4.Options{}
		codes := make([]int, 0, len(p.Options))
		for c := range p.Options {
			codes = append(codes, int(c))
		}
		rng.Shuffle(len(codes), func(a, b int) { codes[a], codes[b] = codes[b], codes[a] })
		for _, c := range codes {
			q.UpdateOption(dhcpv4.OptGeneric(dhcpv4.GenericOptionCode(c), p.Options[uint8(c)]))
		}
		if string(q.ToBytes()) != string(first) {
			distinct++
		}
		o.Emit(map[string]any{"op": "Enc4", "val": proj4(p), "wire": B(first), "nenc": distinct}, "random-value", first, len(p.Options) >= 2)
	}
}
