// Package clientsim drives the real nclient4 / nclient6 clients under a gate
// scheduler inside a testing/synctest bubble and records what they do as a
// sequence of specification-level actions (spec/Client.tla). It never judges
// the behaviour: TLC does (spec/trace/Trace_Client.tla).
package clientsim

import (
	"context"
	"encoding/json"
	"errors"
	"fmt"
	"io"
	"math/rand"
	"net"
	"os"
	"runtime"
	"strconv"
	"strings"
	"sync"
	"sync/atomic"
	"syscall"
	"testing/synctest"
	"time"
)

const unit = 10 * time.Millisecond

// Cfg is the per-trace configuration (cfg of Client.tla).
type Cfg struct {
	T       int    `json:"T"`      // base timeout in units
	Tries   int    `json:"tries"`  // WithRetry value
	BufCap  int    `json:"bufcap"` // per-transaction channel capacity
	V4      bool   `json:"v4"`
	Xid     []int  `json:"xid"` // per caller (index 0 = caller 1)
	Urgent  bool   `json:"urgent"`
	Timed   bool   `json:"timed"`
	Mode    string `json:"mode"`
	NilMatch bool  `json:"nilmatch"` // callers pass a nil matcher
	CtxDeadline []int `json:"-"` // per caller: context deadline in units after the start of the run (0 = none)
	CtxBackground []bool `json:"-"` // per caller: the call is made with context.Background() (it cannot be cancelled: Done() is nil)
	MsgType int    `json:"-"`      // message type of the request (0: the builder's default)
	CloseErr bool  `json:"-"`      // the connection's Close reports an error (and closes all the same)
	Log     int    `json:"-"`      // client logging option: 0 none, 1 summary, 2 debug, 3 dropped-packets (v6) / custom logger (v4)
	WFault  bool   `json:"wfault"` // the schedule may take the link down: writes fail while it is down
	ErrKind int    `json:"-"`      // what a failed write returns: 0 plain error, 1 temporary net.Error, 2 timeout net.Error
	Dest    int    `json:"-"`      // destination variant (broadcast / unicast / scoped link-local / scoped multicast)
	BigReq  int    `json:"-"`      // octets of vendor information added to the request (0: none): requests beyond one Ethernet frame
	High    int    `json:"-"`      // > 0: the callers use a call built on SendAndRead (which one: see the High methods) instead of SendAndRead itself
	XidMap  int    `json:"-"`      // how the transaction ids appear on the wire (ordinary values, all zeroes / all ones)
	RFault  bool   `json:"rfault"` // the schedule may make a read on the open connection fail
	ReadErrKind int `json:"-"`     // what ReadFrom returns once the connection is closed, and what a failed read on the open connection returns
	Raw     bool   `json:"-"`      // DHCPv4 only: the client runs over its raw-socket layer (BroadcastRawUDPConn): datagrams arrive and leave as IPv4/UDP frames
}

type dgram struct {
	id   int
	pid  int // the datagram whose bytes this one carries (its own id, or an earlier datagram's: a duplicate on the wire)
	xid  int
	kind string
	b    []byte
}

// clientAPI hides the difference between nclient4 and nclient6.
type clientAPI interface {
	// Call runs SendAndRead for transaction xid; verdict is asked for every packet handed to the matcher.
	Call(ctx context.Context, xid int, verdict func(id int, isNil bool) bool, nilMatch bool, onReq func([]byte)) (id int, isNil bool, err error)
	IDOf(p any) int
	Prepare(ctx context.Context, xid int, verdict func(id int, isNil bool) bool, nilMatch bool, onReq func([]byte)) func() (int, bool, error)
	// Fire: a one-shot transmission that expects no answer through the client (nclient4.Release); ok=false: no such call in this API
	Fire(xid int) (dest *net.UDPAddr, call func() error, ok bool)
	// High: one of the library's calls built on SendAndRead (DiscoverOffer, Inform, Solicit, ...), with the transaction id given
	High(ctx context.Context, xid int, kind int) (dest *net.UDPAddr, call func() error)
	Close() error
	Classify(err error) string
	Datagram(id, xid int, kind string) []byte
}

type rawEvent struct {
	role string
	ev   string
	args []any
	t    int
}

type Sim struct {
	cfg   Cfg
	rng   *rand.Rand
	api   clientAPI
	conn  *fakeConn
	epoch time.Time

	mu     sync.Mutex
	raw    []rawEvent
	parked map[string]string
	gates  map[string]chan struct{}
	roles  map[uint64]string
	entIDs map[any]int
	nEnt   int

	trace   []map[string]any
	dgrams  []*dgram
	ctxs    []context.Context
	cancels []context.CancelFunc
	started []bool
	retd    []bool
	ctxDone []bool
	closeState string // "", "started", "done", "returned"
	loopHolds  bool
	loopExited bool
	needProceed map[string]bool
	pendingRx   *rawEvent
	removed     map[string]int
	firstTx     map[string][]byte
	want        map[string][]byte
	crashed     string
	gated       bool
	free        bool // free-running: hooks record, goroutines are never held (real parallelism)
	goFlag      atomic.Bool
	ready       sync.WaitGroup
	ncalls      []int // calls made so far per caller
	callerEnt   map[string]int  // per role: the entry its current try registered
	firing      map[string]bool // roles whose current call is a one-shot transmission
	curRx       int             // the datagram the receive loop is working on
	entQ        map[int][]int   // per entry: the datagrams delivered to its channel and not yet taken out, in order
	lastWoken   map[string]int  // per role: the datagram its last receive wake-up took out
	closeIn     map[string]bool // roles whose next matcher invocation calls Close before it answers
	readFaults  int
}

var gateEvents = map[string]bool{"SendPreLock": true, "SendPreTx": true, "Wake": true, "CancelPre": true,
	"CancelPreLock": true, "LoopPreLock": true, "CloseDonePre": true}

func goid() uint64 {
	var buf [64]byte
	n := runtime.Stack(buf[:], false)
	f := strings.Fields(string(buf[:n]))
	id, _ := strconv.ParseUint(f[1], 10, 64)
	return id
}

func (s *Sim) now() int { return int(time.Since(s.epoch) / unit) }

func (s *Sim) roleOf(ev string) string { return s.roleOfG(goid()) }

func (s *Sim) roleOfG(g uint64) string {
	if r, ok := s.roles[g]; ok {
		return r
	}
	r := "loop"
	s.roles[g] = r
	return r
}

// hook is installed as VerifHook of the client package under test.
func (s *Sim) hook(ev string, args ...any) {
	if !s.gated {
		return
	}
	if s.free && (ev == "SendPreLock" || ev == "SendPreTx" || ev == "LoopPreLock") {
		return // pure park positions: nothing to record when nobody is parked
	}
	g := goid() // outside the harness mutex: keeps the hook from serialising the callers
	s.mu.Lock()
	role := s.roleOfG(g)
	s.raw = append(s.raw, rawEvent{role: role, ev: ev, args: args, t: s.now()})
	var ch chan struct{}
	if gateEvents[ev] && !s.free {
		s.parked[role] = ev
		ch = s.gates[role]
		if ch == nil {
			ch = make(chan struct{})
			s.gates[role] = ch
		}
	}
	s.mu.Unlock()
	if ch != nil {
		<-ch
	}
}

// progress counts recorded events of all runs: the real-time watchdog of TestSim reads it
var progress atomic.Int64

// how often the schedulers used the rarer environment actions (reported with the run's statistics)
var nCloseFrom, nReadFault atomic.Int64

func (s *Sim) record(role, ev string, args ...any) {
	progress.Add(1)
	s.mu.Lock()
	s.raw = append(s.raw, rawEvent{role: role, ev: ev, args: args, t: s.now()})
	s.mu.Unlock()
}

func (s *Sim) emit(a string, kv ...any) {
	m := map[string]any{"a": a, "t": s.now()}
	for i := 0; i+1 < len(kv); i += 2 {
		m[kv[i].(string)] = kv[i+1]
	}
	s.trace = append(s.trace, m)
}

// entID maps an entry's channel to the entry number (order of registration). Addresses can be
// reused by the allocator once an entry is dead, so a registration always takes a fresh number.
func (s *Sim) entID(p any) int {
	if id, ok := s.entIDs[fmt.Sprintf("%p", p)]; ok {
		return id
	}
	return -1
}

func (s *Sim) newEntID(p any) int {
	s.nEnt++
	s.entIDs[fmt.Sprintf("%p", p)] = s.nEnt
	return s.nEnt
}

func callerNum(role string) int {
	n, _ := strconv.Atoi(strings.TrimPrefix(role, "c"))
	return n
}

// drain converts the raw hook records of the last window into specification actions;
// the records of the goroutine that was released come first (they causally precede
// what the goroutines it woke up did).
func (s *Sim) drain(released string) {
	s.mu.Lock()
	raw := s.raw
	s.raw = nil
	s.mu.Unlock()
	var first, rest []rawEvent
	for _, e := range raw {
		if e.role == released && !s.free {
			first = append(first, e)
		} else {
			rest = append(rest, e)
		}
	}
	for _, e := range append(first, rest...) {
		s.normalize(e)
	}
}

func (s *Sim) normalize(e rawEvent) {
	c := callerNum(e.role)
	add := func(a string, kv ...any) {
		m := map[string]any{"a": a, "t": e.t}
		for i := 0; i+1 < len(kv); i += 2 {
			m[kv[i].(string)] = kv[i+1]
		}
		s.trace = append(s.trace, m)
	}
	if e.role == "loop" && s.pendingRx != nil && e.ev != "LoopDrop" {
		add("LoopRead", "d", s.pendingRx.args[0], "drop", "")
		s.curRx = s.pendingRx.args[0].(int)
		s.pendingRx = nil
	}
	switch e.ev {
	case "SendRegistered":
		id := s.newEntID(e.args[1])
		s.callerEnt[e.role] = id
		add("SendLock", "c", c, "outcome", "registered", "ent", id)
	case "SendRefused":
		add("SendLock", "c", c, "outcome", "refused", "ent", 0)
	case "Tx":
		if s.firing[e.role] {
			add("Fire", "c", c, "ok", true, "destok", e.args[1].(bool))
			break
		}
		b := e.args[0].([]byte)
		same := true
		if f, ok := s.firstTx[e.role]; ok {
			same = string(f) == string(b)
		} else {
			s.firstTx[e.role] = b
		}
		if w, ok := s.want[e.role]; ok && string(w) != string(b) {
			same = false
		}
		add("Transmit", "c", c, "ok", true, "destok", e.args[1].(bool), "same", same)
	case "TxErr":
		if s.firing[e.role] {
			add("Fire", "c", c, "ok", false, "destok", true)
			break
		}
		add("Transmit", "c", c, "ok", false, "destok", true, "same", true)
	case "Wake":
		reason := e.args[0].(string)
		d := 0
		if reason == "recv" {
			// which datagram: the head of this entry's channel (channels are FIFO); its bytes must be that datagram's
			d = s.api.IDOf(e.args[1])
			ent := s.callerEnt[e.role]
			if q := s.entQ[ent]; len(q) > 0 && d > 0 {
				head := q[0]
				s.entQ[ent] = q[1:]
				if s.dgrams[head-1].pid == d {
					d = head
				} else {
					d = -1 // not the bytes of the datagram that was delivered first
				}
			}
			s.lastWoken[e.role] = d
		} else {
			s.needProceed[e.role] = true
		}
		add("Wake", "c", c, "reason", reason, "d", d)
	case "Match":
		add("Proceed", "c", c, "acc", e.args[1])
	case "CancelPre":
		if s.needProceed[e.role] {
			s.needProceed[e.role] = false
			add("Proceed", "c", c, "acc", false)
		}
	case "CancelPreLock":
		add("CancelDone", "c", c)
	case "CancelRemoved":
		s.removed[e.role] = s.entID(e.args[1])
	case "CancelLockEnd":
		add("CancelLock", "c", c, "removed", s.removed[e.role])
		s.removed[e.role] = 0
	case "Return":
		if e.args[0] == "msg" { // the datagram returned: the one the last wake-up took out, if it carries those bytes
			if w := s.lastWoken[e.role]; w > 0 && s.dgrams[w-1].pid == e.args[1].(int) {
				e.args[1] = w
			} else if e.args[1].(int) > 0 {
				e.args[1] = -1
			}
		}
		s.retd[c-1] = true
		s.firing[e.role] = false
		s.conn.mu.Lock()
		delete(s.conn.destFor, e.role)
		s.conn.mu.Unlock()
		add("Return", "c", c, "res", e.args[0], "d", e.args[1])
	case "Rx":
		ee := e
		s.pendingRx = &ee
	case "LoopDrop":
		d := 0
		if s.pendingRx != nil {
			d = s.pendingRx.args[0].(int)
			s.pendingRx = nil
		}
		add("LoopRead", "d", d, "drop", e.args[0])
	case "LoopLocked":
		s.loopHolds = e.args[1].(bool)
		add("LoopLock", "found", e.args[1])
	case "LoopDelivered":
		s.loopHolds = false
		ent := s.entID(e.args[1])
		s.entQ[ent] = append(s.entQ[ent], s.curRx)
		add("LoopSelSend", "ent", ent)
	case "LoopCloseEntry":
		s.loopHolds = false
		add("LoopSelDone", "ent", s.entID(e.args[1]))
	case "LoopExit":
		s.loopExited = true
		s.conn.mu.Lock()
		fault := s.conn.lastErrOpen // the read that ended the loop failed on an open connection
		s.conn.mu.Unlock()
		add("LoopExit", "fault", fault)
	case "ConnClose":
		s.closeState = "started"
		add("CloseStart")
	case "CloseReturn":
		s.closeState = "returned"
		add("CloseReturn")
	case "Panic":
		s.crashed = fmt.Sprint(e.args[0])
		add("Crash", "who", e.role, "what", fmt.Sprint(e.args[0]))
	case "CloseDonePre":
		if s.free { // not a gate in free-running mode: the record itself marks close(c.done)
			s.closeState = "done"
			add("CloseDone")
		}
	case "SendPreLock", "SendPreTx", "LoopPreLock":
		// park positions only
	default:
		add("Unknown", "ev", e.ev)
	}
}

// ---------------------------------------------------------------- operations

func (s *Sim) wait(released string) {
	synctest.Wait()
	s.drain(released)
}

func (s *Sim) parkedAt(role string) string {
	s.mu.Lock()
	defer s.mu.Unlock()
	return s.parked[role]
}

// releasable reports whether releasing role now cannot block non-durably (on the mutex).
func (s *Sim) releasable(role string) bool {
	g := s.parkedAt(role)
	if g == "" {
		return false
	}
	if (g == "SendPreLock" || g == "CancelPreLock" || g == "LoopPreLock") && s.loopHolds {
		return false
	}
	return true
}

func (s *Sim) release(role string) {
	s.mu.Lock()
	g := s.parked[role]
	delete(s.parked, role)
	ch := s.gates[role]
	s.mu.Unlock()
	if g == "" {
		return
	}
	if g == "CloseDonePre" {
		s.closeState = "done"
		s.emit("CloseDone")
	}
	ch <- struct{}{}
	s.wait(role)
}

func (s *Sim) start(c int) {
	role := "c" + strconv.Itoa(c)
	if s.started[c-1] {
		// the same caller calls again on the same client: fresh context, nothing kept from the previous call
		s.emit("Again", "c", c)
		s.retd[c-1] = false
		s.ctxDone[c-1] = false
		s.ctxs[c-1], s.cancels[c-1] = context.WithCancel(context.Background())
		if (c+s.ncalls[c-1]+s.cfg.ReadErrKind)%3 == 1 { // a context with a cause of its own
			c2, cc := context.WithCancelCause(context.Background())
			s.ctxs[c-1], s.cancels[c-1] = c2, func() { cc(errors.New("the operator gave up")) }
		}
		s.mu.Lock()
		delete(s.firstTx, role)
		delete(s.want, role)
		delete(s.parked, role)
		s.mu.Unlock()
		s.needProceed[role] = false
	}
	s.started[c-1] = true
	s.ncalls[c-1]++
	s.emit("Start", "c", c)
	xid := s.cfg.Xid[c-1]
	ctx := s.ctxs[c-1]
	if s.cfg.High > 0 {
		dest, call := s.api.High(ctx, xid, s.cfg.High)
		s.conn.mu.Lock()
		s.conn.destFor[role] = dest
		s.conn.mu.Unlock()
		go func() {
			s.mu.Lock()
			s.roles[goid()] = role
			s.mu.Unlock()
			defer func() {
				if r := recover(); r != nil {
					s.record(role, "Panic", r)
					s.record(role, "Return", "panic", 0)
				}
			}()
			res := "msg"
			if err := call(); err != nil {
				res = s.api.Classify(err)
			}
			s.record(role, "Return", res, 0)
		}()
		s.wait(role)
		return
	}
	go func() {
		s.mu.Lock()
		s.roles[goid()] = role
		s.mu.Unlock()
		defer func() {
			if r := recover(); r != nil {
				s.record(role, "Panic", r)
				s.record(role, "Return", "panic", 0)
			}
		}()
		id, isNil, err := s.api.Call(ctx, xid, func(id int, isNil bool) bool {
			acc := isNil
			if !isNil {
				acc = s.dgrams[id-1].kind == "good"
			}
			s.mu.Lock()
			reenter := s.closeIn[role]
			delete(s.closeIn, role)
			s.mu.Unlock()
			if reenter {
				// the matcher has seen enough and shuts the client down from inside the call: Close returns all the same
				s.api.Close()
				s.record("closer", "CloseReturn")
			}
			s.record(role, "Match", id, acc)
			return acc
		}, s.cfg.NilMatch, func(b []byte) {
			s.mu.Lock()
			s.want[role] = b
			s.mu.Unlock()
		})
		res := "msg"
		switch {
		case err != nil:
			res = s.api.Classify(err)
			id = 0
		case isNil:
			res = "nil"
			id = 0
		}
		s.record(role, "Return", res, id)
	}()
	s.wait(role)
}

// fire: caller c gives a lease back (nclient4.Release): one datagram to the lease's server, nothing to wait for
func (s *Sim) fire(c int) bool {
	role := "c" + strconv.Itoa(c)
	dest, call, ok := s.api.Fire(s.cfg.Xid[c-1])
	if !ok {
		return false
	}
	if s.started[c-1] {
		s.emit("Again", "c", c)
		s.retd[c-1] = false
		s.ctxDone[c-1] = false
		s.mu.Lock()
		delete(s.parked, role)
		s.mu.Unlock()
	}
	s.started[c-1] = true
	s.ncalls[c-1]++
	s.firing[role] = true
	s.conn.mu.Lock()
	s.conn.destFor[role] = dest
	s.conn.mu.Unlock()
	go func() {
		s.mu.Lock()
		s.roles[goid()] = role
		s.mu.Unlock()
		defer func() {
			if r := recover(); r != nil {
				s.record(role, "Panic", r)
				s.record(role, "Return", "panic", 0)
			}
		}()
		err := call()
		res := "fired"
		if err != nil {
			res = "writeerr" // the write is all a Release does: its error is the connection's
		}
		s.record(role, "Return", res, 0)
	}()
	s.wait(role)
	return true
}

// injectDup: a datagram already seen arrives again, byte for byte (networks and relays duplicate)
func (s *Sim) injectDup(orig int) {
	o := s.dgrams[orig-1]
	id := len(s.dgrams) + 1
	d := &dgram{id: id, pid: o.pid, xid: o.xid, kind: o.kind, b: append([]byte(nil), o.b...)}
	s.dgrams = append(s.dgrams, d)
	s.emit("Inject", "d", id, "xid", d.xid, "kind", d.kind)
	s.conn.push(d)
	s.wait("loop")
}

func (s *Sim) inject(xid int, kind string) {
	id := len(s.dgrams) + 1
	d := &dgram{id: id, pid: id, xid: xid, kind: kind, b: s.api.Datagram(id, xid, kind)}
	s.dgrams = append(s.dgrams, d)
	s.emit("Inject", "d", id, "xid", xid, "kind", kind)
	s.conn.push(d)
	s.wait("loop")
}

func (s *Sim) uncancellable(c int) bool {
	return c-1 < len(s.cfg.CtxBackground) && s.cfg.CtxBackground[c-1] && s.ncalls[c-1] <= 1
}

func (s *Sim) ctxCancel(c int) {
	if s.ctxDone[c-1] || s.uncancellable(c) {
		return
	}
	s.ctxDone[c-1] = true
	s.emit("CtxCancel", "c", c)
	s.cancels[c-1]()
	s.wait("c" + strconv.Itoa(c))
}

func (s *Sim) closeStart() {
	if s.closeState != "" {
		return
	}
	s.closeState = "starting"
	go func() {
		s.mu.Lock()
		s.roles[goid()] = "closer"
		s.mu.Unlock()
		s.api.Close()
		s.record("closer", "CloseReturn")
	}()
	s.wait("closer")
}

// canCloseFrom: caller c has just taken a datagram out of its channel and is about to hand it to its matcher, Close has not
// been called, and the receive loop sits in ReadFrom (it carries no datagram that it could still want to deliver)
func (s *Sim) canCloseFrom(role string) bool {
	return s.closeState == "" && !s.cfg.NilMatch && s.parkedAt(role) == "Wake" && !s.needProceed[role] && s.lastWoken[role] > 0 &&
		s.parkedAt("loop") == "" && !s.loopHolds && s.pendingRx == nil
}

// closeFrom: the next thing caller role does is call Close from its matcher
func (s *Sim) closeFrom(role string) {
	nCloseFrom.Add(1)
	s.closeState = "starting"
	s.mu.Lock()
	s.closeIn[role] = true
	s.mu.Unlock()
	s.release(role)
}

// readFault: the next ReadFrom on the open connection (the one the loop is blocked in, if it is) fails
func (s *Sim) readFault() {
	nReadFault.Add(1)
	s.readFaults++
	s.conn.mu.Lock()
	s.conn.readFail = true
	s.conn.mu.Unlock()
	select {
	case s.conn.wake <- struct{}{}:
	default:
	}
	s.wait("loop")
}

// closeAgain: Close is called once more (by another owner of the client, by a deferred call): it must come back at once,
// whatever the first Close is doing
func (s *Sim) closeAgain() {
	if s.closeState == "" {
		return
	}
	done := make(chan struct{})
	go func() {
		s.mu.Lock()
		s.roles[goid()] = "closer2"
		s.mu.Unlock()
		defer close(done)
		defer func() {
			if r := recover(); r != nil {
				s.record("closer2", "Panic", r)
			}
		}()
		s.api.Close()
	}()
	synctest.Wait()
	returned := false
	select {
	case <-done:
		returned = true
	default:
	}
	s.emit("CloseAgain", "returned", returned)
	s.drain("closer2")
}

func (s *Sim) tick() {
	time.Sleep(unit)
	s.emit("Tick")
	synctest.Wait() // every timer of this instant has fired
	for c := range s.ctxs { // contexts that ended by their own deadline at this instant
		if !s.ctxDone[c] && s.ctxs[c].Err() != nil {
			s.ctxDone[c] = true
			s.emit("CtxCancel", "c", c+1)
		}
	}
	s.drain("")
}

func (s *Sim) roleList() []string {
	rs := []string{"loop", "closer"}
	for i := range s.cfg.Xid {
		rs = append(rs, "c"+strconv.Itoa(i+1))
	}
	return rs
}

func (s *Sim) releasableRoles() []string {
	var out []string
	for _, r := range s.roleList() {
		if s.releasable(r) {
			out = append(out, r)
		}
	}
	return out
}

func (s *Sim) allReturned() bool {
	for i := range s.started {
		if s.started[i] && !s.retd[i] {
			return false
		}
	}
	return true
}

// finish drives everything to completion (urgent policy), closes the client and ends the trace.
func (s *Sim) finish() {
	limit := 40
	if s.cfg.Tries > 0 {
		limit += s.cfg.T * (1 << uint(s.cfg.Tries))
	}
	idle := 0
	late := false
	for step := 0; step < 100000; step++ {
		rs := s.releasableRoles()
		if len(rs) > 0 {
			s.release(rs[s.rng.Intn(len(rs))])
			idle = 0
			continue
		}
		if s.allReturned() && (s.closeState == "returned") {
			if !late && s.rng.Intn(3) == 0 {
				// use after Close: a call on the closed client fails with the connection's error and leaves nothing behind;
				// a further Close returns at once
				late = true
				if s.rng.Intn(2) == 0 {
					s.closeAgain()
				}
				s.start(1 + s.rng.Intn(len(s.cfg.Xid)))
				continue
			}
			break
		}
		if s.allReturned() && s.closeState == "" {
			s.closeStart()
			continue
		}
		if s.cfg.Tries < 0 && idle > 3*s.cfg.T {
			for c := range s.started {
				if s.started[c] && !s.retd[c] {
					if s.uncancellable(c+1) && s.closeState == "" {
						s.closeStart() // nothing but Close ends a call that retries for ever under a context without Done
					}
					s.ctxCancel(c + 1)
				}
			}
			idle = 0
			continue
		}
		if idle > limit {
			s.emit("Stuck")
			s.abort()
			return
		}
		s.tick()
		idle++
	}
	s.emit("End")
}

// abort tries to let every goroutine finish so that the bubble can be left.
func (s *Sim) abort() {
	s.gated = false
	for _, c := range s.cancels {
		c()
	}
	s.mu.Lock()
	for r, ch := range s.gates {
		if s.parked[r] != "" {
			delete(s.parked, r)
			close(ch)
			delete(s.gates, r)
		}
	}
	s.mu.Unlock()
	go s.api.Close()
	time.Sleep(time.Hour)
}

func (s *Sim) JSON(id int) []byte {
	cfg := map[string]any{"T": s.cfg.T, "tries": s.cfg.Tries, "bufcap": s.cfg.BufCap, "v4": s.cfg.V4, "xid": s.cfg.Xid,
		"urgent": s.cfg.Urgent, "timed": s.cfg.Timed, "mode": s.cfg.Mode, "wfault": s.cfg.WFault, "rfault": s.cfg.RFault, "errkind": s.cfg.ErrKind, "dest": s.cfg.Dest, "raw": s.cfg.Raw}
	b, err := json.Marshal(map[string]any{"id": id, "cfg": cfg, "ev": s.trace})
	if err != nil {
		panic(err)
	}
	return b
}

// ---------------------------------------------------------------- fake conn

type fakeConn struct {
	s      *Sim
	mu     sync.Mutex
	q      []*dgram
	wake   chan struct{}
	closed bool
	readFail    bool // the next read on the open connection fails
	lastErrOpen bool // the last error ReadFrom returned was returned while the connection was open
	dest   *net.UDPAddr
	down   bool            // the link is down: every write fails
	failNext map[string]bool // per role: the next write fails (schedules chosen by TLC)
	destFor  map[string]*net.UDPAddr // per role: where this role's current call must send (default: dest)
}

// writeErr is what a failed write returns; kind 1 and 2 are the "transient" errors of package net
type writeErr struct{ kind int }

func (e *writeErr) Error() string {
	return [...]string{"write: network is down", "write: resource temporarily unavailable", "write: i/o timeout"}[e.kind]
}
func (e *writeErr) Temporary() bool { return e.kind >= 1 }
func (e *writeErr) Timeout() bool   { return e.kind == 2 }

func sameUDPAddr(a net.Addr, want *net.UDPAddr) bool {
	u, ok := a.(*net.UDPAddr)
	return ok && u != nil && want != nil && u.IP.Equal(want.IP) && u.Port == want.Port && u.Zone == want.Zone
}

var errClosed = errors.New("use of closed network connection")

type customErr struct{ msg string }

func (e *customErr) Error() string { return e.msg }

// readErr: what a connection can report from ReadFrom - package net's text, the errors of files, pipes and userspace stacks
// once they are closed, and what an open socket reports when the network pushes back
func readErr(kind int, closed bool) error {
	if closed {
		switch kind % 6 {
		case 1:
			return &net.OpError{Op: "read", Net: "udp", Err: net.ErrClosed}
		case 2:
			return &os.PathError{Op: "read", Path: "packet", Err: os.ErrClosed}
		case 3:
			return io.EOF
		case 4:
			return io.ErrClosedPipe
		case 5:
			return &customErr{"endpoint is closed for receive"}
		}
		return errClosed
	}
	switch kind % 4 {
	case 1:
		return &net.OpError{Op: "read", Net: "udp", Err: &os.SyscallError{Syscall: "recvfrom", Err: syscall.ECONNREFUSED}}
	case 2:
		return io.EOF
	case 3:
		return &net.OpError{Op: "read", Net: "packet", Err: &os.SyscallError{Syscall: "recvfrom", Err: syscall.ENETDOWN}}
	}
	return &customErr{"read: input/output error"}
}

func newFakeConn(s *Sim) *fakeConn {
	return &fakeConn{s: s, wake: make(chan struct{}, 1), failNext: map[string]bool{}, destFor: map[string]*net.UDPAddr{}}
}

func (f *fakeConn) push(d *dgram) {
	f.mu.Lock()
	f.q = append(f.q, d)
	f.mu.Unlock()
	select {
	case f.wake <- struct{}{}:
	default:
	}
}

func (f *fakeConn) ReadFrom(b []byte) (int, net.Addr, error) {
	f.s.mu.Lock()
	f.s.roles[goid()] = "loop"
	f.s.mu.Unlock()
	for {
		f.mu.Lock()
		if f.closed {
			f.lastErrOpen = false
			f.mu.Unlock()
			return 0, nil, readErr(f.s.cfg.ReadErrKind, true)
		}
		if f.readFail {
			f.readFail = false
			f.lastErrOpen = true
			f.mu.Unlock()
			return 0, nil, readErr(f.s.cfg.ReadErrKind, false)
		}
		if len(f.q) > 0 {
			d := f.q[0]
			f.q = f.q[1:]
			f.mu.Unlock()
			f.s.record("loop", "Rx", d.id)
			n := copy(b, d.b)
			// where a datagram comes from is not what identifies it: the server's port or a relay's, another address than
			// the one written to, an address that is not a UDP address (a transport of the caller's own)
			var from net.Addr
			switch (uint64(d.id)*2654435761 + uint64(f.s.cfg.ReadErrKind)) >> 3 % 6 {
			case 0, 1:
				from = &net.UDPAddr{IP: net.IPv4(10, 0, 0, 1), Port: 67}
			case 2:
				from = &net.UDPAddr{IP: net.IPv4(10, 0, 0, 1), Port: 6767}
			case 3:
				from = &net.UDPAddr{IP: net.ParseIP("fe80::1"), Port: 547, Zone: "eth3"}
			case 4:
				from = &net.UDPAddr{IP: net.IPv4(192, 168, 0, 254), Port: 68}
			default:
				from = &net.IPAddr{IP: net.IPv4(10, 0, 0, 1)}
			}
			return n, from, nil
		}
		f.mu.Unlock()
		<-f.wake
	}
}

func (f *fakeConn) WriteTo(b []byte, addr net.Addr) (int, error) {
	f.mu.Lock()
	closed := f.closed
	f.mu.Unlock()
	f.s.mu.Lock()
	role := f.s.roleOf("Tx")
	f.s.mu.Unlock()
	if closed {
		f.s.record(role, "TxErr")
		return 0, errClosed
	}
	f.mu.Lock()
	fail := f.down || f.failNext[role]
	delete(f.failNext, role)
	want := f.dest
	if d, ok := f.destFor[role]; ok {
		want = d
	}
	f.mu.Unlock()
	if fail {
		f.s.record(role, "TxErr")
		return 0, &writeErr{f.s.cfg.ErrKind}
	}
	f.s.record(role, "Tx", append([]byte(nil), b...), sameUDPAddr(addr, want))
	return len(b), nil
}

func (f *fakeConn) Close() error {
	f.mu.Lock()
	f.closed = true
	f.mu.Unlock()
	f.s.record("closer", "ConnClose")
	select {
	case f.wake <- struct{}{}:
	default:
	}
	if f.s.cfg.CloseErr {
		return errors.New("close: input/output error")
	}
	return nil
}
func (f *fakeConn) LocalAddr() net.Addr                { return &net.UDPAddr{IP: net.IPv4zero, Port: 68} }
func (f *fakeConn) SetDeadline(t time.Time) error      { return nil }
func (f *fakeConn) SetReadDeadline(t time.Time) error  { return nil }
func (f *fakeConn) SetWriteDeadline(t time.Time) error { return nil }


// ---------------------------------------------------------------- raw transport (nclient4.New's stack)

// rawAdapter sits between the fake connection and nclient4.NewBroadcastUDPConn: every datagram the fake connection
// delivers is wrapped in an IPv4+UDP frame addressed to the client port (header fields that do not identify the
// datagram vary: TOS, identification, DF, TTL, IP options, link-layer padding; now and then a frame that is not for
// the client comes first), and every frame the client writes is unwrapped again.
type rawAdapter struct {
	f    *fakeConn
	pend [][]byte
	n    uint32
}

func csum16(b []byte) uint16 {
	var v uint32
	for i := 0; i+1 < len(b); i += 2 {
		v += uint32(b[i])<<8 | uint32(b[i+1])
	}
	if len(b)%2 == 1 {
		v += uint32(b[len(b)-1]) << 8
	}
	for v>>16 != 0 {
		v = v&0xffff + v>>16
	}
	return ^uint16(v)
}

func (r *rawAdapter) frame(payload []byte, proto byte, dport int) []byte {
	r.n = r.n*1664525 + 1013904223
	h := r.n >> 8
	ihl := 5
	if h%7 == 0 {
		ihl = 6 // one word of IP options (no-operation)
	}
	total := ihl*4 + 8 + len(payload)
	f := make([]byte, total, total+8)
	f[0] = 0x40 | byte(ihl)
	f[1] = byte(h >> 3)                  // TOS
	f[2], f[3] = byte(total>>8), byte(total)
	f[4], f[5] = byte(h>>11), byte(h>>5) // identification
	if h%2 == 0 {
		f[6] = 0x40 // don't fragment
	}
	f[8] = byte(1 + h%255) // TTL
	f[9] = proto
	copy(f[12:16], []byte{10, 0, 0, 1})
	copy(f[16:20], []byte{255, 255, 255, 255})
	for i := 20; i < ihl*4; i++ {
		f[i] = 1
	}
	c := csum16(f[:ihl*4])
	f[10], f[11] = byte(c>>8), byte(c)
	u := f[ihl*4:]
	sport := []int{67, 67, 6767, 68, 49152 + int(h%1000)}[h>>4%5] // servers and relays answer from whatever port they like
	u[0], u[1] = byte(sport>>8), byte(sport)
	u[2], u[3] = byte(dport>>8), byte(dport)
	u[4], u[5] = byte((8+len(payload))>>8), byte(8+len(payload))
	copy(u[8:], payload)
	if h%5 == 0 {
		f = append(f, 0, 0, 0, 0, 0, 0)[:total+int(h%6)] // link-layer padding after the IP datagram
	}
	return f
}

func (r *rawAdapter) ReadFrom(b []byte) (int, net.Addr, error) {
	if len(r.pend) == 0 {
		tmp := make([]byte, 65536)
		n, _, err := r.f.ReadFrom(tmp)
		if err != nil {
			return 0, nil, err
		}
		switch r.n >> 13 % 4 {
		case 0:
			r.pend = append(r.pend, r.frame([]byte{1, 2, 3}, 6, 68)) // not UDP
		case 1:
			r.pend = append(r.pend, r.frame(tmp[:n], 17, 67)) // for another port
		}
		r.pend = append(r.pend, r.frame(tmp[:n], 17, 68))
	}
	f := r.pend[0]
	r.pend = r.pend[1:]
	return copy(b, f), &net.UDPAddr{}, nil
}

func (r *rawAdapter) WriteTo(b []byte, _ net.Addr) (int, error) {
	if len(b) < 28 || b[0] != 0x45 {
		return r.f.WriteTo(b, &net.UDPAddr{}) // not a frame this harness understands: shown as a wrong destination
	}
	dst := &net.UDPAddr{IP: net.IP(append([]byte(nil), b[16:20]...)), Port: int(b[22])<<8 | int(b[23])}
	n, err := r.f.WriteTo(b[28:], dst)
	if err != nil {
		return 0, err
	}
	return n + 28, nil
}
func (r *rawAdapter) Close() error                       { return r.f.Close() }
func (r *rawAdapter) LocalAddr() net.Addr                { return r.f.LocalAddr() }
func (r *rawAdapter) SetDeadline(t time.Time) error      { return nil }
func (r *rawAdapter) SetReadDeadline(t time.Time) error  { return nil }
func (r *rawAdapter) SetWriteDeadline(t time.Time) error { return nil }
