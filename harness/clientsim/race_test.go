package clientsim

import (
	"context"
	"math/rand"
	"net"
	"os"
	"sync"
	"testing"
	"testing/synctest"
	"time"

	"github.com/insomniacslk/dhcp/dhcpv4"
	"github.com/insomniacslk/dhcp/dhcpv4/nclient4"
	"github.com/insomniacslk/dhcp/dhcpv6"
	"github.com/insomniacslk/dhcp/dhcpv6/nclient6"
)

// raceConn is a minimal connection for free-running runs under the race detector: no harness state
// is shared between the goroutines of the client (that would add happens-before edges and hide races).
type raceConn struct {
	q      chan []byte
	closed chan struct{}
	once   sync.Once
}

func (c *raceConn) ReadFrom(b []byte) (int, net.Addr, error) {
	select {
	case d := <-c.q:
		return copy(b, d), &net.UDPAddr{IP: net.IPv4(10, 0, 0, 1), Port: 67}, nil
	case <-c.closed:
		return 0, nil, errClosed
	}
}
func (c *raceConn) WriteTo(b []byte, a net.Addr) (int, error) {
	select {
	case <-c.closed:
		return 0, errClosed
	default:
		return len(b), nil
	}
}
func (c *raceConn) Close() error                       { c.once.Do(func() { close(c.closed) }); return nil }
func (c *raceConn) LocalAddr() net.Addr                { return &net.UDPAddr{} }
func (c *raceConn) SetDeadline(time.Time) error      { return nil }
func (c *raceConn) SetReadDeadline(time.Time) error  { return nil }
func (c *raceConn) SetWriteDeadline(time.Time) error { return nil }

// TestRace: callers with colliding transaction ids, an injector and Close all run freely (hooks off).
// Built with -race by ./check C10; a race report fails the binary.
func TestRace(t *testing.T) {
	if os.Getenv("VH_RACE") == "" {
		t.Skip("VH_RACE not set")
	}
	nclient4.VerifHook = nil
	nclient6.VerifHook = nil
	seed := int64(envInt("VERIF_SEED", 1))
	for round := 0; round < envInt("VH_RACE", 50); round++ {
		rng := rand.New(rand.NewSource(seed*131 + int64(round)))
		v4 := round%2 == 0
		synctest.Test(t, func(t *testing.T) {
			conn := &raceConn{q: make(chan []byte, 64), closed: make(chan struct{})}
			xids := []int{7, 7, 8, 7, 8, 7, 7, 9}
			ncall := 2 + rng.Intn(7)
			var wg sync.WaitGroup
			var closeFn func() error
			var call func(ctx context.Context, xid int)
			if v4 {
				c, err := nclient4.NewWithConn(conn, mac, nclient4.WithRetry(2), nclient4.WithTimeout(3*unit))
				if err != nil {
					t.Fatal(err)
				}
				closeFn = c.Close
				call = func(ctx context.Context, xid int) {
					req, _ := dhcpv4.New(dhcpv4.WithTransactionID(xid4(xid)), dhcpv4.WithHwAddr(mac))
					c.SendAndRead(ctx, &net.UDPAddr{IP: net.IPv4bcast, Port: 67}, req, func(p *dhcpv4.DHCPv4) bool { return p != nil && p.YourIPAddr[3]%2 == 0 })
				}
			} else {
				c, err := nclient6.NewWithConn(conn, mac, nclient6.WithRetry(2), nclient6.WithTimeout(3*unit))
				if err != nil {
					t.Fatal(err)
				}
				closeFn = c.Close
				call = func(ctx context.Context, xid int) {
					req, _ := dhcpv6.NewMessage()
					req.TransactionID = xid6(xid)
					c.SendAndRead(ctx, &net.UDPAddr{IP: net.ParseIP("ff02::1:2"), Port: 547}, req, func(m *dhcpv6.Message) bool { return m != nil && m.MessageType == dhcpv6.MessageTypeReply })
				}
			}
			ctx, cancel := context.WithCancel(context.Background())
			for i := 0; i < ncall; i++ {
				x := xids[i]
				wg.Add(1)
				go func() { defer wg.Done(); call(ctx, x); call(ctx, x) }()
			}
			wg.Add(1)
			go func() { // injector
				defer wg.Done()
				for k := 0; k < 40; k++ {
					var d []byte
					x := []int{7, 8, 9, 99}[k%4]
					if v4 {
						p, _ := dhcpv4.New(dhcpv4.WithTransactionID(xid4(x)), dhcpv4.WithHwAddr(mac), dhcpv4.WithYourIP(net.IPv4(10, 0, 0, byte(k)).To4()))
						p.OpCode = dhcpv4.OpcodeBootReply
						d = p.ToBytes()
					} else {
						m, _ := dhcpv6.NewMessage()
						m.TransactionID = xid6(x)
						m.MessageType = dhcpv6.MessageType(1 + k%8)
						d = m.ToBytes()
					}
					select {
					case conn.q <- d:
					case <-conn.closed:
						return
					}
					if k%5 == 0 {
						time.Sleep(unit)
					}
				}
			}()
			if rng.Intn(2) == 0 {
				time.Sleep(time.Duration(rng.Intn(8)) * unit)
				cancel()
			}
			if rng.Intn(2) == 0 {
				time.Sleep(time.Duration(rng.Intn(6)) * unit)
				closeFn()
			}
			wg.Wait()
			cancel()
			closeFn()
		})
	}
}
