package clientsim

import (
	"errors"
	"bufio"
	"context"
	"encoding/json"
	"fmt"
	"math/rand"
	"os"
	"runtime"
	"strconv"
	"strings"
	"testing"
	"testing/synctest"
	"time"
)

func newSim(cfg Cfg, seed int64) *Sim {
	s := &Sim{cfg: cfg, rng: rand.New(rand.NewSource(seed)), parked: map[string]string{}, gates: map[string]chan struct{}{},
		roles: map[uint64]string{}, entIDs: map[any]int{}, needProceed: map[string]bool{}, removed: map[string]int{},
		firstTx: map[string][]byte{}, want: map[string][]byte{}, gated: true, firing: map[string]bool{},
		entQ: map[int][]int{}, lastWoken: map[string]int{}, callerEnt: map[string]int{}, closeIn: map[string]bool{}}
	n := len(cfg.Xid)
	s.started, s.retd, s.ctxDone, s.ncalls = make([]bool, n), make([]bool, n), make([]bool, n), make([]int, n)
	return s
}

// boot must be called inside the bubble.
func (s *Sim) boot() {
	s.epoch = time.Now()
	xidMap = s.cfg.XidMap
	s.conn = newFakeConn(s)
	for i := range s.cfg.Xid {
		ctx, cancel := context.WithCancel(context.Background())
		withCause := (i+s.cfg.ReadErrKind)%3 == 1 // contexts that carry a cause of their own: the call still reports the context's error
		if withCause {
			c2, cc := context.WithCancelCause(context.Background())
			ctx, cancel = c2, func() { cc(errCause) }
		}
		if i < len(s.cfg.CtxDeadline) && s.cfg.CtxDeadline[i] > 0 {
			// the caller's context ends by its own deadline (context.WithTimeout style)
			ctx, cancel = context.WithDeadline(context.Background(), time.Now().Add(time.Duration(s.cfg.CtxDeadline[i])*unit))
			if withCause {
				ctx, cancel = context.WithDeadlineCause(context.Background(), time.Now().Add(time.Duration(s.cfg.CtxDeadline[i])*unit), errCause)
			}
		}
		if i < len(s.cfg.CtxBackground) && s.cfg.CtxBackground[i] {
			ctx, cancel = context.Background(), func() {}
		}
		s.ctxs = append(s.ctxs, ctx)
		s.cancels = append(s.cancels, cancel)
	}
	if s.cfg.V4 {
		a := newAPI4(s, s.conn)
		s.conn.dest = a.dest
		s.api = a
	} else {
		a := newAPI6(s, s.conn)
		s.conn.dest = a.dest
		s.api = a
	}
	synctest.Wait()
}

var errCause = errors.New("the operator gave up")

type step []json.RawMessage

func (st step) name() string { var n string; json.Unmarshal(st[0], &n); return n }
func (st step) int(i int) int { var n int; json.Unmarshal(st[i], &n); return n }
func (st step) str(i int) string { var n string; json.Unmarshal(st[i], &n); return n }

var gateOf = map[string]string{"SendLock": "SendPreLock", "Transmit": "SendPreTx", "TransmitFail": "SendPreTx", "Proceed": "Wake", "CancelDone": "CancelPre",
	"CancelLock": "CancelPreLock"}

// follow replays a TLC behaviour (sequence of Client.tla action labels) as scheduler choices.
// It returns the number of steps it could follow before the real execution diverged.
func (s *Sim) follow(steps []step) (followed int, diverged string) {
	for i, st := range steps {
		n := st.name()
		switch n {
		case "Start":
			if s.started[st.int(1)-1] && !s.retd[st.int(1)-1] {
				return i, "already started"
			}
			s.start(st.int(1)) // a second Start of a caller that has returned is its next call ("Again" in the model)
		case "Again":
			if s.started[st.int(1)-1] && !s.retd[st.int(1)-1] {
				return i, "Again: the previous call has not returned"
			}
		case "Fire", "FireFail":
			c := st.int(1)
			if s.started[c-1] && !s.retd[c-1] {
				return i, "Fire: the previous call has not returned"
			}
			if n == "FireFail" && s.closeState == "" {
				s.conn.mu.Lock()
				s.conn.failNext["c"+strconv.Itoa(c)] = true
				s.conn.mu.Unlock()
			}
			if !s.fire(c) {
				// this client has no one-shot call (nclient6): the step touches nothing the other steps depend on - skipped
				s.conn.mu.Lock()
				delete(s.conn.failNext, "c"+strconv.Itoa(c))
				s.conn.mu.Unlock()
			}
		case "SendLock", "Transmit", "TransmitFail", "Proceed", "CancelDone", "CancelLock":
			role := "c" + strconv.Itoa(st.int(1))
			if n == "TransmitFail" && s.closeState == "" {
				s.conn.mu.Lock()
				s.conn.failNext[role] = true // the model chose a failing write
				s.conn.mu.Unlock()
			}
			if s.parkedAt(role) != gateOf[n] || !s.releasable(role) {
				return i, fmt.Sprintf("%s: %s parked at %q", n, role, s.parkedAt(role))
			}
			s.release(role)
		case "LoopLock":
			if s.parkedAt("loop") != "LoopPreLock" || !s.releasable("loop") {
				return i, "LoopLock: loop parked at " + s.parkedAt("loop")
			}
			s.release("loop")
		case "LoopReadErr":
			if s.loopExited || s.closeState != "" {
				return i, "LoopReadErr: the loop is gone"
			}
			s.readFault()
		case "CloseStart":
			s.closeStart()
		case "CloseDone":
			if s.parkedAt("closer") != "CloseDonePre" {
				return i, "CloseDone: closer not parked"
			}
			s.release("closer")
		case "Inject":
			s.inject(st.int(1), st.str(2))
		case "CtxCancel":
			s.ctxCancel(st.int(1))
		case "Tick":
			if s.cfg.Urgent && len(s.releasableRoles()) > 0 {
				// the behaviour comes from a model whose timing differs from the code's: under the
				// urgent policy time may not pass while a goroutine can run
				return i, "Tick while an internal step is possible"
			}
			s.tick()
		case "WakeTimeout":
			// untimed model: let virtual time run until this caller's timer has fired
			role := "c" + strconv.Itoa(st.int(1))
			for k := 0; k < 4096 && s.parkedAt(role) != "Wake"; k++ {
				if s.retd[st.int(1)-1] {
					break
				}
				s.tick()
			}
		default:
			// spontaneous actions (WakeRecv, WakeCtx, WakeClosed, LoopRead, LoopSel*, LoopExit, CloseReturn)
			// happen by themselves in the real code
		}
		if s.crashed != "" {
			return i, "crash"
		}
	}
	return len(steps), ""
}

// randomRun lets a seeded random scheduler explore.
func (s *Sim) randomRun(ndgram int, urgent bool, wantClose, wantCtx bool) {
	kinds := []string{"good", "rej", "rej", "undec", "wrongop", "wronghw", "good"}
	xids := append([]int{}, s.cfg.Xid...)
	xids = append(xids, 99)
	injected, longTicks, closeAgains := 0, 0, 0
	maxCalls := 1 + s.rng.Intn(3)
	// planned env actions
	for step := 0; step < 400; step++ {
		type choice struct {
			kind string
			arg  int
		}
		var ch []choice
		for _, r := range s.releasableRoles() {
			ch = append(ch, choice{"rel:" + r, 0}, choice{"rel:" + r, 0})
		}
		for c := range s.started {
			if !s.started[c] {
				ch = append(ch, choice{"start", c + 1})
				if s.cfg.V4 && s.rng.Intn(8) == 0 {
					ch = append(ch, choice{"fire", c + 1}) // this caller's call is a Release
				}
			} else if s.retd[c] && s.ncalls[c] < maxCalls && s.closeState == "" {
				ch = append(ch, choice{"start", c + 1}) // the caller calls again on the same client
				if s.cfg.V4 && s.rng.Intn(4) == 0 {
					ch = append(ch, choice{"fire", c + 1})
				}
			} else if wantCtx && !s.retd[c] && !s.ctxDone[c] && !s.uncancellable(c+1) && s.rng.Intn(12) == 0 {
				ch = append(ch, choice{"ctx", c + 1})
			}
		}
		if injected < ndgram {
			ch = append(ch, choice{"inject", 0}, choice{"inject", 0})
		}
		if wantClose && s.closeState == "" && s.rng.Intn(25) == 0 {
			ch = append(ch, choice{"close", 0})
		}
		if s.closeState != "" && closeAgains < 2 && s.rng.Intn(6) == 0 {
			ch = append(ch, choice{"closeagain", 0})
		}
		if s.cfg.WFault && s.rng.Intn(6) == 0 {
			ch = append(ch, choice{"link", 0}) // the link goes down / comes back
		}
		if s.cfg.RFault && s.readFaults == 0 && !s.loopExited && s.closeState == "" && s.rng.Intn(10) == 0 {
			ch = append(ch, choice{"readfault", 0}) // the network pushes back on the receive side
		}
		if wantClose || s.rng.Intn(8) == 0 {
			for _, r := range s.releasableRoles() {
				if r != "loop" && r != "closer" && s.canCloseFrom(r) {
					ch = append(ch, choice{"closefrom:" + r, 0}) // a matcher that shuts the client down
				}
			}
		}
		internal := len(s.releasableRoles()) > 0
		if !urgent || !internal {
			if !s.allReturned() || injected < ndgram {
				ch = append(ch, choice{"tick", 0})
			}
			if !urgent && longTicks < 2 && (s.loopHolds || s.rng.Intn(20) == 0) && !s.allReturned() {
				// a scheduling delay of seconds while goroutines sit where they are (and, often, while the receive
				// loop holds the lock): nobody is entitled to give up on anybody
				ch = append(ch, choice{"longtick", 0}, choice{"longtick", 0})
			}
		}
		if len(ch) == 0 {
			break
		}
		c := ch[s.rng.Intn(len(ch))]
		switch {
		case c.kind == "start":
			s.start(c.arg)
		case c.kind == "fire":
			s.fire(c.arg)
		case c.kind == "ctx":
			s.ctxCancel(c.arg)
		case c.kind == "inject":
			injected++
			if len(s.dgrams) > 0 && s.rng.Intn(5) == 0 {
				s.injectDup(1 + s.rng.Intn(len(s.dgrams))) // the same bytes once more
			} else {
				s.inject(xids[s.rng.Intn(len(xids))], kinds[s.rng.Intn(len(kinds))])
			}
		case c.kind == "close":
			s.closeStart()
		case c.kind == "closeagain":
			closeAgains++
			s.closeAgain()
		case c.kind == "tick":
			s.tick()
		case c.kind == "longtick":
			longTicks++
			for k := 30 + s.rng.Intn(300); k > 0 && s.crashed == ""; k-- {
				s.tick()
			}
		case c.kind == "readfault":
			s.readFault()
		case strings.HasPrefix(c.kind, "closefrom:"):
			s.closeFrom(c.kind[len("closefrom:"):])
		case c.kind == "link":
			s.conn.mu.Lock()
			s.conn.down = !s.conn.down
			s.conn.mu.Unlock()
		default:
			s.release(c.kind[4:])
		}
		if s.crashed != "" {
			return
		}
	}
	s.conn.mu.Lock()
	s.conn.down = false
	s.conn.mu.Unlock()
}

// freeRun: all callers are released from a barrier at the same virtual instant and run truly in
// parallel (no gates); no datagrams arrive, so every interaction between callers goes through the
// pending-map critical sections, whose hook records are ordered by the mutex itself. Virtual time
// then advances (urgent by construction) and the retries race again.
func (s *Sim) freeRun() {
	s.free = true
	n := len(s.cfg.Xid)
	s.ready.Add(n)
	for c := 1; c <= n; c++ {
		role := "c" + strconv.Itoa(c)
		s.started[c-1] = true
		s.emit("Start", "c", c)
		xid := s.cfg.Xid[c-1]
		ctx := s.ctxs[c-1]
		go func() {
			s.mu.Lock()
			s.roles[goid()] = role
			s.mu.Unlock()
			call := s.api.Prepare(ctx, xid, func(id int, isNil bool) bool {
				s.record(role, "Match", id, false)
				return false
			}, false, func(b []byte) {
				s.mu.Lock()
				s.want[role] = b
				s.mu.Unlock()
			})
			s.ready.Done()
			for !s.goFlag.Load() { // spin barrier: all callers enter SendAndRead at the same moment
				runtime.Gosched()
			}
			id, isNil, err := call()
			res := "msg"
			switch {
			case err != nil:
				res = s.api.Classify(err)
				id = 0
			case isNil:
				res = "nil"
				id = 0
			}
			s.record(role, "Return", res, id)
		}()
	}
	s.ready.Wait()
	s.goFlag.Store(true)
	s.wait("")
	budget := 4
	if s.cfg.Tries > 0 {
		budget += s.cfg.T * (1 << uint(s.cfg.Tries))
	}
	for k := 0; k < budget && !s.allReturned(); k++ {
		s.tick()
	}
	if !s.allReturned() {
		s.emit("Stuck")
		s.abort()
		return
	}
	s.closeStart()
	s.wait("closer")
	for k := 0; k < 3 && s.closeState != "returned"; k++ {
		s.wait("")
	}
	s.emit("End")
}

// gridRun (C12): one caller, timeout T, n tries; an acceptable response arrives in try k at the given
// offset within the try (0 = right after the transmission, 1 = middle, 2 = last tick before the timeout);
// k = 0: no response at all. Urgent policy throughout.
func (s *Sim) gridRun(k, where int) {
	s.start(1)
	elapsed := 0
	target := -1
	if k > 0 {
		tryStart := s.cfg.T * ((1 << uint(k-1)) - 1)
		tryLen := s.cfg.T * (1 << uint(k-1))
		target = tryStart + []int{0, tryLen / 2, tryLen - 1}[where]
	}
	for step := 0; step < 100000 && !s.allReturned(); step++ {
		if rs := s.releasableRoles(); len(rs) > 0 {
			s.release(rs[0])
			continue
		}
		if elapsed == target {
			s.inject(s.cfg.Xid[0], "good")
			target = -1
			continue
		}
		if s.cfg.Tries < 0 && elapsed > s.cfg.T*40 {
			if s.uncancellable(1) {
				if s.closeState != "" {
					break
				}
				s.closeStart()
			} else {
				s.ctxCancel(1)
			}
			continue
		}
		s.tick()
		elapsed++
	}
}

// streamRun (C11): a datagram with the call's id that the matcher rejects arrives at every tick for as
// long as the call is running (it must not extend the call beyond its budget).
func (s *Sim) streamRun() {
	for c := range s.cfg.Xid {
		s.start(c + 1)
	}
	for step := 0; step < 100000 && !s.allReturned(); step++ {
		if rs := s.releasableRoles(); len(rs) > 0 {
			s.release(rs[s.rng.Intn(len(rs))])
			continue
		}
		if step > 20000 {
			break
		}
		s.tick()
		for _, x := range s.cfg.Xid {
			s.inject(x, "rej")
			for { // let the datagram be processed at this very instant
				rs := s.releasableRoles()
				if len(rs) == 0 {
					break
				}
				s.release(rs[s.rng.Intn(len(rs))])
			}
		}
		if s.cfg.Tries < 0 && s.now() > s.cfg.T*20 {
			for c := range s.cfg.Xid {
				s.ctxCancel(c + 1)
			}
		}
	}
}

// closeFromRun (C11): a matcher that has seen enough shuts the client down from inside the call (a datagram of the given
// kind is what it sees), while other calls are in flight; Close returns, and so does every call.
func (s *Sim) closeFromRun(kind string) {
	for c := range s.cfg.Xid {
		s.start(c + 1)
	}
	injected := false
	for step := 0; step < 2000; step++ {
		if s.canCloseFrom("c1") {
			s.closeFrom("c1")
			return
		}
		rs := s.releasableRoles()
		if !injected && s.parkedAt("c1") == "" && s.callerEnt["c1"] > 0 && len(s.firstTx["c1"]) > 0 {
			injected = true
			s.inject(s.cfg.Xid[0], kind)
			continue
		}
		if len(rs) == 0 {
			if injected {
				return // the call went another way (its timer won): nothing to do
			}
			s.tick()
			continue
		}
		// callers first, the loop when nobody else can run (so that c1 reaches its wait before the datagram is read)
		pick := rs[0]
		for _, r := range rs {
			if r != "loop" {
				pick = r
				break
			}
		}
		s.release(pick)
	}
}

type schedule struct {
	Cfg   Cfg    `json:"cfg"`
	Steps []step `json:"steps"`
	Tag   string `json:"tag"`
}

func envInt(k string, d int) int {
	if v, err := strconv.Atoi(os.Getenv(k)); err == nil {
		return v
	}
	return d
}

// TestSim is the entry point used by ./check: VH_OUT (trace file), VH_SCHEDULES (TLC behaviours),
// VH_RANDOM (number of random-scheduler runs), VH_MODE (c10|c11), VERIF_SEED.
func TestSim(t *testing.T) {
	outPath := os.Getenv("VH_OUT")
	if outPath == "" {
		t.Skip("VH_OUT not set")
	}
	f, err := os.Create(outPath)
	if err != nil {
		t.Fatal(err)
	}
	defer f.Close()
	w := bufio.NewWriter(f)
	defer w.Flush()
	seed := int64(envInt("VERIF_SEED", 1))
	id := 0
	stats := map[string]int{}
	// Real-time watchdog, outside every bubble. Virtual time makes a run take milliseconds; a goroutine that
	// waits for a sync.Mutex is not "durably blocked" for synctest, so a client that leaks a lock leaves the
	// bubble waiting for ever instead of reporting a deadlock. No recorded event for 60 s of real time while
	// client goroutines sit in Mutex.Lock is reported as what it is.
	go func() {
		last := int64(-1)
		for {
			time.Sleep(60 * time.Second)
			cur := progress.Load()
			if cur != last {
				last = cur
				continue
			}
			buf := make([]byte, 1<<20)
			buf = buf[:runtime.Stack(buf, true)]
			var stuck []string
			for _, g := range strings.Split(string(buf), "\n\n") {
				if strings.Contains(g, "sync.(*Mutex).Lock") && (strings.Contains(g, "nclient4.") || strings.Contains(g, "nclient6.")) {
					stuck = append(stuck, g)
				}
			}
			w.Flush()
			if len(stuck) > 0 {
				fmt.Printf("deadlock: no event for 60 s of real time in sim %d; %d client goroutines wait for a mutex that is never released:\n%s\n",
					id, len(stuck), strings.Join(stuck, "\n\n"))
				os.Exit(3)
			}
			// a client goroutine that keeps running without ever blocking or reaching a hook (a receive loop that spins on the
			// error of its closed connection) keeps the bubble from settling: seen as runnable in two snapshots a second apart
			spinning := func(dump string) map[string]bool {
				out := map[string]bool{}
				for _, g := range strings.Split(dump, "\n\n") {
					head, _, _ := strings.Cut(g, "\n")
					if (strings.Contains(head, "[running") || strings.Contains(head, "[runnable")) &&
						(strings.Contains(g, "nclient4.(*Client)") || strings.Contains(g, "nclient6.(*Client)")) {
						for _, ln := range strings.Split(g, "\n") {
							if strings.Contains(ln, "nclient4.(*Client)") || strings.Contains(ln, "nclient6.(*Client)") {
								out[strings.TrimSpace(strings.SplitN(ln, "(0x", 2)[0])] = true
								break
							}
						}
					}
				}
				return out
			}
			first := spinning(string(buf))
			time.Sleep(time.Second)
			buf2 := make([]byte, 1<<20)
			buf2 = buf2[:runtime.Stack(buf2, true)]
			var both []string
			for fn := range spinning(string(buf2)) {
				if first[fn] {
					both = append(both, fn)
				}
			}
			if len(both) > 0 {
				fmt.Printf("deadlock: (livelock) no event for 60 s of real time in sim %d while client goroutines keep running without blocking: %s\n%s\n",
					id, strings.Join(both, ", "), buf2)
				os.Exit(3)
			}
			fmt.Printf("harness stuck: no event for 60 s of real time in sim %d and no client goroutine waits for a mutex\n%s\n", id, buf)
			os.Exit(4)
		}
	}()
	runOne := func(cfg Cfg, tag string, body func(s *Sim)) {
		id++
		myid := id
		fmt.Printf("SIM %d %s\n", myid, tag)
		cfg.CloseErr = (uint64(myid)*2654435761)>>13%3 == 0
		cfg.ErrKind = int((uint64(myid)*2654435761)>>17) % 3 // what a failed write returns
		cfg.Dest = int((uint64(myid)*2654435761)>>5) % 4     // the properties hold for every destination
		cfg.BigReq = []int{0, 0, 0, 700, 1300, 1600, 4000, 0}[(uint64(myid)*2654435761)>>25%8] // ... and whatever the size of the request
		cfg.Raw = cfg.V4 && (uint64(myid)*2654435761)>>21%3 == 0 // ... and on the raw-socket layer as well as on a UDP socket
		cfg.XidMap = []int{0, 0, 1, 2}[(uint64(myid)*2654435761)>>15%4] // ... and whatever the transaction ids are, the ends of their domain included
		cfg.ReadErrKind = int((uint64(myid)*2654435761)>>29) % 12 // ... and whatever error the connection reports from a read
		cfg.Log = int((uint64(myid)*2654435761)>>9) % 4 // the properties hold for every client configuration, logging options included
		synctest.Test(t, func(t *testing.T) {
			s := newSim(cfg, seed*1000003+int64(myid))
			s.boot()
			body(s)
			if s.free {
				// freeRun drives itself to the end
			} else if s.crashed == "" {
				s.finish()
			} else {
				s.abort()
			}
			w.Write(s.JSON(myid))
			w.WriteByte('\n')
			w.Flush()
			stats["actions"] += len(s.trace)
		})
	}
	// (1) behaviours chosen by TLC
	if p := os.Getenv("VH_SCHEDULES"); p != "" {
		sf, err := os.Open(p)
		if err != nil {
			t.Fatal(err)
		}
		sc := bufio.NewScanner(sf)
		sc.Buffer(make([]byte, 1<<20), 1<<26)
		for sc.Scan() {
			var sch schedule
			if err := json.Unmarshal(sc.Bytes(), &sch); err != nil {
				t.Fatal(err)
			}
			for _, v4 := range []bool{true, false} {
				cfg := sch.Cfg
				cfg.V4 = v4
				cfg.Timed = true
				cfg.Mode = "tlc:" + sch.Tag
				runOne(cfg, cfg.Mode, func(s *Sim) {
					n, why := s.follow(sch.Steps)
					stats["tlc_schedules"]++
					stats["tlc_steps"] += len(sch.Steps)
					stats["tlc_steps_followed"] += n
					if why != "" {
						stats["tlc_diverged"]++
						stats["tlc_diverged: "+strings.SplitN(why, ":", 2)[0]]++
					}
				})
			}
		}
		sf.Close()
	}
	// (2) random scheduler
	rng := rand.New(rand.NewSource(seed))
	nrand := envInt("VH_RANDOM", 0)
	mode := os.Getenv("VH_MODE")
	for i := 0; i < nrand; i++ {
		ncall := 1 + rng.Intn(4)
		cfg := Cfg{T: []int{1, 2, 3, 5}[rng.Intn(4)], Tries: []int{1, 2, 3, 1, 2, 4}[rng.Intn(6)], BufCap: []int{1, 2, 5}[rng.Intn(3)],
			V4: i%2 == 0, Timed: true}
		for c := 0; c < ncall; c++ {
			cfg.Xid = append(cfg.Xid, []int{7, 7, 8}[rng.Intn(3)])
		}
		if rng.Intn(3) == 0 {
			for c := 0; c < ncall; c++ {
				cfg.CtxDeadline = append(cfg.CtxDeadline, []int{0, 1, 2, 3, 5, 8}[rng.Intn(6)])
			}
		}
		if rng.Intn(4) == 0 {
			for c := 0; c < ncall; c++ {
				cfg.CtxBackground = append(cfg.CtxBackground, rng.Intn(2) == 0)
			}
		}
		urgent := mode == "c11" || i%3 == 0
		cfg.Urgent = urgent
		cfg.Mode = "random"
		cfg.WFault = rng.Intn(3) == 0
		cfg.RFault = (uint64(i)*2654435761)>>7%4 == 0
		if mode == "c11" {
			cfg.Tries = []int{0, 1, 2, 3, 4, -1, 0, 1, 2, 3, 4, -1, -2, -7}[rng.Intn(14)] // any negative count retries until cancelled
		}
		if (uint64(i)*2654435761)>>11%9 == 0 {
			cfg.T = 0 // a zero timeout is honoured: the tries follow each other at once (only a finite number of them ends)
			if cfg.Tries < 0 {
				cfg.Tries = 2
			}
		}
		nd := rng.Intn(9)
		if cfg.BufCap == 1 && rng.Intn(2) == 0 {
			nd += 6
		}
		runOne(cfg, "random", func(s *Sim) { s.randomRun(nd, urgent, rng.Intn(3) == 0, rng.Intn(2) == 0) })
		stats["random_runs"]++
	}
	// (2a) a client that has seen a lot: a hundred datagrams nobody waits for (a foreign transaction id, then the callers' own ids
	// while nobody is calling), then ordinary calls
	for _, v4 := range []bool{true, false} {
		for rep := 0; rep < 2; rep++ {
			cfg := Cfg{T: 2, Tries: 2, BufCap: []int{1, 5}[rep], V4: v4, Timed: true, Urgent: mode == "c11", Mode: "unsolicited-soak", Xid: []int{7, 8}}
			runOne(cfg, "unsolicited-soak", func(s *Sim) {
				for k := 0; k < 100 && s.crashed == ""; k++ {
					s.inject([]int{99, 7, 8, 99}[k%4], []string{"good", "rej", "good", "undec"}[k%4])
					for n := 0; n < 8; n++ {
						rs := s.releasableRoles()
						if len(rs) == 0 {
							break
						}
						s.release(rs[0])
					}
				}
				if s.crashed == "" {
					s.randomRun(4, mode == "c11", false, false)
				}
			})
			stats["soak_runs"]++
		}
	}
	// (2b) C11 / C12: the retransmission grid and endless streams of rejected datagrams
	if mode == "c11" {
		for _, v4 := range []bool{true, false} {
			for _, T := range []int{0, 1, 2, 5} {
				for n := -2; n <= 6; n++ {
					kmax := n
					if n < 0 {
						kmax = 3
					}
					if n == -2 && T != 1 {
						continue
					}
					if T == 0 && (n < 0 || n > 3) {
						continue // zero timeout: the n transmissions leave at once (a negative count would never let time pass)
					}
					if T == 0 {
						kmax = 0
					}
					for k := 0; k <= kmax; k++ {
						for where := 0; where < 3; where++ {
							if k == 0 && where > 0 {
								continue
							}
							if envInt("VH_GRID", 1) == 0 && (n > 3 || (where == 1 && T > 1)) {
								continue // quick: a slice of the grid
							}
							cfg := Cfg{T: T, Tries: n, BufCap: 5, V4: v4, Timed: true, Urgent: true, Mode: "grid", Xid: []int{7}}
							if n < 0 && (k+where)%2 == 1 {
								cfg.CtxBackground = []bool{true} // retries for ever, and only Close (or an answer) ends the call
							}
							kk, ww := k, where
							runOne(cfg, "grid", func(s *Sim) { s.gridRun(kk, ww) })
							stats["grid_runs"]++
							if n < 0 && k == 0 {
								// no answer ever, retries for ever, a context that cannot be cancelled: the call goes on until Close
								cfg.CtxBackground = []bool{true}
								runOne(cfg, "grid", func(s *Sim) { s.gridRun(0, 0) })
								stats["grid_runs"]++
							}
						}
					}
				}
			}
			// every kind of request, with timeouts of seconds and minutes: the waits keep doubling whatever is sent
			mts := []int{1, 3, 4, 5, 6, 8, 9, 11} // SOLICIT REQUEST CONFIRM RENEW REBIND RELEASE DECLINE INFORMATION-REQUEST
			if v4 {
				mts = []int{1, 3, 4, 7, 8} // DISCOVER REQUEST DECLINE RELEASE INFORM
			}
			for _, mt := range mts {
				for _, tn := range [][2]int{{500, 4}, {3000, 3}} {
					if envInt("VH_GRID", 1) == 0 && tn[0] != 500 {
						continue
					}
					for _, k := range []int{0, tn[1]} {
						cfg := Cfg{T: tn[0], Tries: tn[1], BufCap: 5, V4: v4, Timed: true, Urgent: true, Mode: "grid", Xid: []int{7}, MsgType: mt}
						kk := k
						runOne(cfg, "grid", func(s *Sim) { s.gridRun(kk, 1) })
						stats["grid_runs"]++
					}
				}
			}
			// call histories: the first call is answered during try k1 (0: never), then the same caller calls again on the
			// same client and is answered during try k2 (0: never); the second call's schedule starts from the configured timeout
			for _, T := range []int{1, 3} {
				for k1 := 0; k1 <= 3; k1++ {
					for _, k2 := range []int{0, 2} {
						if envInt("VH_GRID", 1) == 0 && T > 1 && k1 != 2 {
							continue
						}
						cfg := Cfg{T: T, Tries: 3, BufCap: 5, V4: v4, Timed: true, Urgent: true, Mode: "history", Xid: []int{7}}
						a, b := k1, k2
						runOne(cfg, "history", func(s *Sim) {
							s.gridRun(a, 1)
							if s.crashed == "" && s.allReturned() {
								s.tick()
								s.gridRun(b, 1)
							}
						})
						stats["history_runs"]++
					}
				}
			}
			// the calls built on SendAndRead are as prompt as SendAndRead: no answers arrive; contexts end, the client is closed, time passes
			for hk := 1; hk <= 3; hk++ {
				for rep := 0; rep < 4; rep++ {
					cfg := Cfg{T: 1 + rep%3, Tries: 1 + rep%3, BufCap: 5, V4: v4, Timed: true, Urgent: true, Mode: "highlevel", Xid: [][]int{{7}, {7, 8}, {7, 8, 7}, {8}}[rep], High: hk}
					if rep == 3 {
						cfg.CtxDeadline = []int{2}
					}
					wc, wx := rep%2 == 0, rep != 1
					runOne(cfg, "highlevel", func(s *Sim) { s.randomRun(0, true, wc, wx) })
					stats["highlevel_runs"]++
				}
			}
			for _, kind := range []string{"good", "rej"} {
				for _, xs := range [][]int{{7}, {7, 8, 8}} {
					for _, bc := range []int{1, 5} {
						cfg := Cfg{T: 2, Tries: 2, BufCap: bc, V4: v4, Timed: true, Urgent: true, Mode: "closefrom", Xid: xs}
						kk := kind
						runOne(cfg, "closefrom", func(s *Sim) { s.closeFromRun(kk) })
						stats["closefrom_runs"]++
					}
				}
			}
			for i := 0; i < 6; i++ {
				cfg := Cfg{T: 1 + rng.Intn(3), Tries: []int{1, 2, 3, 4, -1, -3}[rng.Intn(6)], BufCap: []int{1, 5}[rng.Intn(2)], V4: v4, Timed: true, Urgent: true,
					Mode: "stream", Xid: [][]int{{7}, {7, 8}, {7, 7}}[rng.Intn(3)]}
				runOne(cfg, "stream", func(s *Sim) { s.streamRun() })
				stats["stream_runs"]++
			}
		}
	}
	// (3) free-running races on the registration critical section
	for i := 0; i < envInt("VH_FREE", 0); i++ {
		ncall := 2 + rng.Intn(7)
		cfg := Cfg{T: 1 + rng.Intn(3), Tries: 1 + rng.Intn(3), BufCap: 5, V4: i%2 == 0, Timed: true, Urgent: true, Mode: "free"}
		for c := 0; c < ncall; c++ {
			cfg.Xid = append(cfg.Xid, []int{7, 7, 7, 8}[rng.Intn(4)])
		}
		runOne(cfg, "free", func(s *Sim) { s.freeRun() })
		stats["free_runs"]++
	}
	stats["close_from_matcher"], stats["read_faults"] = int(nCloseFrom.Load()), int(nReadFault.Load())
	sb, _ := json.Marshal(stats)
	os.WriteFile(outPath+".stats", sb, 0o644)
}
