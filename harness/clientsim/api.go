package clientsim

import (
	"context"
	"errors"
	"fmt"
	"net"
	"os"
	"reflect"
	"strings"
	"time"
	"unsafe"

	"github.com/insomniacslk/dhcp/dhcpv4"
	"github.com/insomniacslk/dhcp/dhcpv4/nclient4"
	"github.com/insomniacslk/dhcp/dhcpv6"
	"github.com/insomniacslk/dhcp/dhcpv6/nclient6"
	"github.com/insomniacslk/dhcp/rfc1035label"
)

var mac = net.HardwareAddr{2, 0, 0, 0, 0, 1}
var otherMac = net.HardwareAddr{2, 0, 0, 0, 0, 9}

func setBufCap(c any, n int) {
	f := reflect.ValueOf(c).Elem().FieldByName("bufferCap")
	*(*int)(unsafe.Pointer(f.UnsafeAddr())) = n
}

// the library's stock loggers write to os.Stderr as it is when the option is built: silence it for this
// test process (the runtime's own crash output does not go through this variable)
func init() {
	if f, err := os.OpenFile(os.DevNull, os.O_WRONLY, 0); err == nil {
		os.Stderr = f
	}
}

// a caller-supplied logger that reads the messages it is shown (read-only use)
type readingLogger4 struct{}

func (readingLogger4) PrintMessage(prefix string, m *dhcpv4.DHCPv4) {
	if m != nil {
		_ = m.Summary()
		_ = m.String()
		_ = m.ParameterRequestList().String()
	}
}
func (readingLogger4) Printf(format string, v ...interface{}) {}

// ------------------------------------------------------------------ nclient4
type api4 struct {
	c    *nclient4.Client
	dest *net.UDPAddr
	mt   int
	big  int
}

const idOpt4 = 224

func newAPI4(s *Sim, conn net.PacketConn) *api4 {
	nclient4.VerifHook = s.hook
	dest := []*net.UDPAddr{{IP: net.IPv4(10, 9, 8, 7), Port: 6767}, {IP: net.IPv4bcast, Port: 67}, {IP: net.IPv4(10, 0, 0, 1).To4(), Port: 67},
		{IP: net.IPv4(192, 168, 1, 255), Port: 67}}[s.cfg.Dest%4]
	opts := []nclient4.ClientOpt{nclient4.WithTimeout(time.Duration(s.cfg.T) * unit), nclient4.WithRetry(s.cfg.Tries)}
	switch s.cfg.Log {
	case 1:
		opts = append(opts, nclient4.WithSummaryLogger())
	case 2:
		opts = append(opts, nclient4.WithDebugLogger())
	case 3:
		opts = append(opts, nclient4.WithLogger(readingLogger4{}))
	}
	if s.cfg.Raw {
		// the stack nclient4.New builds: the client on its raw-socket layer, bound to the client port
		conn = nclient4.NewBroadcastUDPConn(&rawAdapter{f: conn.(*fakeConn), n: uint32(s.rng.Int63())}, &net.UDPAddr{Port: 68})
	}
	// the client's hardware address: the one it is constructed with, or the one WithHWAddr gives it afterwards (the
	// constructor's - the interface's - is then another address: otherMac, which the wronghw datagrams carry; or none)
	ctorMac := mac
	switch s.cfg.ReadErrKind % 3 {
	case 1:
		ctorMac = otherMac
		opts = append(opts, nclient4.WithHWAddr(mac))
	case 2:
		ctorMac = nil
		opts = append(opts, nclient4.WithHWAddr(mac))
	}
	c, err := nclient4.NewWithConn(conn, ctorMac, opts...)
	if err != nil {
		panic(err)
	}
	setBufCap(c, s.cfg.BufCap)
	return &api4{c: c, dest: dest, mt: s.cfg.MsgType, big: s.cfg.BigReq}
}

// xidMap (set per run): how the model's transaction ids 7 and 8 appear on the wire - ordinary values, or the ends of the
// domain (all zeroes is what a hand-built message carries and as legal as any other value; all ones)
var xidMap int

func xid4(x int) dhcpv4.TransactionID {
	if xidMap == 1 && x == 7 || xidMap == 2 && x == 8 {
		return dhcpv4.TransactionID{}
	}
	if xidMap == 1 && x == 8 || xidMap == 2 && x == 7 {
		return dhcpv4.TransactionID{0xff, 0xff, 0xff, 0xff}
	}
	return dhcpv4.TransactionID{0xab, byte(x >> 16), byte(x >> 8), byte(x)}
}

func (a *api4) IDOf(p any) int {
	m, _ := p.(*dhcpv4.DHCPv4)
	if m == nil {
		return 0
	}
	v := m.Options.Get(dhcpv4.GenericOptionCode(idOpt4))
	if len(v) != 2 {
		return -1
	}
	return int(v[0])<<8 | int(v[1])
}

func (a *api4) Call(ctx context.Context, xid int, verdict func(int, bool) bool, nilMatch bool, onReq func([]byte)) (int, bool, error) {
	return a.Prepare(ctx, xid, verdict, nilMatch, onReq)()
}

func (a *api4) Prepare(ctx context.Context, xid int, verdict func(int, bool) bool, nilMatch bool, onReq func([]byte)) func() (int, bool, error) {
	// the library's own DISCOVER plus what a real client adds: a parameter request list that is not in code
	// order, a host name, a relay agent option, a route list with host bits
	req, err := dhcpv4.NewDiscovery(mac, dhcpv4.WithTransactionID(xid4(xid)),
		dhcpv4.WithRequestedOptions(dhcpv4.OptionNTPServers, dhcpv4.OptionBootfileName, dhcpv4.OptionDomainNameServer),
		dhcpv4.WithOption(dhcpv4.OptHostName("host7")),
		dhcpv4.WithOption(dhcpv4.OptRelayAgentInfo(dhcpv4.OptGeneric(dhcpv4.GenericOptionCode(1), []byte("port-7")))),
		dhcpv4.WithGeneric(dhcpv4.OptionClasslessStaticRoute, []byte{20, 10, 1, 31, 10, 0, 0, 1}))
	if err != nil {
		panic(err)
	}
	if a.mt != 0 {
		req.UpdateOption(dhcpv4.OptMessageType(dhcpv4.MessageType(a.mt))) // the schedule is the same whatever is being sent
	}
	if a.big > 0 { // requests larger than an Ethernet frame (vendor information, long class data): sent like any other
		req.UpdateOption(dhcpv4.OptGeneric(dhcpv4.OptionVendorSpecificInformation, make([]byte, a.big)))
	}
	onReq(req.ToBytes())
	var m nclient4.Matcher
	if !nilMatch {
		m = func(p *dhcpv4.DHCPv4) bool { return verdict(a.IDOf(p), p == nil) }
	}
	return func() (int, bool, error) {
		resp, err := a.c.SendAndRead(ctx, a.dest, req, m)
		if err != nil {
			return 0, false, err
		}
		return a.IDOf(resp), resp == nil, nil
	}
}

// High: the calls built on SendAndRead (kind 1: DiscoverOffer, 2: Inform, 3: Request); they send to the client's server address
func (a *api4) High(ctx context.Context, xid int, kind int) (*net.UDPAddr, func() error) {
	x := dhcpv4.WithTransactionID(xid4(xid))
	dest := a.c.RemoteAddr()
	switch kind {
	case 2:
		return dest, func() error { _, err := a.c.Inform(ctx, net.IPv4(10, 0, 0, 77), x); return err }
	case 3:
		return dest, func() error { _, err := a.c.Request(ctx, x); return err }
	}
	return dest, func() error { _, err := a.c.DiscoverOffer(ctx, x); return err }
}

// Fire: Release of a lease whose ACK names server 10.77.0.<x>; the RELEASE carries the caller's transaction id
func (a *api4) Fire(xid int) (*net.UDPAddr, func() error, bool) {
	srv := net.IPv4(10, 77, 0, byte(1+xid%200)).To4()
	ack, err := dhcpv4.New(dhcpv4.WithMessageType(dhcpv4.MessageTypeAck), dhcpv4.WithYourIP(net.IPv4(10, 77, 1, 9)), dhcpv4.WithHwAddr(mac),
		dhcpv4.WithServerIP(srv), dhcpv4.WithOption(dhcpv4.OptServerIdentifier(srv)), dhcpv4.WithLeaseTime(3600))
	if err != nil {
		panic(err)
	}
	lease := &nclient4.Lease{Offer: ack, ACK: ack, CreationTime: time.Now()}
	return &net.UDPAddr{IP: srv, Port: 67}, func() error { return a.c.Release(lease, dhcpv4.WithTransactionID(xid4(xid))) }, true
}

func (a *api4) Close() error { return a.c.Close() }

func (a *api4) Classify(err error) string {
	var inuse *nclient4.ErrTransactionIDInUse
	switch {
	case errors.Is(err, nclient4.ErrNoResponse):
		return "noresp"
	case errors.Is(err, context.Canceled), errors.Is(err, context.DeadlineExceeded):
		return "ctx"
	case errors.As(err, &inuse):
		return "inuse"
	case strings.Contains(err.Error(), "error writing packet"):
		return "writeerr"
	}
	return "err:" + err.Error()
}

func (a *api4) Datagram(id, xid int, kind string) []byte {
	if kind == "undec" {
		switch id % 4 {
		case 0:
			return []byte{2, 1, 6, 0, byte(id), 1, 2, 3}
		case 1:
			return []byte{} // a zero-length datagram is legal UDP
		case 2: // right header, wrong magic cookie
			p, _ := dhcpv4.New(dhcpv4.WithTransactionID(xid4(xid)), dhcpv4.WithHwAddr(mac))
			p.OpCode = dhcpv4.OpcodeBootReply
			b := p.ToBytes()
			b[236] ^= 0xff
			return b
		default: // an option that overruns the packet
			p, _ := dhcpv4.New(dhcpv4.WithTransactionID(xid4(xid)), dhcpv4.WithHwAddr(mac))
			p.OpCode = dhcpv4.OpcodeBootReply
			return append(p.ToBytes()[:240], 53, 9, 1)
		}
	}
	p, _ := dhcpv4.New(dhcpv4.WithTransactionID(xid4(xid)), dhcpv4.WithHwAddr(mac), dhcpv4.WithMessageType(dhcpv4.MessageTypeOffer),
		dhcpv4.WithGeneric(dhcpv4.GenericOptionCode(idOpt4), []byte{byte(id >> 8), byte(id)}))
	p.OpCode = dhcpv4.OpcodeBootReply
	switch kind {
	case "wrongop":
		p.OpCode = dhcpv4.OpcodeBootRequest
	case "wronghw":
		switch id % 4 {
		case 0:
			p.ClientHWAddr = otherMac
		case 3:
			p.ClientHWAddr = append(net.HardwareAddr{}, mac[:3]...) // a shorter address that is a prefix of the client's
		case 1:
			p.ClientHWAddr = nil // hlen 0: still not this client's address
		default:
			p.ClientHWAddr = append(append(net.HardwareAddr{}, mac...), 0) // longer address with the client's as prefix
		}
	}
	if id%5 == 0 { // a datagram that fills the client's read buffer exactly
		padTo4(p, nclient4.MaxMessageSize)
	}
	b := p.ToBytes()
	if id%3 == 1 {
		// servers that stop right after the End option (no padding to the 300 octets of BOOTP): as good a datagram as any
		e := len(b)
		for e > 241 && b[e-1] == 0 {
			e--
		}
		if b[e-1] == 255 {
			b = b[:e]
		}
	}
	return b
}

// padTo4 adds opaque options until the packet encodes to exactly n bytes (the packet must be at least 3 bytes short)
func padTo4(p *dhcpv4.DHCPv4, n int) {
	for code := uint8(150); len(p.ToBytes()) < n; code++ {
		room := n - len(p.ToBytes())
		switch {
		case room >= 300:
			p.Options[code] = make([]byte, 255)
		case room-2 <= 255 && room >= 3:
			p.Options[code] = make([]byte, room-2)
		default:
			p.Options[code] = make([]byte, 20)
		}
	}
}

// ------------------------------------------------------------------ nclient6
type api6 struct {
	c    *nclient6.Client
	dest *net.UDPAddr
	mt   int
	big  int
}

const idOpt6 = 65001

func newAPI6(s *Sim, conn net.PacketConn) *api6 {
	nclient6.VerifHook = s.hook
	// the requested destination is the whole address: a link-local or multicast address means nothing without its zone
	dest := []*net.UDPAddr{{IP: net.ParseIP("fe80::9"), Port: 5547}, {IP: net.ParseIP("fe80::1"), Port: 547, Zone: "eth7"},
		{IP: net.ParseIP("ff02::1:2"), Port: 547, Zone: "eth7"}, {IP: net.ParseIP("2001:db8::5"), Port: 547}}[s.cfg.Dest%4]
	opts := []nclient6.ClientOpt{nclient6.WithTimeout(time.Duration(s.cfg.T) * unit), nclient6.WithRetry(s.cfg.Tries)}
	switch s.cfg.Log {
	case 1:
		opts = append(opts, nclient6.WithSummaryLogger())
	case 2:
		opts = append(opts, nclient6.WithDebugLogger())
	case 3:
		opts = append(opts, nclient6.WithLogDroppedPackets())
	}
	c, err := nclient6.NewWithConn(conn, mac, opts...)
	if err != nil {
		panic(err)
	}
	setBufCap(c, s.cfg.BufCap)
	return &api6{c: c, dest: dest, mt: s.cfg.MsgType, big: s.cfg.BigReq}
}

func xid6(x int) dhcpv6.TransactionID {
	if xidMap == 1 && x == 7 || xidMap == 2 && x == 8 {
		return dhcpv6.TransactionID{}
	}
	if xidMap == 1 && x == 8 || xidMap == 2 && x == 7 {
		return dhcpv6.TransactionID{0xff, 0xff, 0xff}
	}
	return dhcpv6.TransactionID{byte(x >> 16), byte(x >> 8), byte(x)}
}

func (a *api6) IDOf(p any) int {
	m, _ := p.(*dhcpv6.Message)
	if m == nil {
		return 0
	}
	o := m.GetOneOption(dhcpv6.OptionCode(idOpt6))
	if o == nil || len(o.ToBytes()) != 2 {
		return -1
	}
	v := o.ToBytes()
	return int(v[0])<<8 | int(v[1])
}

func (a *api6) Call(ctx context.Context, xid int, verdict func(int, bool) bool, nilMatch bool, onReq func([]byte)) (int, bool, error) {
	return a.Prepare(ctx, xid, verdict, nilMatch, onReq)()
}

func (a *api6) Prepare(ctx context.Context, xid int, verdict func(int, bool) bool, nilMatch bool, onReq func([]byte)) func() (int, bool, error) {
	// the library's own SOLICIT (client id, option request, elapsed time, IA_NA: not in code order), plus a
	// second option request option and a name list
	req, err := dhcpv6.NewSolicit(mac, dhcpv6.WithRequestedOptions(dhcpv6.OptionNTPServer, dhcpv6.OptionBootfileURL, dhcpv6.OptionDNSRecursiveNameServer))
	if err != nil {
		panic(err)
	}
	req.TransactionID = xid6(xid)
	if a.mt != 0 {
		req.MessageType = dhcpv6.MessageType(a.mt) // the schedule is the same whatever is being sent
	}
	req.AddOption(&dhcpv6.OptFQDN{DomainName: &rfc1035label.Labels{Labels: []string{"host.example.org"}}})
	req.AddOption(dhcpv6.OptRequestedOption(dhcpv6.OptionSNTPServerList, dhcpv6.OptionDomainSearchList))
	if a.big > 0 {
		req.AddOption(&dhcpv6.OptVendorOpts{EnterpriseNumber: 9, VendorOpts: dhcpv6.Options{&dhcpv6.OptionGeneric{OptionCode: 1, OptionData: make([]byte, a.big)}}})
	}
	onReq(req.ToBytes())
	var m nclient6.Matcher
	if !nilMatch {
		m = func(p *dhcpv6.Message) bool { return verdict(a.IDOf(p), p == nil) }
	}
	return func() (int, bool, error) {
		resp, err := a.c.SendAndRead(ctx, a.dest, req, m)
		if err != nil {
			return 0, false, err
		}
		return a.IDOf(resp), resp == nil, nil
	}
}

func (a *api6) Fire(xid int) (*net.UDPAddr, func() error, bool) { return nil, nil, false } // nclient6 has no such call

// High: the calls built on SendAndRead (kind 1: Solicit, 2: RapidSolicit, 3: Solicit again)
func (a *api6) High(ctx context.Context, xid int, kind int) (*net.UDPAddr, func() error) {
	x := func(d dhcpv6.DHCPv6) {
		if m, ok := d.(*dhcpv6.Message); ok {
			m.TransactionID = xid6(xid)
		}
	}
	dest := a.c.RemoteAddr()
	if kind == 2 {
		return dest, func() error { _, err := a.c.RapidSolicit(ctx, x); return err }
	}
	return dest, func() error { _, err := a.c.Solicit(ctx, x); return err }
}

func (a *api6) Close() error { return a.c.Close() }

func (a *api6) Classify(err error) string {
	switch {
	case errors.Is(err, nclient6.ErrNoResponse):
		return "noresp"
	case errors.Is(err, context.Canceled), errors.Is(err, context.DeadlineExceeded):
		return "ctx"
	case strings.Contains(err.Error(), "already in use"):
		return "inuse"
	case strings.Contains(err.Error(), "error writing packet"):
		return "writeerr"
	}
	return "err:" + err.Error()
}

func (a *api6) Datagram(id, xid int, kind string) []byte {
	if kind == "undec" {
		switch id % 8 {
		case 4:
			return []byte{} // a zero-length datagram is legal UDP
		case 5: // what begins like a relay message and is not one: cut inside its header, cut inside its options
			good := a.Datagram(id, xid, "good")
			relay := append(append([]byte{byte(12 + id/8%2), 0}, make([]byte, 32)...), 0, 9, byte(len(good)>>8), byte(len(good)))
			relay = append(relay, good...)
			return relay[:[]int{1, 2, 20, 33, 36, 40}[id/8%6]]
		case 6: // one octet: any message type
			return []byte{byte(id)}
		case 7: // a relay message whose relayed message does not decode
			return append(append([]byte{13, 0}, make([]byte, 32)...), 0, 9, 0, 3, 7, 1, 2)
		case 0:
			return []byte{7, byte(id)} // truncated header
		case 1:
			// a relay message is not a client's message, whatever it carries: here a complete, acceptable reply to the call
			good := a.Datagram(id, xid, "good")
			relay := append(append([]byte{13, 0}, make([]byte, 32)...), 0, 9, byte(len(good)>>8), byte(len(good)))
			relay = append(relay, good...)
			if id%2 == 0 { // ... two levels deep
				relay = append(append(append([]byte{12, 1}, make([]byte, 32)...), 0, 9, byte(len(relay)>>8), byte(len(relay))), relay...)
			}
			return relay
		case 2: // an option that overruns the datagram, after a well-formed one
			x := xid6(xid)
			return []byte{7, x[0], x[1], x[2], 0, 14, 0, 0, 0, 1, 0, 40, 0, 1, 2, 3, 4, 5, 6, 7, 8, 9}
		default: // a client id that is too short to be a DUID
			x := xid6(xid)
			return []byte{7, x[0], x[1], x[2], 0, 1, 0, 1, 9, 0, 8, 0, 2, 0, 0}
		}
	}
	m, _ := dhcpv6.NewMessage()
	m.MessageType = dhcpv6.MessageTypeReply
	m.TransactionID = xid6(xid)
	// what a server's reply carries; the harness's own marker goes last. The client identifier is whatever the request bore -
	// a device's own DUID of any kind, not necessarily one made from the interface's address: it is the transaction id that
	// pairs a reply with its call
	switch id % 6 {
	case 1:
		m.AddOption(dhcpv6.OptClientID(&dhcpv6.DUIDLL{HWType: 1, LinkLayerAddr: otherMac}))
	case 2:
		m.AddOption(dhcpv6.OptClientID(&dhcpv6.DUIDEN{EnterpriseNumber: 9, EnterpriseIdentifier: []byte("device-7")}))
	case 3:
		m.AddOption(dhcpv6.OptClientID(&dhcpv6.DUIDLLT{HWType: 1, Time: 0x2a2a2a2a, LinkLayerAddr: net.HardwareAddr{2, 9, 9, 9, 9, 9}}))
	case 4:
		// (no client identifier at all)
	default:
		m.AddOption(dhcpv6.OptClientID(&dhcpv6.DUIDLL{HWType: 1, LinkLayerAddr: mac}))
	}
	m.AddOption(dhcpv6.OptServerID(&dhcpv6.DUIDLL{HWType: 1, LinkLayerAddr: otherMac}))
	if id%4 == 2 { // a configuration of some size: name servers, a search list of nine names (more than 255 octets in all)
		m.AddOption(dhcpv6.OptDNS(net.ParseIP("2001:db8::53"), net.ParseIP("2001:db8::54")))
		var names []string
		for k := 0; k < 9; k++ {
			names = append(names, fmt.Sprintf("department-%02d.campus-%02d.example.org", k, id%100))
		}
		m.AddOption(dhcpv6.OptDomainSearchList(&rfc1035label.Labels{Labels: names}))
	}
	if id%5 == 0 { // a datagram that fills the client's 1500-byte read buffer exactly
		m.AddOption(&dhcpv6.OptionGeneric{OptionCode: 65002, OptionData: make([]byte, 1500-len(m.ToBytes())-4-6)})
	}
	m.AddOption(&dhcpv6.OptionGeneric{OptionCode: dhcpv6.OptionCode(idOpt6), OptionData: []byte{byte(id >> 8), byte(id)}})
	return m.ToBytes()
}
