// Package serversim drives the real server4 / server6 serving loops over a scripted
// net.PacketConn inside a testing/synctest bubble and records what they do as actions of
// spec/Server.tla. TLC judges the recorded executions (spec/trace/Trace_Server.tla).
package serversim

import (
	"bufio"
	"crypto/sha256"
	"encoding/hex"
	"encoding/json"
	"errors"
	"fmt"
	"io"
	"log"
	"math/rand"
	"net"
	"os"
	"runtime"
	"sort"
	"strings"
	"strconv"
	"sync"
	"testing"
	"testing/synctest"
	"time"

	"github.com/insomniacslk/dhcp/dhcpv4"
	"github.com/insomniacslk/dhcp/dhcpv4/server4"
	"github.com/insomniacslk/dhcp/dhcpv6"
	"github.com/insomniacslk/dhcp/iana"
	"github.com/insomniacslk/dhcp/dhcpv6/server6"
)

type dgram struct {
	id     int
	kind   string
	sender string
	big    int // a valid datagram padded to this many bytes (0: as it comes)
	port   int
	b      []byte
}

type rec struct {
	prio int
	m    map[string]any
}

type sim struct {
	closeFrom map[int]bool // handlers (by datagram) that close the connection when they are let go
	soak int // > 0: the run starts with that class of skipped datagram by the hundred
	v4   bool
	rng  *rand.Rand
	mu   sync.Mutex
	recs []rec
	q    []*dgram
	all  []*dgram
	loops   int                    // goroutines running Serve on the one server
	loopOf  map[uint64]int         // goroutine id -> loop
	deliver map[int]chan struct{}  // per loop: the next datagram goes to this loop's pending ReadFrom
	retGate map[int]chan struct{}  // per loop: a ReadFrom that has filled its buffer and waits to return
	closed  bool
	closeCh chan struct{}
	gates   map[int]chan struct{}
	order   []int // ids of spawned handlers in spawn order
	trace   []map[string]any
	returned bool
	returnedLoop map[int]bool
	// burst mode: datagrams are queued in the socket and ReadFrom hands them out without a scheduler in between
	// (real parallelism between the loop and its handler goroutines)
	burst       bool
	burstReads  []int
	burstSpawns []map[string]any
	burstFin    []map[string]any
	burstWG     sync.WaitGroup
}

// the stock loggers write to os.Stderr as it is when the option is built: silence it for this test process
func init() {
	if f, err := os.OpenFile(os.DevNull, os.O_WRONLY, 0); err == nil {
		os.Stderr = f
	}
}

func goid() uint64 {
	var buf [64]byte
	n := runtime.Stack(buf[:], false)
	f := strings.Fields(string(buf[:n]))
	id, _ := strconv.ParseUint(f[1], 10, 64)
	return id
}

func h(b []byte) string { s := sha256.Sum256(b); return hex.EncodeToString(s[:8]) }

func (s *sim) add(prio int, a string, kv ...any) {
	m := map[string]any{"a": a}
	for i := 0; i+1 < len(kv); i += 2 {
		m[kv[i].(string)] = kv[i+1]
	}
	s.mu.Lock()
	s.recs = append(s.recs, rec{prio, m})
	s.mu.Unlock()
}

func (s *sim) flush() {
	synctest.Wait()
	s.mu.Lock()
	rs := s.recs
	s.recs = nil
	s.mu.Unlock()
	sort.SliceStable(rs, func(i, j int) bool { return rs[i].prio < rs[j].prio })
	for _, r := range rs {
		s.trace = append(s.trace, r.m)
	}
}

// ---- scripted conn
var errClosed = errors.New("use of closed network connection")
var errRead = errors.New("read: connection refused")

func (s *sim) ReadFrom(b []byte) (int, net.Addr, error) {
	if s.burst {
		s.mu.Lock()
		if len(s.q) == 0 {
			s.mu.Unlock()
			<-s.closeCh
			return 0, nil, errClosed
		}
		d := s.q[0]
		s.q = s.q[1:]
		s.burstReads = append(s.burstReads, d.id)
		s.mu.Unlock()
		return copy(b, d.b), s.senderAddr(d), nil
	}
	s.mu.Lock()
	lp := s.loopOf[goid()]
	dl := s.deliver[lp]
	s.mu.Unlock()
	s.add(3, "ReadCall", "lp", lp)
	select {
	case <-dl:
	case <-s.closeCh:
		return 0, nil, errClosed
	}
	s.mu.Lock()
	d := s.q[0]
	s.q = s.q[1:]
	gate := make(chan struct{})
	s.retGate[lp] = gate
	s.mu.Unlock()
	n := 0
	if d.kind != "err" {
		n = copy(b, d.b) // the caller's buffer holds the datagram from here on
	}
	s.add(1, "Read", "id", d.id, "lp", lp)
	<-gate // the scheduler decides when this ReadFrom returns (another loop may read in between)
	if d.kind == "err" {
		return 0, nil, errRead
	}
	return n, s.senderAddr(d), nil
}

func (s *sim) senderAddr(d *dgram) net.Addr {
	var ip net.IP
	switch d.sender {
	case "nonudp": // a connection whose senders are not UDP addresses (a raw IP or packet socket behind WithConn)
		return &net.IPAddr{IP: net.IPv4(10, 1, 2, byte(d.id))}
	case "ip":
		// every datagram from a sender of its own (a server meets thousands of them in its life)
		if s.v4 {
			ip = net.IPv4(10, 1, byte(d.id>>8), byte(d.id))
		} else {
			ip = net.ParseIP(fmt.Sprintf("fe80::%x", d.id+1))
		}
	case "zeroip":
		if s.v4 {
			ip = net.IPv4zero
			if d.id%2 == 0 {
				ip = net.IP{0, 0, 0, 0}
			}
		} else {
			ip = net.IPv6unspecified
		}
	}
	return &net.UDPAddr{IP: ip, Port: d.port}
}

func (s *sim) WriteTo(b []byte, a net.Addr) (int, error) { return len(b), nil }
func (s *sim) Close() error {
	s.mu.Lock()
	if !s.closed {
		s.closed = true
		close(s.closeCh)
	}
	s.mu.Unlock()
	return nil
}
func (s *sim) LocalAddr() net.Addr                { return &net.UDPAddr{IP: net.IPv4zero, Port: 67} }
func (s *sim) SetDeadline(time.Time) error      { return nil }
func (s *sim) SetReadDeadline(time.Time) error  { return nil }
func (s *sim) SetWriteDeadline(time.Time) error { return nil }

func (s *sim) peerDesc(d *dgram, peer net.Addr) map[string]any {
	u, ok := peer.(*net.UDPAddr)
	if !ok {
		return map[string]any{"addr": "nonudp", "port": 0}
	}
	want, _ := s.senderAddr(d).(*net.UDPAddr)
	if want == nil {
		return map[string]any{"addr": "other", "port": u.Port}
	}
	addr := "other"
	switch {
	case u.IP.Equal(net.IPv4bcast):
		addr = "bcast"
	case u.IP == nil && want.IP == nil:
		addr = "noip"
	case u.IP != nil && want.IP != nil && u.IP.Equal(want.IP):
		addr = d.sender
	}
	return map[string]any{"addr": addr, "port": u.Port}
}

func (s *sim) handle(conn net.PacketConn, peer net.Addr, enc func() []byte) {
	if s.burst {
		s.burstWG.Add(1)
		defer s.burstWG.Done()
		b := enc()
		id := -1
		var d *dgram
		s.mu.Lock()
		for _, x := range s.all {
			if x.kind == "valid" && string(x.b) == string(b) {
				id, d = x.id, x
			}
		}
		s.mu.Unlock()
		if d == nil {
			s.mu.Lock()
			s.burstSpawns = append(s.burstSpawns, map[string]any{"a": "Spawn", "id": -1, "peer": map[string]any{"addr": "?", "port": 0}, "mh": h(b), "sh": "unknown"})
			s.mu.Unlock()
			return
		}
		sp := map[string]any{"a": "Spawn", "id": id, "peer": s.peerDesc(d, peer), "mh": h(b), "sh": h(d.b)}
		s.mu.Lock()
		s.burstSpawns = append(s.burstSpawns, sp)
		s.mu.Unlock()
		time.Sleep(2 * time.Millisecond) // the handler outlives the next reads
		fin := map[string]any{"a": "Finish", "id": id, "mh": h(enc()), "sh": h(d.b)}
		s.mu.Lock()
		s.burstFin = append(s.burstFin, fin)
		s.mu.Unlock()
		return
	}
	b := enc()
	id := -1
	var d *dgram
	s.mu.Lock()
	// identify the datagram by content (every valid datagram is unique)
	for _, x := range s.all {
		if x.kind == "valid" && string(x.b) == string(b) {
			id, d = x.id, x
		}
	}
	gate := make(chan struct{})
	if d != nil {
		s.gates[id] = gate
		s.order = append(s.order, id)
	}
	s.mu.Unlock()
	if d == nil {
		s.add(2, "Spawn", "id", -1, "peer", map[string]any{"addr": "?", "port": 0}, "mh", h(b), "sh", "unknown")
		return
	}
	s.add(2, "Spawn", "id", id, "peer", s.peerDesc(d, peer), "mh", h(b), "sh", h(d.b))
	<-gate
	s.mu.Lock()
	closes := s.closeFrom[id]
	s.mu.Unlock()
	if closes {
		// a handler that shuts the server down: it closes the connection it was handed
		s.add(1, "Close")
		conn.Close()
	}
	s.add(2, "Finish", "id", id, "mh", h(enc()), "sh", h(d.b))
}

// ---- datagram contents
func (s *sim) validBytes(id int) []byte {
	if s.v4 {
		types := []dhcpv4.MessageType{dhcpv4.MessageTypeDiscover, dhcpv4.MessageTypeOffer, dhcpv4.MessageTypeRequest, dhcpv4.MessageTypeDecline,
			dhcpv4.MessageTypeAck, dhcpv4.MessageTypeNak, dhcpv4.MessageTypeRelease, dhcpv4.MessageTypeInform}
		p, _ := dhcpv4.New(dhcpv4.WithMessageType(types[s.rng.Intn(len(types))]),
			dhcpv4.WithGeneric(dhcpv4.GenericOptionCode(224), []byte{byte(id >> 8), byte(id)}),
			dhcpv4.WithHwAddr(net.HardwareAddr{2, 0, 0, 0, byte(id >> 8), byte(id)}))
		if s.rng.Intn(2) == 0 {
			p.OpCode = dhcpv4.OpcodeBootReply
		}
		if s.rng.Intn(5) == 0 {
			p.OpCode = dhcpv4.OpcodeType([]int{0, 3, 4, 128, 255}[s.rng.Intn(5)]) // decodable is decodable: the op octet is the handler's business
		}
		// header fields over their whole range: the message handed to the handler is the datagram's decoding, field by field
		pickU16 := func() uint16 {
			return []uint16{0, 1, 255, 256, 512, 0xff00, 0x8000, 0xffff, uint16(s.rng.Intn(65536))}[s.rng.Intn(9)]
		}
		p.NumSeconds, p.Flags, p.HopCount = pickU16(), pickU16(), uint8(pickU16())
		if s.rng.Intn(2) == 0 {
			p.ClientIPAddr = net.IPv4(10, 2, byte(id>>8), byte(id)).To4()
			p.YourIPAddr = net.IPv4(10, 3, byte(s.rng.Intn(256)), byte(id)).To4()
			p.ServerIPAddr = net.IPv4(10, 4, 0, byte(s.rng.Intn(256))).To4()
			p.ServerHostName, p.BootFileName = "srv"+string(rune('a'+id%26)), "boot/"+string(rune('a'+id%26))+".efi"
			p.HWType = iana.HWType([]int{1, 6, 32, 0, 255}[s.rng.Intn(5)])
		}
		if s.rng.Intn(2) == 0 {
			p.UpdateOption(dhcpv4.OptGeneric(dhcpv4.GenericOptionCode(200), make([]byte, 300+s.rng.Intn(300))))
		}
		if s.rng.Intn(3) == 0 {
			// options that are complete without a value: rapid commit (RFC 4039), and an empty one of a code nobody knows
			p.UpdateOption(dhcpv4.OptGeneric(dhcpv4.GenericOptionCode(80), []byte{}))
			if s.rng.Intn(2) == 0 {
				p.UpdateOption(dhcpv4.OptGeneric(dhcpv4.GenericOptionCode(210), []byte{}))
			}
		}
		if s.rng.Intn(2) == 0 { // what relayed client traffic carries
			p.UpdateOption(dhcpv4.OptRelayAgentInfo(dhcpv4.OptGeneric(dhcpv4.GenericOptionCode(1), []byte{'c', byte(id), byte(s.rng.Intn(256))}),
				dhcpv4.OptGeneric(dhcpv4.GenericOptionCode(2), []byte{'r', byte(id >> 8)})))
			p.UpdateOption(dhcpv4.OptClientIdentifier([]byte{1, 2, 0, 0, 0, byte(id >> 8), byte(id)}))
			p.UpdateOption(dhcpv4.OptHostName("host" + string(rune('a'+id%26))))
			p.UpdateOption(dhcpv4.OptParameterRequestList(dhcpv4.OptionRouter, dhcpv4.OptionSubnetMask, dhcpv4.OptionDomainNameServer))
			p.GatewayIPAddr = net.IPv4(10, 1, byte(id>>8), byte(id)).To4()
		}
		return p.ToBytes()
	}
	m, _ := dhcpv6.NewMessage()
	m.MessageType = dhcpv6.MessageType(1 + s.rng.Intn(11))
	m.TransactionID = dhcpv6.TransactionID{byte(id >> 8), byte(id), 7}
	m.AddOption(&dhcpv6.OptionGeneric{OptionCode: 65001, OptionData: []byte{byte(id >> 8), byte(id)}})
	m.AddOption(dhcpv6.OptElapsedTime(time.Duration(id) * 10 * time.Millisecond))
	if s.rng.Intn(2) == 0 { // what a client's message carries
		m.AddOption(dhcpv6.OptClientID(&dhcpv6.DUIDLLT{HWType: 1, Time: uint32(id), LinkLayerAddr: net.HardwareAddr{2, 0, 0, 0, byte(id >> 8), byte(id)}}))
		ia := &dhcpv6.OptIANA{T1: time.Hour, T2: 2 * time.Hour}
		ia.IaId = [4]byte{byte(id), 2, 3, 4}
		ia.Options.Options = dhcpv6.Options{&dhcpv6.OptIAAddress{IPv6Addr: net.ParseIP("2001:db8::77"), PreferredLifetime: time.Hour, ValidLifetime: 2 * time.Hour}}
		m.AddOption(ia)
		m.AddOption(dhcpv6.OptRequestedOption(dhcpv6.OptionDNSRecursiveNameServer, dhcpv6.OptionDomainSearchList))
		m.AddOption(&dhcpv6.OptVendorClass{EnterpriseNumber: 9, Data: [][]byte{[]byte("class"), {byte(id)}}})
		m.AddOption(&dhcpv6.OptUserClass{UserClasses: [][]byte{[]byte("uc"), {byte(id >> 8), byte(id)}}})
	}
	var d dhcpv6.DHCPv6 = m
	for depth := s.rng.Intn(4); depth > 0; depth-- {
		r, err := dhcpv6.EncapsulateRelay(d, dhcpv6.MessageTypeRelayForward, net.ParseIP("2001:db8::1"), net.ParseIP("fe80::2"))
		if err != nil {
			panic(err)
		}
		// what relay agents add at their level
		if s.rng.Intn(2) == 0 {
			r.AddOption(dhcpv6.OptInterfaceID([]byte{'i', 'f', byte(id), byte(depth), byte(s.rng.Intn(256))}))
		}
		if s.rng.Intn(2) == 0 {
			r.AddOption(&dhcpv6.OptRemoteID{EnterpriseNumber: 4242, RemoteID: []byte{byte(id >> 8), byte(id), byte(depth)}})
		}
		if s.rng.Intn(3) == 0 {
			r.AddOption(dhcpv6.OptClientLinkLayerAddress(1, net.HardwareAddr{2, 0, 0, byte(depth), byte(id >> 8), byte(id)}))
		}
		if s.rng.Intn(3) == 0 {
			// a relay that does not use the well-known port says so (RFC 8357); what the server does with it is the handler's business:
			// the peer handed to the handler is the sender of the datagram
			r.AddOption(dhcpv6.OptRelayPort([]uint16{0, 547, 546, 1547, 65535, uint16(1024 + id)}[s.rng.Intn(6)]))
		}
		if s.rng.Intn(4) == 0 {
			r.MessageType = dhcpv6.MessageTypeRelayReply // (a server that sits behind another server's relay sees these too)
		}
		d = r
	}
	if s.rng.Intn(6) == 0 {
		// a relay message that carries no relayed message: decodable, hence the handler's business
		r := &dhcpv6.RelayMessage{MessageType: dhcpv6.MessageTypeRelayForward, HopCount: uint8(id), LinkAddr: net.ParseIP("2001:db8::1"), PeerAddr: net.ParseIP("fe80::2")}
		r.AddOption(dhcpv6.OptInterfaceID([]byte{'x', byte(id >> 8), byte(id)}))
		d = r
		for depth := s.rng.Intn(3); depth > 0; depth-- {
			d, _ = dhcpv6.EncapsulateRelay(d, dhcpv6.MessageTypeRelayForward, net.ParseIP("2001:db8::3"), net.ParseIP("fe80::4"))
		}
	}
	return d.ToBytes()
}

// padTo re-builds the valid datagram b with opaque options so that it is exactly n bytes long
func (s *sim) padTo(b []byte, id, n int) []byte {
	if len(b)+8 > n {
		return b
	}
	if !s.v4 {
		room := n - len(b) - 4
		pad := append([]byte{0xfd, 0xea, byte(room >> 8), byte(room)}, make([]byte, room)...) // option 65002
		if b[0] == 12 || b[0] == 13 {
			return b // (options of a relay go in front of what it relays; left as it is)
		}
		return append(append([]byte(nil), b...), pad...)
	}
	p, err := dhcpv4.FromBytes(b)
	if err != nil {
		return b
	}
	for code := 201; code < 224; code++ {
		cur := len(p.ToBytes())
		room := n - cur // each further option costs 2 + its length
		if cur <= 300 || room < 2 {
			if cur > 300 {
				break
			}
			p.UpdateOption(dhcpv4.OptGeneric(dhcpv4.GenericOptionCode(code), make([]byte, 100))) // get past the 300-byte minimum first
			continue
		}
		l := room - 2
		if l > 255 {
			l = 255
			if room-257 == 1 {
				l = 254 // never leave a single byte over
			}
		}
		p.UpdateOption(dhcpv4.OptGeneric(dhcpv4.GenericOptionCode(code), make([]byte, l)))
	}
	out := p.ToBytes()
	if len(out) != n {
		return b
	}
	return out
}

func (s *sim) arrive(kind, sender string, port int) {
	id := len(s.all) + 1
	d := &dgram{id: id, kind: kind, sender: sender, port: port}
	switch kind {
	case "valid":
		d.b = s.validBytes(id)
		if s.rng.Intn(8) == 0 {
			// a datagram that fills the server's 4096-byte read buffer to the last byte, or all but one (it arrives whole)
			d.b = s.padTo(d.b, id, 4096-s.rng.Intn(2))
		}
	case "undec":
		// every way a datagram can fail to decode (C04 / C05): too short, an option that overruns, no End option after
		// well-formed options, a bad cookie, an option of a known type that breaks its own layout rule, a relay around a
		// message that does not decode
		if s.v4 {
			v := s.validBytes(id)
			switch id % 6 {
			case 0:
				d.b = []byte{1, 2, 3}
			case 1:
				d.b = append(v[:240], 53, 9, 1) // option overruns the packet
			case 2:
				d.b = append(v[:240], 53, 1, 1, 12, 4, 'h', 'o', 's', 't') // well-formed options, no End
			case 3:
				d.b = append([]byte(nil), v...)
				d.b[237] ^= 0x40 // not the magic cookie
			case 4:
				d.b = v[:239] // cut inside the cookie
			default:
				d.b = append(v[:240], 53, 1, 1, 61) // a code without its length octet
			}
		} else {
			switch id % 6 {
			case 0:
				d.b = []byte{12, 1}
			case 1:
				d.b = []byte{1, 0, 0, byte(id), 0, 1, 0, 9, 1} // option overruns the message
			case 2:
				d.b = []byte{1, 0, 0, byte(id), 0, 1, 0, 1, 9} // a client identifier too short to be a DUID
			case 3:
				d.b = append(append([]byte{12, 0}, make([]byte, 32)...), 0, 9, 0, 3, 1, 2, 3) // a relay around three octets
			case 4:
				d.b = []byte{1, 0, 0, byte(id), 0, 3, 0, 11, 1, 2, 3, 4, 0, 0, 0, 1, 0, 0, 0} // IA_NA cut short
			default:
				d.b = []byte{byte(id)} // one octet
				if id%12 >= 6 {
					// a relay whose relayed message is fine and whose own options are not: one that overruns after the relay
					// message option, one cut inside its header
					inner := []byte{1, 0, byte(id >> 8), byte(id), 0, 8, 0, 2, 0, 0}
					d.b = append(append(append([]byte{12, 0}, make([]byte, 32)...), 0, 9, 0, byte(len(inner))), inner...)
					d.b = append(d.b, [][]byte{{0, 18, 0, 9, 'x'}, {0, 18, 0}}[id/12%2]...)
				}
			}
		}
	case "empty":
		d.b = []byte{}
	}
	s.mu.Lock()
	s.all = append(s.all, d)
	s.q = append(s.q, d)
	s.mu.Unlock()
	s.trace = append(s.trace, map[string]any{"a": "Arrive", "kind": kind, "sender": sender, "port": port, "id": id})
}

type step []json.RawMessage

func (st step) name() string   { var n string; json.Unmarshal(st[0], &n); return n }
func (st step) int(i int) int  { var n int; json.Unmarshal(st[i], &n); return n }
func (st step) str(i int) string { var n string; json.Unmarshal(st[i], &n); return n }

func (s *sim) pendingReads() int { s.mu.Lock(); defer s.mu.Unlock(); return len(s.q) }

// soakClasses: the datagrams a server skips, by the hundred (whatever a skip path takes must be given back)
var soakClasses = [][2]string{{"undec", "ip"}, {"empty", "ip"}, {"valid", "nonudp"}, {"undec", "nonudp"}}

func (s *sim) run(t *testing.T, steps []step, randomN int) {
	if s.loops == 0 {
		s.loops = 1
	}
	s.deliver = map[int]chan struct{}{}
	s.retGate = map[int]chan struct{}{}
	s.loopOf = map[uint64]int{}
	s.returnedLoop = map[int]bool{}
	s.closeCh = make(chan struct{})
	s.gates = map[int]chan struct{}{}
	done := map[int]chan error{}
	for lp := 1; lp <= s.loops; lp++ {
		s.deliver[lp] = make(chan struct{})
		done[lp] = make(chan error, 1)
	}
	serve := func(f func() error) {
		for lp := 1; lp <= s.loops; lp++ {
			lp := lp
			go func() {
				s.mu.Lock()
				s.loopOf[goid()] = lp
				s.mu.Unlock()
				done[lp] <- f()
			}()
		}
	}
	if s.v4 {
		srv, err := server4.NewServer("", nil, func(conn net.PacketConn, peer net.Addr, m *dhcpv4.DHCPv4) {
			s.handle(conn, peer, m.ToBytes)
		}, append([]server4.ServerOpt{server4.WithConn(s)}, [][]server4.ServerOpt{nil, {server4.WithSummaryLogger()}, {server4.WithDebugLogger()},
			{server4.WithLogger(server4.DebugLogger{Printfer: log.New(io.Discard, "", 0)})}}[s.rng.Intn(4)]...)...) // any logging configuration
		if err != nil {
			t.Fatal(err)
		}
		serve(srv.Serve)
	} else {
		srv, err := server6.NewServer("", nil, func(conn net.PacketConn, peer net.Addr, m dhcpv6.DHCPv6) {
			s.handle(conn, peer, m.ToBytes)
		}, append([]server6.ServerOpt{server6.WithConn(s)}, [][]server6.ServerOpt{nil, {server6.WithSummaryLogger()}, {server6.WithDebugLogger()},
			{server6.WithLogger(server6.DebugLogger{Printfer: log.New(io.Discard, "", 0)})}}[s.rng.Intn(4)]...)...) // any logging configuration
		if err != nil {
			t.Fatal(err)
		}
		serve(srv.Serve)
	}
	s.flush()
	// doReturn lets loop lp's ReadFrom return (0: every parked one)
	doReturn := func(lp int) bool {
		s.mu.Lock()
		var gs []chan struct{}
		for l, g := range s.retGate {
			if lp == 0 || l == lp {
				gs = append(gs, g)
				delete(s.retGate, l)
			}
		}
		s.mu.Unlock()
		for _, g := range gs {
			close(g)
		}
		if len(gs) > 0 {
			s.flush()
			s.checkReturn(done)
		}
		return len(gs) > 0
	}
	// doRead hands the next datagram to loop lp's pending ReadFrom (0: whichever loop is waiting); the call
	// stays parked before returning until doReturn
	doRead := func(lp int) bool {
		if s.pendingReads() == 0 {
			return false
		}
		order := []int{lp}
		if lp == 0 {
			order = s.rng.Perm(s.loops)
			for i := range order {
				order[i]++
			}
		}
		for _, l := range order {
			s.mu.Lock()
			_, parked := s.retGate[l]
			s.mu.Unlock()
			if parked {
				continue
			}
			select {
			case s.deliver[l] <- struct{}{}:
				s.flush()
				return true
			default:
			}
		}
		return false
	}
	doFinish := func(k int) bool {
		s.mu.Lock()
		var g chan struct{}
		id := 0
		if k >= 1 && k <= len(s.order) {
			id = s.order[k-1]
			g = s.gates[id]
			delete(s.gates, id)
		}
		s.mu.Unlock()
		if g == nil {
			return false
		}
		if s.rng.Intn(25) == 0 {
			s.mu.Lock()
			if s.closeFrom == nil {
				s.closeFrom = map[int]bool{}
			}
			s.closeFrom[id] = true
			s.mu.Unlock()
		}
		close(g)
		s.flush()
		s.checkReturn(done)
		return true
	}
	doClose := func() {
		s.mu.Lock()
		c := s.closed
		s.mu.Unlock()
		if c && s.rng.Intn(3) > 0 {
			return // (one time in three Close is called again on the closed server)
		}
		if !c && s.rng.Intn(2) == 0 {
			doRead(0) // a read that has completed when Close lands: its datagram was received and is dispatched like any other
		}
		s.trace = append(s.trace, map[string]any{"a": "Close"})
		s.Close()
		s.flush()
		s.checkReturn(done)
	}
	for _, st := range steps {
		switch st.name() {
		case "Arrive":
			s.arrive(st.str(1), st.str(2), st.int(3))
		case "Read":
			doRead(st.int(1))
			if s.loops == 1 {
				doReturn(1)
			}
		case "Spawn", "ParseFail", "ReadErrReturn":
			doReturn(st.int(1))
		case "Finish":
			doFinish(st.int(1))
		case "Close":
			doClose()
		}
	}
	if s.soak > 0 {
		cl := soakClasses[(s.soak-1)%len(soakClasses)]
		cnt := 70 + s.rng.Intn(70)
		if s.soak > len(soakClasses) {
			cnt = 300 + s.rng.Intn(40) // ... and by the several hundred, each from a sender of its own
		}
		for i := 0; i < cnt; i++ {
			s.arrive(cl[0], cl[1], 68)
			doRead(0)
			doReturn(0)
		}
	}
	kinds := []string{"valid", "valid", "valid", "undec", "empty", "valid", "undec"}
	senders := []string{"ip", "noip", "zeroip", "ip", "ip", "noip", "zeroip", "ip", "nonudp"}
	for i := 0; i < randomN; i++ {
		switch r := s.rng.Intn(100); {
		case r < 40:
			k := kinds[s.rng.Intn(len(kinds))]
			if s.rng.Intn(60) == 0 {
				k = "err"
			}
			s.arrive(k, senders[s.rng.Intn(len(senders))], []int{68, 1068, 67, 40000 + s.rng.Intn(100)}[s.rng.Intn(4)])
		case r < 70:
			doRead(0)
			if s.loops == 1 || s.rng.Intn(3) == 0 {
				doReturn(0)
			}
		case r < 80:
			doReturn(1 + s.rng.Intn(s.loops))
		case r < 99:
			doFinish(1 + s.rng.Intn(len(s.order)+1))
		default:
			if s.rng.Intn(4) == 0 {
				doClose()
			}
		}
	}
	// drain: read what is left, close, finish every handler
	doReturn(0)
	for doRead(0) {
		doReturn(0)
	}
	doClose()
	doReturn(0)
	for k := 1; k <= len(s.order); k++ {
		doFinish(k)
	}
	s.trace = append(s.trace, map[string]any{"a": "End"})
}

// checkReturn records the Serve calls that have returned since the last look. Several may have returned in the
// same quiescent step: a read error in one loop closes the connection (deferred Close) and that ends the others,
// so the causes (read errors) are recorded before their effects (closed).
func (s *sim) checkReturn(dones map[int]chan error) {
	from := len(s.trace)
	for lp := 1; lp <= s.loops; lp++ {
		s.checkReturn1(lp, dones[lp])
	}
	sort.SliceStable(s.trace[from:], func(i, j int) bool {
		return s.trace[from+i]["ret"] == "readerr" && s.trace[from+j]["ret"] != "readerr"
	})
}

func (s *sim) checkReturn1(lp int, done chan error) {
	if s.returnedLoop[lp] {
		return
	}
	select {
	case err := <-done:
		s.returnedLoop[lp] = true
		s.returned = len(s.returnedLoop) == s.loops
		ret := "other"
		switch {
		case errors.Is(err, errClosed):
			ret = "closed"
		case errors.Is(err, errRead):
			ret = "readerr"
		case err == nil:
			ret = "nil"
		default:
			ret = "other:" + err.Error()
		}
		s.trace = append(s.trace, map[string]any{"a": "Return", "ret": ret, "lp": lp})
	default:
	}
}

func envInt(k string, d int) int {
	if v, err := strconv.Atoi(os.Getenv(k)); err == nil {
		return v
	}
	return d
}

// burstRun: n datagrams are already in the socket when Serve starts; the loop reads them back to back while the handler
// goroutines it starts are still on their way (no scheduler in between, real time). What was observed is written down in
// the order the specification has for a single loop: every read, followed by the handler invocations that carry that
// datagram's message.
func (s *sim) burstRun(n int) {
	s.burst = true
	s.loops = 1
	s.closeCh = make(chan struct{})
	kinds := []string{"valid", "valid", "valid", "valid", "undec", "empty", "valid"}
	senders := []string{"ip", "noip", "zeroip", "ip", "ip"}
	for i := 0; i < n; i++ {
		s.arrive(kinds[s.rng.Intn(len(kinds))], senders[s.rng.Intn(len(senders))], 1024+s.rng.Intn(60000))
	}
	ret := make(chan error, 1)
	if s.v4 {
		srv, err := server4.NewServer("", nil, func(conn net.PacketConn, peer net.Addr, m *dhcpv4.DHCPv4) {
			s.handle(conn, peer, m.ToBytes)
		}, server4.WithConn(s))
		if err != nil {
			panic(err)
		}
		go func() { ret <- srv.Serve() }()
	} else {
		srv, err := server6.NewServer("", nil, func(conn net.PacketConn, peer net.Addr, m dhcpv6.DHCPv6) {
			s.handle(conn, peer, m.ToBytes)
		}, server6.WithConn(s))
		if err != nil {
			panic(err)
		}
		go func() { ret <- srv.Serve() }()
	}
	for k := 0; k < 2000; k++ { // until the socket is empty
		s.mu.Lock()
		left := len(s.q)
		s.mu.Unlock()
		if left == 0 {
			break
		}
		time.Sleep(time.Millisecond)
	}
	// handlers that are started late (a loaded machine): wait until every datagram that decodes has had its invocation, two
	// seconds at most (a server that drops some is given that long and no longer)
	want := 0
	for _, d := range s.all {
		if d.kind == "valid" && !(s.v4 && d.sender == "nonudp") {
			want++
		}
	}
	for k := 0; k < 2000; k++ {
		s.mu.Lock()
		got := len(s.burstSpawns)
		s.mu.Unlock()
		if got >= want {
			break
		}
		time.Sleep(time.Millisecond)
	}
	time.Sleep(5 * time.Millisecond)
	s.burstWG.Wait()
	s.mu.Lock()
	reads, spawns, fins := s.burstReads, s.burstSpawns, s.burstFin
	s.mu.Unlock()
	used := map[int]bool{}
	for _, id := range reads {
		s.trace = append(s.trace, map[string]any{"a": "ReadCall", "lp": 1}, map[string]any{"a": "Read", "id": id, "lp": 1})
		for i, sp := range spawns {
			if sp["id"] == id && !used[i] {
				used[i] = true
				s.trace = append(s.trace, sp)
			}
		}
	}
	s.trace = append(s.trace, map[string]any{"a": "ReadCall", "lp": 1})
	for i, sp := range spawns { // invocations that belong to no datagram that was read
		if !used[i] {
			s.trace = append(s.trace, sp)
		}
	}
	for _, f := range fins {
		s.trace = append(s.trace, f)
	}
	s.trace = append(s.trace, map[string]any{"a": "Close"})
	s.Close()
	r := "closed"
	select {
	case <-ret:
	case <-time.After(5 * time.Second):
		r = "never"
	}
	s.trace = append(s.trace, map[string]any{"a": "Return", "lp": 1, "ret": r}, map[string]any{"a": "End"})
}

func TestServerSim(t *testing.T) {
	outPath := os.Getenv("VH_OUT")
	if outPath == "" {
		t.Skip("VH_OUT not set")
	}
	f, err := os.Create(outPath)
	if err != nil {
		t.Fatal(err)
	}
	defer f.Close()
	w := bufio.NewWriter(f)
	defer w.Flush()
	seed := int64(envInt("VERIF_SEED", 1))
	id := 0
	soak := 0
	one := func(v4 bool, loops int, tag string, steps []step, randomN int) {
		id++
		myid := id
		sk := soak
		synctest.Test(t, func(t *testing.T) {
			s := &sim{v4: v4, loops: loops, soak: sk, rng: rand.New(rand.NewSource(seed*7919 + int64(myid)))}
			s.run(t, steps, randomN)
			b, _ := json.Marshal(map[string]any{"id": myid, "v4": v4, "loops": loops, "mode": tag, "ev": s.trace})
			w.Write(b)
			w.WriteByte('\n')
		})
	}
	if p := os.Getenv("VH_SCHEDULES"); p != "" {
		sf, err := os.Open(p)
		if err != nil {
			t.Fatal(err)
		}
		sc := bufio.NewScanner(sf)
		sc.Buffer(make([]byte, 1<<20), 1<<26)
		for sc.Scan() {
			var c struct {
				Steps []step `json:"steps"`
				Loops int    `json:"loops"`
			}
			if err := json.Unmarshal(sc.Bytes(), &c); err != nil {
				t.Fatal(err)
			}
			if c.Loops == 0 {
				c.Loops = 1
			}
			one(true, c.Loops, "tlc", c.Steps, 0)
			one(false, c.Loops, "tlc", c.Steps, 0)
		}
		sf.Close()
	}
	rng := rand.New(rand.NewSource(seed))
	for i := 0; i < envInt("VH_RANDOM", 0); i++ {
		n := 10 + rng.Intn(60)
		if i%10 == 0 {
			n = 400 + rng.Intn(300) // long sequences (about 200 datagrams)
		}
		one(i%2 == 0, 1+(i/2)%3/2, "random", nil, n) // every third pair with two goroutines running Serve
	}
	// soak runs: each class of skipped datagram by the hundred, on both servers, then ordinary traffic
	for k := 1; k <= len(soakClasses)+2; k++ {
		soak = k
		one(true, 1, "soak", nil, 40)
		one(false, 1, "soak", nil, 40)
	}
	soak = 0
	// bursts: 8 ... 120 datagrams queued before the loop gets to them
	for k, n := range []int{8, 20, 40, 40, 80, 120} {
		for _, v4 := range []bool{true, false} {
			id++
			s := &sim{v4: v4, loops: 1, rng: rand.New(rand.NewSource(seed*104729 + int64(id) + int64(k)))}
			s.burstRun(n)
			b, _ := json.Marshal(map[string]any{"id": id, "v4": v4, "loops": 1, "mode": "burst", "ev": s.trace})
			w.Write(b)
			w.WriteByte('\n')
		}
	}
	fmt.Println("sims", id)
}
