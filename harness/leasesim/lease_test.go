// Package leasesim plays server behaviours enumerated by TLC (spec/Lease.tla) against the real
// nclient4 / nclient6 lease exchanges over a reactive scripted connection in virtual time, and
// records the client's transmissions and the outcome.  TLC judges the records (Trace_Lease.tla).
package leasesim

import (
	"bufio"
	"context"
	"encoding/json"
	"errors"
	"fmt"
	"net"
	"os"
	"sort"
	"strings"
	"sync"
	"testing"
	"testing/synctest"
	"time"

	"github.com/insomniacslk/dhcp/dhcpv4"
	"github.com/insomniacslk/dhcp/dhcpv4/nclient4"
	"github.com/insomniacslk/dhcp/dhcpv6"
	"github.com/insomniacslk/dhcp/dhcpv6/nclient6"
)

var mac = net.HardwareAddr{2, 0, 0, 0, 0, 7}
var mac2 = net.HardwareAddr{2, 0, 0, 0, 0, 0x2a} // configured with WithHWAddr on top of the interface's address
var mac8 = net.HardwareAddr{2, 0, 0, 0xff, 0xfe, 0, 0, 0x2b}                               // EUI-64
var mac16 = net.HardwareAddr{0x80, 0, 0, 0x48, 0xfe, 0x80, 0, 0, 0, 0, 0, 0, 2, 0, 0, 0x2c} // as long as chaddr can hold
var sidIP = map[string]net.IP{"A": net.IPv4(10, 0, 0, 1).To4(), "B": net.IPv4(10, 0, 0, 2).To4()}

type reply struct {
	T   string `json:"t"`
	Sid string `json:"sid"`
	Ok  bool   `json:"ok"`
	A   int    `json:"a"`
}

type tx struct {
	b    []byte
	dest string
	t    time.Duration
}

// rconn answers every transmission with the scripted replies for that transmission.
type rconn struct {
	mu     sync.Mutex
	proto  int
	script [][]reply
	txs    []tx
	q      [][]byte
	wake   chan struct{}
	closed bool
	nrep   int
	sent   map[int][]byte // reply number -> bytes (to recognise what the client returns)
	epoch  time.Time
	failNext bool         // the next write fails (link down for a moment): nothing is transmitted
}

var errLinkDown = errors.New("write: network is down")

var errClosed = errors.New("use of closed network connection")

func (c *rconn) ReadFrom(b []byte) (int, net.Addr, error) {
	for {
		c.mu.Lock()
		if c.closed {
			c.mu.Unlock()
			return 0, nil, errClosed
		}
		if len(c.q) > 0 {
			d := c.q[0]
			c.q = c.q[1:]
			c.mu.Unlock()
			return copy(b, d), &net.UDPAddr{IP: net.IPv4(10, 0, 0, 1), Port: 67}, nil
		}
		c.mu.Unlock()
		<-c.wake
	}
}

func (c *rconn) WriteTo(b []byte, addr net.Addr) (int, error) {
	c.mu.Lock()
	defer c.mu.Unlock()
	if c.failNext {
		c.failNext = false
		return 0, errLinkDown
	}
	c.txs = append(c.txs, tx{append([]byte(nil), b...), addr.String(), time.Since(c.epoch)})
	i := len(c.txs) - 1
	if i < len(c.script) {
		for _, r := range c.script[i] {
			c.nrep++
			d := c.build(r, b, c.nrep)
			c.sent[c.nrep] = d
			c.q = append(c.q, d)
		}
		select {
		case c.wake <- struct{}{}:
		default:
		}
	}
	return len(b), nil
}
func (c *rconn) Close() error {
	c.mu.Lock()
	c.closed = true
	c.mu.Unlock()
	select {
	case c.wake <- struct{}{}:
	default:
	}
	return nil
}
func (c *rconn) LocalAddr() net.Addr                { return &net.UDPAddr{} }
func (c *rconn) SetDeadline(time.Time) error      { return nil }
func (c *rconn) SetReadDeadline(time.Time) error  { return nil }
func (c *rconn) SetWriteDeadline(time.Time) error { return nil }

func (c *rconn) build(r reply, req []byte, n int) []byte {
	if c.proto == 4 {
		q, err := dhcpv4.FromBytes(req)
		if err != nil {
			return []byte{1, 2, 3}
		}
		mt := map[string]dhcpv4.MessageType{"offer": dhcpv4.MessageTypeOffer, "ack": dhcpv4.MessageTypeAck, "nak": dhcpv4.MessageTypeNak,
			"decline": dhcpv4.MessageTypeDecline}[r.T]
		p, _ := dhcpv4.NewReplyFromRequest(q, dhcpv4.WithMessageType(mt), dhcpv4.WithYourIP(net.IPv4(10, 0, byte(r.A), byte(100+n)).To4()),
			dhcpv4.WithGeneric(dhcpv4.GenericOptionCode(224), []byte{byte(n)}),
			dhcpv4.WithLeaseTime([]uint32{3600, 0xffffffff, 0, 0x80000000, 86400}[(n+r.A)%5]),
			dhcpv4.WithNetmask(net.CIDRMask(24, 32)))
		if ip, ok := sidIP[r.Sid]; ok {
			p.UpdateOption(dhcpv4.OptServerIdentifier(ip))
		}
		if r.T == "decline" && n%3 > 0 {
			// "a type the client never asks for" also is: no readable type at all - a message type option of two octets (sent
			// twice by a confused server: the instances concatenate) that begins like an ACK or a NAK
			p.Options[uint8(dhcpv4.OptionDHCPMessageType.Code())] = [][]byte{nil, {5, 5}, {6, 0}}[n%3]
		}
		if r.Sid == "AA" { // option 54 sent twice (instances concatenate): eight octets that begin with A's address
			p.UpdateOption(dhcpv4.OptGeneric(dhcpv4.OptionServerIdentifier, append(append([]byte{}, sidIP["A"]...), sidIP["A"]...)))
		}
		if (n+r.A)%2 == 0 {
			// what servers put into replies besides what the client asked for: the client identifier they key the binding by
			// (RFC 6842), a message, vendor information - none of it is the client's business
			p.UpdateOption(dhcpv4.OptClientIdentifier([]byte{1, 2, 0, 0, 0, 0, byte(n)}))
			p.UpdateOption(dhcpv4.OptMessage("lease " + r.T))
			p.UpdateOption(dhcpv4.OptGeneric(dhcpv4.OptionVendorSpecificInformation, []byte{1, 1, byte(n)}))
		}
		if !r.Ok {
			switch n % 6 {
			case 0:
				p.TransactionID[3] ^= 0x55
			case 1:
				p.ClientHWAddr = net.HardwareAddr{2, 0, 0, 0, 0, 9}
			case 2:
				p.OpCode = dhcpv4.OpcodeBootRequest
			case 3:
				p.ClientHWAddr = net.HardwareAddr{} // no hardware address at all (hlen 0)
			case 4:
				p.ClientHWAddr = append(append(net.HardwareAddr{}, q.ClientHWAddr...), 0, 0) // the client's address with two more bytes
				if len(p.ClientHWAddr) > 16 {                                                // (the field holds 16: a longer one would be cut back to the client's own)
					p.ClientHWAddr = append(net.HardwareAddr{}, q.ClientHWAddr...)
					p.ClientHWAddr[len(p.ClientHWAddr)-1] ^= 0x40
				}
			default:
				if n%12 == 5 {
					return []byte{} // a zero-length datagram
				}
				return append(p.ToBytes()[:240], 53, 9, 1) // undecodable
			}
		}
		b := p.ToBytes()
		if n%3 == 1 { // a server that does not pad its replies to the 300 octets of BOOTP
			e := len(b)
			for e > 241 && b[e-1] == 0 {
				e--
			}
			if b[e-1] == 255 {
				b = b[:e]
			}
		}
		return b
	}
	q, err := dhcpv6.MessageFromBytes(req)
	if err != nil {
		return []byte{1}
	}
	mt := map[string]dhcpv6.MessageType{"advertise": dhcpv6.MessageTypeAdvertise, "reply": dhcpv6.MessageTypeReply,
		"reconfigure": dhcpv6.MessageTypeReconfigure}[r.T]
	m := &dhcpv6.Message{MessageType: mt, TransactionID: q.TransactionID}
	if cid := q.GetOneOption(dhcpv6.OptionClientID); cid != nil {
		m.AddOption(cid)
	}
	sid := byte(1)
	if r.Sid == "B" {
		sid = 2
	}
	// servers identify themselves with any kind of DUID
	var sduid dhcpv6.DUID
	switch (n + int(sid)) % 4 {
	case 0:
		sduid = &dhcpv6.DUIDEN{EnterpriseNumber: 4242, EnterpriseIdentifier: []byte{sid, byte(n)}}
	case 1:
		sduid = &dhcpv6.DUIDLLT{HWType: 1, Time: 0x2a000000 + uint32(n), LinkLayerAddr: net.HardwareAddr{2, 0, 0, 0, sid, byte(n)}}
	case 2:
		sduid = &dhcpv6.DUIDLL{HWType: 6, LinkLayerAddr: net.HardwareAddr{2, 0, 0, 0, sid, byte(n)}}
	default:
		u := &dhcpv6.DUIDUUID{}
		copy(u.UUID[:], []byte{sid, byte(n), 3, 4, 5, 6, 7, 8, 9, 10, 11, 12, 13, 14, 15, 16})
		sduid = u
	}
	m.AddOption(dhcpv6.OptServerID(sduid))
	// lifetimes over the whole 32-bit range of seconds, "infinity" included
	life := func(k int) time.Duration {
		return time.Duration([]uint32{3600, 0xffffffff, 0, 0x80000000, 7200, 0xfffffffe}[(k+n+r.A)%6]) * time.Second
	}
	ia := &dhcpv6.OptIANA{T1: life(0), T2: life(1)}
	copy(ia.IaId[:], mac[2:6])
	ia.Options.Options = dhcpv6.Options{&dhcpv6.OptIAAddress{IPv6Addr: net.ParseIP(fmt.Sprintf("2001:db8::%d:%d", r.A, n)), PreferredLifetime: life(2), ValidLifetime: life(3)}}
	// what servers put into an identity association: several addresses, a status code that says Success (RFC 8415 21.13),
	// options inside the address; and next to it: a second IA_NA, a prefix delegation with several prefixes
	switch (n + 2*r.A) % 5 {
	case 1:
		ia.Options.Options = append(ia.Options.Options, &dhcpv6.OptIAAddress{IPv6Addr: net.ParseIP(fmt.Sprintf("2001:db8:2::%d:%d", r.A, n)), PreferredLifetime: life(1), ValidLifetime: life(2)})
	case 2:
		ia.Options.Options = append(ia.Options.Options, &dhcpv6.OptStatusCode{StatusCode: 0, StatusMessage: "all addresses granted"})
	case 3:
		ia.Options.Options = append(dhcpv6.Options{&dhcpv6.OptStatusCode{StatusCode: 0, StatusMessage: ""}}, ia.Options.Options...)
		ia.Options.Options = append(ia.Options.Options, &dhcpv6.OptIAAddress{IPv6Addr: net.ParseIP(fmt.Sprintf("2001:db8:3::%d", n)), PreferredLifetime: life(0), ValidLifetime: life(1)})
	}
	m.AddOption(ia)
	switch (n + r.A) % 4 {
	case 1:
		ia2 := &dhcpv6.OptIANA{T1: life(2), T2: life(3), IaId: [4]byte{9, 9, 9, byte(n)}}
		ia2.Options.Options = dhcpv6.Options{&dhcpv6.OptIAAddress{IPv6Addr: net.ParseIP(fmt.Sprintf("2001:db8:9::%d", n)), PreferredLifetime: life(2), ValidLifetime: life(3)}}
		m.AddOption(ia2)
	case 2:
		pd := &dhcpv6.OptIAPD{T1: life(1), T2: life(2), IaId: [4]byte{7, 7, 7, byte(n)}}
		for k := 0; k < 1+n%2; k++ {
			pd.Options.Options = append(pd.Options.Options, &dhcpv6.OptIAPrefix{PreferredLifetime: life(k), ValidLifetime: life(k + 1),
				Prefix: &net.IPNet{IP: net.ParseIP(fmt.Sprintf("2001:db8:%x::", 0x100+n+k)), Mask: net.CIDRMask(56, 128)}})
		}
		m.AddOption(pd)
	}
	m.AddOption(&dhcpv6.OptionGeneric{OptionCode: 65001, OptionData: []byte{byte(n)}})
	if !r.Ok {
		if n%2 == 0 {
			m.TransactionID[2] ^= 0x55
		} else if n%8 == 1 {
			return []byte{} // a zero-length datagram
		} else if n%8 == 5 {
			return []byte{byte(mt), 1}
		} else {
			// well framed, but an option of a known type breaks its own layout rule (C05: such a message does not decode):
			// a server identifier of DUID type 4 with 17 / 18 octets, an IA_NA cut short
			bad := dhcpv6.Options{}
			for _, o := range m.Options.Options {
				switch {
				case o.Code() == dhcpv6.OptionServerID && n%8 == 3:
					bad = append(bad, &dhcpv6.OptionGeneric{OptionCode: dhcpv6.OptionServerID, OptionData: append([]byte{0, 4}, make([]byte, 17+n%2)...)})
				case o.Code() == dhcpv6.OptionIANA && n%8 == 7:
					bad = append(bad, &dhcpv6.OptionGeneric{OptionCode: dhcpv6.OptionIANA, OptionData: o.ToBytes()[:11]})
				default:
					bad = append(bad, o)
				}
			}
			m.Options.Options = bad
		}
	}
	return m.ToBytes()
}

// rawWrap puts the scripted connection under nclient4's raw-socket layer (the stack nclient4.New builds): replies arrive
// as IPv4+UDP frames whose header fields that do not identify the datagram vary (TOS, identification, DF, TTL, padding),
// the client's frames are unwrapped again
type rawWrap struct {
	c *rconn
	n uint32
}

func ipsum(b []byte) uint16 {
	var v uint32
	for i := 0; i+1 < len(b); i += 2 {
		v += uint32(b[i])<<8 | uint32(b[i+1])
	}
	for v>>16 != 0 {
		v = v&0xffff + v>>16
	}
	return ^uint16(v)
}

func (r *rawWrap) ReadFrom(b []byte) (int, net.Addr, error) {
	tmp := make([]byte, 65536)
	n, _, err := r.c.ReadFrom(tmp)
	if err != nil {
		return 0, nil, err
	}
	r.n = r.n*1664525 + 1013904223
	h := r.n >> 9
	total := 28 + n
	f := make([]byte, total, total+8)
	f[0], f[1] = 0x45, byte(h)
	f[2], f[3] = byte(total>>8), byte(total)
	f[4], f[5] = byte(h>>8), byte(h>>16)
	if h%2 == 0 {
		f[6] = 0x40 // don't fragment, as most stacks send
	}
	f[8], f[9] = byte(1+h%250), 17
	copy(f[12:16], []byte{10, 0, 0, 1})
	copy(f[16:20], []byte{255, 255, 255, 255})
	c := ipsum(f[:20])
	f[10], f[11] = byte(c>>8), byte(c)
	f[20], f[21], f[22], f[23] = 0, 67, 0, 68
	f[24], f[25] = byte((8+n)>>8), byte(8+n)
	copy(f[28:], tmp[:n])
	if h%3 == 0 {
		f = append(f, 0xaa, 0xbb, 0xcc)[:total+int(h%4)]
	}
	return copy(b, f), &net.UDPAddr{}, nil
}
func (r *rawWrap) WriteTo(b []byte, _ net.Addr) (int, error) {
	if len(b) < 28 || b[0] != 0x45 {
		return r.c.WriteTo(b, &net.UDPAddr{})
	}
	n, err := r.c.WriteTo(b[28:], &net.UDPAddr{IP: net.IP(append([]byte(nil), b[16:20]...)), Port: int(b[22])<<8 | int(b[23])})
	if err != nil {
		return 0, err
	}
	return n + 28, nil
}
func (r *rawWrap) Close() error                       { return r.c.Close() }
func (r *rawWrap) LocalAddr() net.Addr                { return r.c.LocalAddr() }
func (r *rawWrap) SetDeadline(t time.Time) error      { return nil }
func (r *rawWrap) SetReadDeadline(t time.Time) error  { return nil }
func (r *rawWrap) SetWriteDeadline(t time.Time) error { return nil }

// id of a reply inside a packet returned by the client (0 = none / nil)
func id4(p *dhcpv4.DHCPv4) int {
	if p == nil {
		return 0
	}
	v := p.Options.Get(dhcpv4.GenericOptionCode(224))
	if len(v) != 1 {
		return -1
	}
	return int(v[0])
}
func id6(m *dhcpv6.Message) int {
	if m == nil {
		return 0
	}
	o := m.GetOneOption(65001)
	if o == nil || len(o.ToBytes()) != 1 {
		return -1
	}
	return int(o.ToBytes()[0])
}

// ---- minimal projections (same shapes as cmd/vh proj4 / proj6; kept local to this test package)
func bs(b []byte) []int {
	r := make([]int, len(b))
	for i, x := range b {
		r[i] = int(x)
	}
	return r
}
func ip4(ip net.IP) []int {
	if ip == nil {
		return []int{0, 0, 0, 0}
	}
	if v := ip.To4(); v != nil {
		return bs(v)
	}
	return bs(ip)
}
func proj4(p *dhcpv4.DHCPv4) map[string]any {
	codes := []int{}
	for c := range p.Options {
		codes = append(codes, int(c))
	}
	sort.Ints(codes)
	opts := []any{}
	for _, c := range codes {
		opts = append(opts, map[string]any{"c": c, "v": bs(p.Options[uint8(c)])})
	}
	return map[string]any{"op": int(p.OpCode), "htype": int(p.HWType), "hops": int(p.HopCount), "xid": bs(p.TransactionID[:]),
		"secs": int(p.NumSeconds), "flags": int(p.Flags), "ci": ip4(p.ClientIPAddr), "yi": ip4(p.YourIPAddr), "si": ip4(p.ServerIPAddr),
		"gi": ip4(p.GatewayIPAddr), "ch": bs(p.ClientHWAddr), "sn": bs([]byte(p.ServerHostName)), "fn": bs([]byte(p.BootFileName)), "opts": opts}
}

type result struct {
	Kind  string `json:"kind"` // lease | nak | noresp | err
	Offer int    `json:"offer"`
	Final int    `json:"final"`
	Err   string `json:"err"`
}

// the stock loggers write to os.Stderr as it is when the option is built: silence it for this test process
func init() {
	if f, err := os.OpenFile(os.DevNull, os.O_WRONLY, 0); err == nil {
		os.Stderr = f
	}
}

// logChoice derives the client's logging option from the script, so that a replay makes the same choice
func logChoice(script [][]reply) int {
	h := 7
	for _, rs := range script {
		h = h*31 + len(rs)
		for _, r := range rs {
			h = h*31 + r.A + len(r.T) + len(r.Sid)
		}
	}
	if h < 0 {
		h = -h
	}
	return h % 4
}

// cfgChoice derives the client's configuration options from the script (a replay makes the same choice): the
// exchange rules hold whatever address the client is told to send to and whatever hardware address it is given
func cfgChoice(script [][]reply) int {
	h := 11
	for _, rs := range script {
		h = h*37 + len(rs) + 1
		for _, r := range rs {
			h = h*37 + 3*r.A + 5*len(r.T) + 7*len(r.Sid)
			if r.Ok {
				h++
			}
		}
		h &= 0xfffffff
	}
	return (h ^ h>>7 ^ h>>13) & 0x3ff
}

func run4(c struct {
	Tries  int       `json:"tries"`
	Script [][]reply `json:"script"`
}, extra bool, inform bool) map[string]any {
	conn := &rconn{proto: 4, script: c.Script, wake: make(chan struct{}, 1), sent: map[int][]byte{}, epoch: time.Now()}
	opts4 := []nclient4.ClientOpt{nclient4.WithRetry(c.Tries), nclient4.WithTimeout(time.Second)}
	ch := cfgChoice(c.Script)
	srv, hw := "255.255.255.255:67", mac
	switch ch % 4 { // where the client is told to send: the default, the broadcast address, a relay / helper, the server itself
	case 1:
		opts4 = append(opts4, nclient4.WithServerAddr(&net.UDPAddr{IP: net.IPv4bcast, Port: 67}))
	case 2:
		opts4 = append(opts4, nclient4.WithServerAddr(&net.UDPAddr{IP: net.IPv4(10, 0, 0, 254), Port: 67}))
		srv = "10.0.0.254:67"
	case 3:
		opts4 = append(opts4, nclient4.WithServerAddr(&net.UDPAddr{IP: net.IPv4(10, 0, 0, 2), Port: 6767}))
		srv = "10.0.0.2:6767"
	}
	switch ch / 4 % 4 { // the hardware address the client is given: the interface's, another one, longer ones
	case 1:
		hw = mac2
	case 2:
		hw = mac8
	case 3:
		hw = mac16
	}
	if ch/4%4 != 0 {
		opts4 = append(opts4, nclient4.WithHWAddr(hw))
	}
	switch logChoice(c.Script) { // any logging configuration
	case 1:
		opts4 = append(opts4, nclient4.WithSummaryLogger())
	case 2:
		opts4 = append(opts4, nclient4.WithDebugLogger())
	}
	var pc net.PacketConn = conn
	if ch/128%3 == 1 {
		pc = nclient4.NewBroadcastUDPConn(&rawWrap{c: conn, n: uint32(ch)}, &net.UDPAddr{Port: 68}) // on the raw-socket layer
	}
	cl, err := nclient4.NewWithConn(pc, mac, opts4...)
	if err != nil {
		panic(err)
	}
	// the caller's own modifiers, in one slice with room to spare that is handed to every call (UserMods of Trace_Lease.tla)
	userMods := make([]dhcpv4.Modifier, 0, 8)
	userMods = append(userMods, dhcpv4.WithOption(dhcpv4.OptHostName("leasesim")),
		dhcpv4.WithRequestedOptions(dhcpv4.OptionNTPServers, dhcpv4.OptionBootfileName), dhcpv4.WithOption(dhcpv4.OptClassIdentifier("vh")))
	res := result{Kind: "err"}
	var lease *nclient4.Lease
	localIP := []net.IP{net.IPv4(10, 0, 0, 77), net.IPv4(192, 168, 1, 5).To4(), net.IPv4(169, 254, 3, 4), net.IPv4(100, 64, 0, 9).To4()}[ch/256%4]
	func() {
		defer func() {
			if r := recover(); r != nil {
				res = result{Kind: "panic", Err: fmt.Sprint(r)}
			}
		}()
		if inform {
			// the one-exchange INFORM: the caller's address in ciaddr, any server's ACK ends it
			ack, err := cl.Inform(context.Background(), localIP, userMods...)
			switch {
			case err == nil:
				res = result{Kind: "ack", Final: id4(ack)}
			case errors.Is(err, nclient4.ErrNoResponse):
				res = result{Kind: "noresp"}
			default:
				res = result{Kind: "err", Err: err.Error()}
			}
			return
		}
		l, err := cl.Request(context.Background(), userMods...)
		var nak *nclient4.ErrNak
		switch {
		case err == nil:
			lease = l
			res = result{Kind: "lease", Offer: id4(l.Offer), Final: id4(l.ACK)}
		case errors.As(err, &nak):
			res = result{Kind: "nak", Offer: id4(nak.Offer), Final: id4(nak.Nak)}
		case errors.Is(err, nclient4.ErrNoResponse):
			res = result{Kind: "noresp"}
		default:
			res = result{Kind: "err", Err: err.Error()}
		}
	}()
	out := map[string]any{"proto": 4, "tries": c.Tries, "res": res, "cfg": map[string]any{"srv": srv, "mac": bs(hw), "raw": ch/128%3 == 1, "ip": ip4(localIP)}}
	txs := []any{}
	for _, t := range conn.txs {
		e := map[string]any{"dest": t.dest, "at": int(t.t / time.Second), "len": len(t.b)}
		if p, err := dhcpv4.FromBytes(t.b); err == nil {
			e["pkt"] = proj4(p)
		} else {
			e["pkt"] = map[string]any{"undecodable": true}
		}
		txs = append(txs, e)
	}
	out["txs"] = txs
	// every reply that was sent, as the library decodes it (the accepted OFFER is the input of the REQUEST builder)
	sentpkts := map[string]any{}
	for n, b := range conn.sent {
		if p, err := dhcpv4.FromBytes(b); err == nil {
			sentpkts[fmt.Sprint(n)] = proj4(p)
		}
	}
	out["sentpkts"] = sentpkts
	// renewal and release on top of an obtained lease (the script continues after the exchange)
	if n54 := len(lease54(lease)); extra && lease != nil && (n54 == 0 || n54 == 4) { // (a lease whose ACK names no readable server has nobody to be released to)
		ntx := len(conn.txs)
		conn.mu.Lock()
		conn.script = append(conn.script[:ntx:ntx], []reply{{T: "nak", Sid: "B", Ok: true}, {T: "ack", Sid: lease0sid(lease), Ok: true, A: 4}})
		conn.mu.Unlock()
		if ch/32%2 == 1 {
			// the link is down for a moment: a renewal fails on its first write, nothing is transmitted - and nothing is
			// left behind: the renewal that follows is a renewal like any other
			conn.mu.Lock()
			conn.failNext = true
			n0 := len(conn.txs)
			conn.mu.Unlock()
			_, e0 := cl.Renew(context.Background(), lease, userMods...)
			conn.mu.Lock()
			out["renew0"] = map[string]any{"err": e0 != nil, "ntx": len(conn.txs) - n0}
			conn.failNext = false
			conn.mu.Unlock()
		}
		renewed, rerr := cl.Renew(context.Background(), lease, userMods...)
		rr := map[string]any{"ok": rerr == nil}
		if rerr == nil {
			rr["final"] = id4(renewed.ACK)
			rr["sameoffer"] = renewed.Offer == lease.Offer
		}
		rtx := []any{}
		for _, t := range conn.txs[ntx:] {
			if p, err := dhcpv4.FromBytes(t.b); err == nil {
				rtx = append(rtx, map[string]any{"dest": t.dest, "pkt": proj4(p)})
			}
		}
		rr["txs"] = rtx
		rr["ackpkt"] = proj4(lease.ACK)
		out["renew"] = rr
		ntx = len(conn.txs)
		// the lease is given back later (or much later, long after it has run out), and not necessarily as the value
		// Request returned: an application may keep offer and ACK and build the Lease itself
		time.Sleep([]time.Duration{0, time.Hour, 25 * time.Hour, 400 * 24 * time.Hour}[ch/16%4])
		if ch/64%2 == 1 {
			lease = &nclient4.Lease{Offer: lease.Offer, ACK: lease.ACK}
		}
		relErr := cl.Release(lease, userMods...)
		rl := map[string]any{"ok": relErr == nil, "ackpkt": proj4(lease.ACK)}
		ltx := []any{}
		for _, t := range conn.txs[ntx:] {
			if p, err := dhcpv4.FromBytes(t.b); err == nil {
				ltx = append(ltx, map[string]any{"dest": t.dest, "pkt": proj4(p)})
			}
		}
		rl["txs"] = ltx
		out["release"] = rl
	}
	cl.Close()
	return out
}

func lease54(l *nclient4.Lease) []byte {
	if l == nil || l.ACK == nil {
		return nil
	}
	return l.ACK.Options.Get(dhcpv4.OptionServerIdentifier)
}

func lease0sid(l *nclient4.Lease) string {
	sid := l.Offer.ServerIdentifier()
	for k, ip := range sidIP {
		if ip.Equal(sid) {
			return k
		}
	}
	return "none"
}

func run6(c struct {
	Tries  int       `json:"tries"`
	Script [][]reply `json:"script"`
}, rapid bool) map[string]any {
	conn := &rconn{proto: 6, script: c.Script, wake: make(chan struct{}, 1), sent: map[int][]byte{}, epoch: time.Now()}
	opts6 := []nclient6.ClientOpt{nclient6.WithRetry(c.Tries), nclient6.WithTimeout(time.Second)}
	srv := "[ff02::1:2]:547"
	switch cfgChoice(c.Script) % 4 { // where the client is told to send
	case 1:
		a := &net.UDPAddr{IP: net.ParseIP("ff02::1:2"), Port: 547, Zone: "eth3"}
		opts6, srv = append(opts6, nclient6.WithBroadcastAddr(a)), a.String()
	case 2:
		a := &net.UDPAddr{IP: net.ParseIP("fe80::1"), Port: 547, Zone: "eth3"}
		opts6, srv = append(opts6, nclient6.WithBroadcastAddr(a)), a.String()
	case 3:
		a := &net.UDPAddr{IP: net.ParseIP("2001:db8::1"), Port: 5547}
		opts6, srv = append(opts6, nclient6.WithBroadcastAddr(a)), a.String()
	}
	switch logChoice(c.Script) { // any logging configuration
	case 1:
		opts6 = append(opts6, nclient6.WithSummaryLogger())
	case 2:
		opts6 = append(opts6, nclient6.WithDebugLogger())
	case 3:
		opts6 = append(opts6, nclient6.WithLogDroppedPackets())
	}
	cl, err := nclient6.NewWithConn(conn, mac, opts6...)
	if err != nil {
		panic(err)
	}
	res := result{Kind: "err"}
	var adv *dhcpv6.Message
	func() {
		defer func() {
			if r := recover(); r != nil {
				res = result{Kind: "panic", Err: fmt.Sprint(r)}
			}
		}()
		var final *dhcpv6.Message
		var err error
		if rapid {
			final, err = cl.RapidSolicit(context.Background())
		} else {
			adv, err = cl.Solicit(context.Background())
			if err == nil {
				final, err = cl.Request(context.Background(), adv)
			}
		}
		switch {
		case err == nil:
			res = result{Kind: "lease", Offer: id6(adv), Final: id6(final)}
		case errors.Is(err, nclient6.ErrNoResponse):
			res = result{Kind: "noresp", Offer: id6(adv)}
		default:
			res = result{Kind: "err", Err: err.Error()}
		}
	}()
	out := map[string]any{"proto": 6, "tries": c.Tries, "rapid": rapid, "res": res, "cfg": map[string]any{"srv": srv}}
	txs := []any{}
	for _, t := range conn.txs {
		e := map[string]any{"dest": t.dest, "at": int(t.t / time.Second), "len": len(t.b)}
		if m, err := dhcpv6.MessageFromBytes(t.b); err == nil {
			e["mt"] = int(m.MessageType)
			e["xid"] = bs(m.TransactionID[:])
			e["hex"] = bs(t.b)
		}
		txs = append(txs, e)
	}
	out["txs"] = txs
	out["sent"] = map[string]any{}
	sent := map[string]any{}
	for n, b := range conn.sent {
		sent[fmt.Sprint(n)] = bs(b)
	}
	out["sent"] = sent
	cl.Close()
	return out
}

func TestLeaseSim(t *testing.T) {
	outPath := os.Getenv("VH_OUT")
	if outPath == "" {
		t.Skip("VH_OUT not set")
	}
	f, err := os.Create(outPath)
	if err != nil {
		t.Fatal(err)
	}
	defer f.Close()
	w := bufio.NewWriter(f)
	defer w.Flush()
	sf, err := os.Open(os.Getenv("VH_CASES"))
	if err != nil {
		t.Fatal(err)
	}
	defer sf.Close()
	sc := bufio.NewScanner(sf)
	sc.Buffer(make([]byte, 1<<20), 1<<26)
	id := 0
	for sc.Scan() {
		line := sc.Text()
		i := strings.Index(line, "{")
		if i < 0 {
			continue
		}
		var c struct {
			Proto  int       `json:"proto"`
			Rapid  bool      `json:"rapid"`
			Inform bool      `json:"inform"`
			Tries  int       `json:"tries"`
			Script [][]reply `json:"script"`
		}
		var raw map[string]any
		if err := json.Unmarshal([]byte(line[i:]), &c); err != nil {
			t.Fatal(err)
		}
		json.Unmarshal([]byte(line[i:]), &raw)
		id++
		myid := id
		synctest.Test(t, func(t *testing.T) {
			var obs map[string]any
			cc := struct {
				Tries  int       `json:"tries"`
				Script [][]reply `json:"script"`
			}{c.Tries, c.Script}
			if c.Proto == 4 {
				obs = run4(cc, myid%3 == 0, c.Inform)
			} else {
				obs = run6(cc, c.Rapid)
			}
			b, _ := json.Marshal(map[string]any{"id": myid, "exp": raw, "obs": obs})
			w.Write(b)
			w.WriteByte('\n')
		})
	}
	fmt.Println("lease sims", id)
}
