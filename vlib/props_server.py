"""C14: server4 / server6 serving loops, specification spec/Server.tla."""
import json, os
from . import common
from .common import Infra
from .registry import prop
from .props_client import validate_traces, crashed


def split_proto(path):
    l4 = [l for l in open(path) if '"v4":true' in l]
    l6 = [l for l in open(path) if '"v4":false' in l]
    open(path + ".v4", "w").writelines(l4)
    open(path + ".v6", "w").writelines(l6)
    return path + ".v4", path + ".v6"


@prop("C14")
def c14(work, tier, seed, replay):
    quick = tier == "quick"
    if replay:
        p4, p6 = split_proto(replay)
        viol, n, lines = [], 0, []
        for pth, cfg in ((p4, "Trace_Server"), (p6, "Trace_Server6")):
            if os.path.getsize(pth):
                v, ns, ls = validate_traces(work, pth, procs=1, module="Trace_Server", cfg=cfg, specname="spec/Server.tla")
                viol += v; n += ns; lines += ls
        return dict(violations=viol, coverage=dict(states=n, transitions=n, traces_validated_against_impl=len(lines), samples=[lines[0][:400]]))
    mcs = []
    for cfg in ("MC_Server", "MC_Server6"):
        mcs.append(common.require_mc(common.tlc(work, "MC_Server", cfg=cfg + ("" if quick else "_thorough"), workers=8, timeout=1800), cfg))
    # two goroutines running Serve on one server
    for cfg in (("MC_Server2",) if quick else ("MC_Server2", "MC_Server2_6")):
        mcs.append(common.require_mc(common.tlc(work, "MC_Server", cfg=cfg, workers=8, timeout=1800), cfg))
    nonvac = []
    for cfg, inv in (("MC_ServerBadStop", "ReturnOnlyOnError"), ("MC_ServerBadBuf", "OwnMessage"), ("MC_ServerBadShared", "OwnMessage")):
        r = common.tlc(work, "MC_Server", cfg=cfg, workers=4, timeout=600)
        if inv not in r["violated"]:
            raise Infra("%s: the wrong design must violate %s (non-vacuity)" % (cfg, inv))
        nonvac.append(dict(cfg=cfg, violated=r["violated"]))
    sim = common.tlc(work, "MC_Server", cfg="MC_ServerSim", workers=1, timeout=900,
                     extra=["-simulate", "num=%d" % (200 if quick else 3000), "-depth", "90", "-seed", str(seed)])
    sim2 = common.tlc(work, "MC_Server", cfg="MC_ServerSim2", workers=1, timeout=900,
                      extra=["-simulate", "num=%d" % (100 if quick else 1500), "-depth", "90", "-seed", str(seed)])
    cases = sorted(set(json.loads(c)[5:] for c in sim["cases"] + sim2["cases"]))
    if len(cases) < 20:
        raise Infra("TLC produced only %d behaviours\n%s" % (len(cases), sim["out"][-1500:]))
    sf = work.path("server.schedules")
    open(sf, "w").write("\n".join(cases) + "\n")
    binp = common.build_test(work, "./serversim/", "srv.test")
    out = work.path("server.ndjson")
    p = common.run([binp, "-test.run", "TestServerSim$", "-test.timeout", "50m"], cwd=work.dir, timeout=3300,
                   env=dict(VH_OUT=out, VH_SCHEDULES=sf, VH_RANDOM=str(300 if quick else 6000), VERIF_SEED=str(seed)))
    viol = []
    if p.returncode != 0:
        why = crashed(p)
        if why is None:
            raise Infra("serversim failed:\n" + p.stdout[-3000:])
        viol.append((why, [p.stdout[-4000:]]))
    p4, p6 = split_proto(out)
    nstates, lines = 0, []
    for pth, cfg in ((p4, "Trace_Server"), (p6, "Trace_Server6")):
        if os.path.getsize(pth):
            v, ns, ls = validate_traces(work, pth, procs=3 if quick else 8, module="Trace_Server", cfg=cfg, specname="spec/Server.tla")
            viol += v; nstates += ns; lines += ls
    evs = [json.dumps(json.loads(l)["ev"]) for l in lines]
    ndg = sum(sum(1 for e in json.loads(l)["ev"] if e["a"] == "Arrive") for l in lines)
    cov = dict(states=sum(r["distinct"] for r in mcs), transitions=sum(r["generated"] for r in mcs),
               mc_runs=[dict(cfg=r["cfg"], distinct=r["distinct"], generated=r["generated"], wall_s=round(r["wall"], 1)) for r in mcs],
               nonvacuity=nonvac, traces_validated_against_impl=len(lines), trace_states=nstates, tlc_behaviours_replayed=len(cases),
               datagrams=ndg, evaluations=len(lines), distinct=len(set(evs)),
               distinct_nontrivial=len(set(e for e in evs if e.count('"Spawn"') >= 1 and e.count('"Read"') >= 3)),
               rule="one evaluation = one execution of the real Serve loop (server4 and server6) over a scripted connection: TLC -simulate "
                    "behaviours of Server.tla (arrivals, reads, handler completions and Close in any order) and seeded random scripts of "
                    "10..700 steps (valid messages of every type and relay depth, undecodable and empty datagrams, read errors, senders "
                    "with/without/zero address, handlers released after later reads); non-trivial = at least 3 reads and one handler "
                    "invocation; distinct by recorded action sequence",
               samples=[common.trim_sample(json.loads(l), 1500) for l in lines[:2]])
    return dict(violations=viol, coverage=cov, assumptions=[
        "server loops run in testing/synctest bubbles over a scripted net.PacketConn; handlers block on a gate until the scheduler releases them",
        "message equality is judged on SHA-256 of m.ToBytes() against the bytes that were sent (valid datagrams are canonical encodings)",
        "TLC validates every recorded execution against spec/Server.tla and evaluates ExactlyOnce/PeerRule/OwnMessage/ReturnOnlyOnError after every step"])
