import glob, os, sys
from . import common
from .common import Infra, log

PROPS = {}


def prop(name):
    def deco(f):
        PROPS[name] = f
        return f
    return deco


def setup():
    """MANIFEST.setup_cmd: check the tools, SANY-parse every module, build the harness once."""
    work = common.Work("setup")
    try:
        d = common.stage_spec(work)
        bad = 0
        for f in sorted(glob.glob(os.path.join(d, "*.tla"))):
            p = common.run(["java", "-cp", "/opt/veriftools/tla/tla2tools.jar:/opt/veriftools/tla/CommunityModules-deps.jar",
                            "tla2sany.SANY", os.path.basename(f)], cwd=d, timeout=300)
            if p.returncode != 0 or "*** Errors" in p.stdout or "Fatal" in p.stdout:
                log("SANY failed:", f)
                log(p.stdout[-2000:])
                bad += 1
        common.build_vh(work)
        log("setup: %d modules parsed, harness builds" % len(glob.glob(os.path.join(d, "*.tla"))))
        return 2 if bad else 0
    except Infra as e:
        log("INFRA setup:", e)
        return 2
    finally:
        work.cleanup()


from . import props_v4  # noqa: E402,F401
from . import props_client  # noqa
from . import props_server  # noqa
from . import props_life  # noqa
