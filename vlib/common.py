"""Shared machinery of the /verif check runner (python3 stdlib only).

Exit codes of ./check:  0 property held on everything explored (KNOWN-FINDING lines allowed)
                        1 violation shown on the real code (VIOLATION line printed)
                        2 infrastructure problem (build failure, TLC error, timeout, unreproduced lead)
"""
import threading
import json, os, re, shutil, subprocess, sys, tempfile, time, glob, hashlib

VERIF = os.path.dirname(os.path.dirname(os.path.abspath(__file__)))
REPO = os.environ.get("VERIF_REPO", "/repo")
SPEC = os.path.join(VERIF, "spec")
NCPU = os.cpu_count() or 4

GOENV = dict(GOFLAGS="-mod=mod", GOPROXY="off", GOSUMDB="off", GOTOOLCHAIN="local")


class Infra(Exception):
    """Infrastructure failure: reported as exit 2, never as a violation."""


def log(*a):
    print(*a, flush=True)


class Work:
    def __init__(self, tag):
        base = os.path.join(VERIF, ".work")
        os.makedirs(base, exist_ok=True)
        self.dir = tempfile.mkdtemp(prefix=tag + "-", dir=base)
        self.keep = bool(os.environ.get("VERIF_KEEP"))

    def path(self, *p):
        return os.path.join(self.dir, *p)

    def cleanup(self):
        if not self.keep:
            shutil.rmtree(self.dir, ignore_errors=True)


COVER = os.environ.get("VERIF_COVER")      # a directory: harness binaries are built with coverage of the library (tools/coverage.py)
COVERPKG = "github.com/insomniacslk/dhcp/...,verif/harness/..."


def run(cmd, cwd=None, env=None, timeout=None, check=False, capture=True):
    e = dict(os.environ)
    if env:
        e.update(env)
    if COVER and cmd and str(cmd[0]).startswith(os.path.join(VERIF, ".work")):
        os.makedirs(COVER, exist_ok=True)
        e["GOCOVERDIR"] = COVER
        if any(str(a).startswith("-test.") for a in cmd):
            cmd = list(cmd) + ["-test.gocoverdir=" + COVER]
    try:
        p = subprocess.run(cmd, cwd=cwd, env=e, timeout=timeout, stdout=subprocess.PIPE if capture else None,
                           stderr=subprocess.STDOUT if capture else None, text=True, errors="replace")
    except subprocess.TimeoutExpired as ex:
        raise Infra("timeout after %ss: %s" % (timeout, " ".join(map(str, cmd))[:200]))
    if check and p.returncode != 0:
        raise Infra("command failed (%d): %s\n%s" % (p.returncode, " ".join(map(str, cmd))[:300], (p.stdout or "")[-4000:]))
    return p


# ----------------------------------------------------------------------------- Go harness

def copy_harness(work):
    h = work.path("h")
    if not os.path.isdir(h):
        shutil.copytree(os.path.join(VERIF, "harness"), h, ignore=shutil.ignore_patterns("go.sum"))
        shutil.copy(os.path.join(REPO, "go.sum"), os.path.join(h, "go.sum"))
        if REPO != "/repo":
            gm = open(os.path.join(h, "go.mod")).read().replace("=> /repo", "=> " + REPO)
            open(os.path.join(h, "go.mod"), "w").write(gm)
    return h


def build_vh(work, race=False):
    """Build the trace generator from /repo's CURRENT working tree with the verif hooks on."""
    h = copy_harness(work)
    out = work.path("vh.race" if race else "vh")
    cov = ["-cover", "-coverpkg=" + COVERPKG] if COVER and not race else []
    run(["go1.26", "build", "-tags", "verif", *cov, *(["-race"] if race else []), "-o", out, "./cmd/vh"], cwd=h, env=GOENV, timeout=900, check=True)
    return out


def build_test(work, pkg, name, race=False):
    """Build a go test binary of a harness package (needed for testing/synctest bubbles)."""
    h = copy_harness(work)
    out = work.path(name)
    cmd = ["go1.26", "test", "-c", "-tags", "verif", "-vet=off", "-o", out]
    if race:
        cmd.append("-race")
    if COVER:
        cmd += ["-cover", "-coverpkg=" + COVERPKG]
    cmd.append(pkg)
    run(cmd, cwd=h, env=GOENV, timeout=1200, check=True)
    return out


def vh_gen(work, vh, family, seed, tier, name=None, timeout=1800, extra=()):
    out = work.path((name or family) + ".ndjson")
    p = run([vh, "gen", family, "-o", out, "-seed", str(seed), "-tier", tier, *extra], cwd=work.dir, timeout=timeout)
    if p.returncode != 0:
        raise Infra("vh gen %s failed (%d):\n%s" % (family, p.returncode, p.stdout[-4000:]))
    stats = json.load(open(out + ".stats"))
    return out, stats


# ----------------------------------------------------------------------------- TLC

_RE_STATES = re.compile(r"(\d+) states generated, (\d+) distinct states found, (\d+) states left on queue")
_RE_INV = re.compile(r"Invariant (\S+) is violated")
_RE_PROP = re.compile(r"(Temporal properties were violated|Action property (\S+) is violated|Temporal property (\S+) was violated)")


_STAGE_LOCK = threading.Lock()


def stage_spec(work):
    d = work.path("spec")
    with _STAGE_LOCK:                      # several TLC runs of one check start concurrently
        if not os.path.isdir(d):
            tmp = d + ".staging"
            os.makedirs(tmp, exist_ok=True)
            for sub in ("", "mc", "trace"):
                for f in glob.glob(os.path.join(SPEC, sub, "*.tla")) + glob.glob(os.path.join(SPEC, sub, "*.cfg")):
                    shutil.copy(f, tmp)
            os.rename(tmp, d)
    return d


def tlc(work, module, cfg=None, workers=4, timeout=1800, env=None, heap="4g", extra=(), tag=None):
    """Run TLC on spec/<module>.tla in the scratch copy. Returns a dict; raises Infra on tool failure."""
    d = stage_spec(work)
    tag = tag or module
    md = tempfile.mkdtemp(prefix="md-" + tag + "-", dir=work.dir)
    cmd = ["java", "-XX:+UseParallelGC", "-Xmx" + heap, "-Xss64m", "-cp",
           "/opt/veriftools/tla/tla2tools.jar:/opt/veriftools/tla/CommunityModules-deps.jar", "tlc2.TLC",
           "-workers", str(workers), "-metadir", md, "-config", (cfg or module) + ".cfg", *extra, module + ".tla"]
    t0 = time.time()
    p = run(cmd, cwd=d, env=env, timeout=timeout)
    out = p.stdout
    res = dict(module=module, cfg=cfg or module, rc=p.returncode, wall=time.time() - t0, out=out,
               generated=0, distinct=0, queue=0, violated=[], mismatches=[], cases=[], error=None)
    for m in _RE_STATES.finditer(out):
        res["generated"], res["distinct"], res["queue"] = int(m.group(1)), int(m.group(2)), int(m.group(3))
    res["violated"] = _RE_INV.findall(out) + [m.group(2) or m.group(3) or m.group(1) for m in _RE_PROP.finditer(out)
                                               if "violated" in m.group(1)]
    for line in out.splitlines():
        if line.startswith('<<"MISMATCH"'):
            res["mismatches"].append(line)
        elif line.startswith('<<"WORSE"'):
            res.setdefault("worse", []).append(line)
        elif line.startswith('"CASE ') or line.startswith("CASE "):
            res["cases"].append(line)
    shutil.rmtree(md, ignore_errors=True)
    completed = "Model checking completed" in out or "Finished in" in out
    if not completed and not res["violated"]:
        res["error"] = out[-3000:]
    return res


def tlaps(work, module, timeout=1200):
    """Check a proof module of spec/proofs with the TLA+ proof system. Returns the number of obligations proved;
    anything else is a defect of the specification / proof (Infra), never a verdict about the code."""
    d = stage_spec(work)
    shutil.copy(os.path.join(SPEC, "proofs", module + ".tla"), d)
    p = run(["tlapm", "--threads", str(min(8, NCPU)), "--cleanfp", module + ".tla"], cwd=d, timeout=timeout)
    m = re.search(r"All (\d+) obligations? proved", p.stdout)
    if p.returncode != 0 or not m:
        raise Infra("tlapm %s: not all obligations proved\n%s" % (module, p.stdout[-3000:]))
    return int(m.group(1))


def tlc_ok(res):
    return res["error"] is None and not res["violated"] and res["rc"] == 0


def require_mc(res, what):
    """A specification-level check that fails is a defect of the specification, not of the code."""
    if not tlc_ok(res):
        raise Infra("%s: TLC did not pass (rc=%s, violated=%s)\n%s" % (what, res["rc"], res["violated"], res["out"][-3000:]))
    return res


def split_lines(path, k, work):
    """Contiguous parts of about equal size in BYTES (records differ in size by orders of magnitude: a part of the
    average number of lines can be most of the file and exhaust TLC's heap while it reads it), none above ~48 MB."""
    lines = open(path).read().splitlines()
    k = max(1, min(k, len(lines) // 200 + 1))
    total = sum(len(l) + 1 for l in lines)
    k = max(k, min(len(lines), total // (48 << 20) + 1))
    target = total / k
    parts, lo, acc = [], 0, 0
    for i, l in enumerate(lines):
        acc += len(l) + 1
        if (acc >= target * (len(parts) + 1) and len(parts) < k - 1) or i == len(lines) - 1:
            pth = "%s.part%d" % (path, len(parts))
            with open(pth, "w") as f:
                f.write("\n".join(lines[lo:i + 1]) + "\n")
            parts.append((pth, i + 1 - lo))
            lo = i + 1
    return parts, lines


def tlc_trace(work, module, tracefile, procs=6, workers=2, timeout=3000, heap="5g", cfg=None, env=None):
    """Validate an ndjson trace of independent call records with TLC (spec/trace/<module>).
    Returns (mismatching ids, total states, total lines, raw line list)."""
    from concurrent.futures import ThreadPoolExecutor
    parts, lines = split_lines(tracefile, procs, work)

    def one(i):
        pth, n = parts[i]
        ids, distinct, generated = [], 0, 0
        for attempt in range(40):
            e = dict(VH_TRACE=pth, VH_SHARDS=str(workers))
            if env:
                e.update(env)
            r = tlc(work, module, cfg=cfg, workers=workers, timeout=timeout, env=e, heap=heap, tag="%s-p%d" % (module, i))
            ids += [int(re.findall(r"(\d+)\s*>>", m)[-1]) for m in r["mismatches"]]
            tlc_trace.worse |= set(int(re.findall(r"(\d+)\s*>>", m)[-1]) for m in r.get("worse", []))
            incomparable = re.search(r"Attempted to (check equality of|compare) ", r["out"])
            if incomparable and not r["violated"]:
                # The recorded value has a shape that cannot even be compared with the specification's value
                # (e.g. a string where bytes are expected): that line is a mismatch. Drop it and validate the rest.
                ls = [int(x) for x in re.findall(r"^/\\ l = (\d+)", r["out"], re.M)]
                if not ls:
                    raise Infra("trace validation %s part %d: TLC type error without position\n%s" % (module, i, r["out"][-2000:]))
                lines_ = open(pth).read().splitlines()
                k = ls[-1]
                ids.append(json.loads(lines_[k - 1])["id"])
                del lines_[k - 1]
                n -= 1
                open(pth, "w").write("\n".join(lines_) + "\n")
                if n == 0:
                    break
                continue
            if r["error"] is not None or r["violated"] or r["rc"] != 0:
                at = r["out"].find("Error:")
                raise Infra("trace validation %s part %d: TLC error\n%s" % (module, i, r["out"][max(0, at - 200):at + 2500]))
            if r["distinct"] != n + workers:
                raise Infra("trace validation %s part %d consumed %d of %d lines" % (module, i, r["distinct"] - workers, n))
            distinct, generated = r["distinct"], r["generated"]
            break
        else:
            pass
        return ids, distinct, generated

    tlc_trace.worse = set()      # ids TLC marked as exceeding even the bounds of a known finding (Trace_Cost)
    with ThreadPoolExecutor(max_workers=max(1, min(len(parts), max(procs, 6)))) as ex:
        rs = list(ex.map(one, range(len(parts))))
    bad = sorted(set(i for r in rs for i in r[0]))
    return bad, sum(r[1] for r in rs), sum(r[2] for r in rs), lines


# ----------------------------------------------------------------------------- findings / evidence

def load_findings():
    path = os.path.join(VERIF, "known_findings.txt")
    out = []
    if os.path.exists(path):
        for line in open(path):
            line = line.strip()
            if line.startswith("finding:"):
                m = re.match(r"finding:\s+property=(\S+)\s+key=(\S+)\s+(.*)", line)
                if m:
                    out.append(dict(property=m.group(1), key=m.group(2), text=m.group(3)))
    return out


_replay_n = 0


def write_replay(prop, seed, lines, suffix="ndjson"):
    d = os.path.join(VERIF, "replays")
    os.makedirs(d, exist_ok=True)
    global _replay_n
    _replay_n += 1
    p = os.path.join(d, "%s-seed%s-%d-%d.%s" % (prop, seed, int(time.time()), _replay_n, suffix))
    with open(p, "w") as f:
        for ln in lines:
            f.write(ln.rstrip("\n") + "\n")
    return p


def write_evidence(prop, tier, seed, coverage, wall, violations, assumptions, level="model_checking"):
    d = os.environ.get("VERIF_EVIDENCE_DIR") or os.path.join(VERIF, "evidence")   # (seed sweeps write elsewhere)
    os.makedirs(d, exist_ok=True)
    ev = dict(property_id=prop, tier=tier, seed=int(seed), level=level, coverage=coverage,
              assumptions=assumptions, wall_s=round(wall, 2), violations=violations)
    tmp = os.path.join(d, prop + ".json.tmp")
    with open(tmp, "w") as f:
        json.dump(ev, f, indent=1)
    os.replace(tmp, os.path.join(d, prop + ".json"))


def trim_sample(s, limit=1200):
    if isinstance(s, (dict, list)):
        t = json.dumps(s)
        if len(t) > limit:
            return t[:limit] + "...(truncated)"
        return s
    return s
