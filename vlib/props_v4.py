"""C01, C04, C06 (v4 half), C07: DHCPv4 codec family, specification spec/Dhcp4Wire.tla."""
import json, os, re
from . import common
from .common import Infra, log
from .registry import prop

ASSUME_CODEC = [
    "TLC evaluates the RFC operators of spec/Dhcp4Wire.tla on each logged input; the verdict is per recorded call of the real library",
    "harness projection (cmd/vh/v4.go proj4) reads only exported fields of *dhcpv4.DHCPv4",
    "scaled size constants in the exhaustive MC configuration (ChunkMax=3 ...) preserve the boundary structure of the real constants",
]


def mc_summary(rs):
    return dict(states=sum(r["distinct"] for r in rs), transitions=sum(r["generated"] for r in rs),
                mc_runs=[dict(module=r["module"], cfg=r["cfg"], distinct=r["distinct"], generated=r["generated"],
                              wall_s=round(r["wall"], 1)) for r in rs])


def line_desc(line):
    try:
        e = json.loads(line)
        keys = {k: e[k] for k in ("op", "cls", "id") if k in e}
        inp = e.get("in") or e.get("area") or e.get("val")
        return "%s input=%s out=%s" % (keys, json.dumps(inp)[:300], json.dumps(e.get("out"))[:200])
    except Exception:
        return line[:300]


def validate(work, module, tracefile, stats, procs=6, workers=2):
    bad, tstates, tgen, lines = common.tlc_trace(work, module, tracefile, procs=procs, workers=workers)
    viol = [(line_desc(lines[i - 1]), [lines[i - 1]]) for i in bad]
    return viol, tstates, len(lines)


def replay_file(work, module, path):
    """--replay: re-execute the recorded inputs against the current tree where the line kind allows it (vh rerun), then
    validate the lines with TLC (real-code outcome vs the specification)."""
    try:
        vh = common.build_vh(work)
        fresh = work.path("replay.ndjson")
        p = common.run([vh, "rerun", path, fresh], cwd=work.dir, timeout=600)
        if p.returncode == 0 and os.path.getsize(fresh) > 0:
            log(p.stdout.strip()[-200:])
            path = fresh
    except Infra as e:
        log("replay: could not re-execute, validating the recorded outcome (%s)" % str(e)[:100])
    bad, tstates, tgen, lines = common.tlc_trace(work, module, path, procs=1, workers=1)
    byid = {json.loads(l).get("id"): l for l in lines}
    viol = [(line_desc(byid[i]), [byid[i]]) for i in bad if i in byid]
    return dict(violations=viol, coverage=dict(states=tstates, transitions=tgen, traces_validated_against_impl=len(lines),
                                                samples=[lines[0][:500]]))


def codec_coverage(mcs, stats, tstates, nlines, rule, exhaustive):
    cov = mc_summary(mcs)
    cov.update(traces_validated_against_impl=nlines, trace_states=tstates,
               evaluations=stats["lines"], distinct_nontrivial=stats["distinct_nontrivial"], distinct=stats["distinct"],
               classes=stats["classes"], rule=rule, exhaustive=exhaustive,
               samples=[common.trim_sample(s) for s in stats["samples"][:4]])
    return cov


@prop("C04")
def c04(work, tier, seed, replay):
    if replay:
        return replay_file(work, "Trace_Dhcp4", replay)
    vh = common.build_vh(work)
    cfg = "MC_Dhcp4Scan" + ("_thorough" if tier == "thorough" else "")
    mc = common.require_mc(common.tlc(work, "MC_Dhcp4Scan", cfg=cfg, workers=8), "MC_Dhcp4Scan")
    tr, stats = common.vh_gen(work, vh, "c04", seed, tier)
    viol, tstates, n = validate(work, "Trace_Dhcp4", tr, stats, procs=8 if tier == "quick" else 12)
    # the Go side and TLC enumerated the same exhaustive set
    maxlen = 7 if tier == "thorough" else 6
    expect = sum(6 ** k for k in range(maxlen + 1))
    if stats["classes"].get("exhaustive-area") != expect and "library-panic-while-building-inputs" not in stats["classes"]:
        raise Infra("exhaustive set size %s != %s" % (stats["classes"].get("exhaustive-area"), expect))
    cov = codec_coverage([mc], stats, tstates, n,
                         "every options area over {0,1,2,3,82,255} up to length %d behind a fixed valid header (exhaustive), every "
                         "truncation point and every length/cookie-byte corruption of generated non-canonical valid packets, random and "
                         "mutated inputs <=1500 bytes; non-trivial = reaches the header parser (>=236 bytes) or non-empty area; distinct by "
                         "SHA-256 of the input" % maxlen, False)
    cov["exhaustive_small_scope"] = dict(alphabet=[0, 1, 2, 3, 82, 255], max_len=maxlen, strings=expect)
    return dict(violations=viol, coverage=cov, assumptions=ASSUME_CODEC)


@prop("C01")
def c01(work, tier, seed, replay):
    if replay:
        return replay_file(work, "Trace_Dhcp4", replay)
    vh = common.build_vh(work)
    cfg = "MC_Dhcp4Life" + ("_thorough" if tier == "thorough" else "")
    mc = common.require_mc(common.tlc(work, "MC_Dhcp4Life", cfg=cfg, workers=8, timeout=2400, heap="8g"), "MC_Dhcp4Life")
    tr, stats = common.vh_gen(work, vh, "c01", seed, tier)
    viol, tstates, n = validate(work, "Trace_Dhcp4", tr, stats, procs=8 if tier == "quick" else 12)
    cov = codec_coverage([mc], stats, tstates, n,
                         "packet values of the C01 domain: every option length 0..780 and the boundary lengths up to 4096, every code x small "
                         "length, random headers (hlen 0..16, names at 0/62/63 and 0/126/127, nil/4-byte/mapped addresses), 0..12 options; "
                         "non-trivial = carries at least one option; distinct by SHA-256 of the encoding", False)
    return dict(violations=viol, coverage=cov, assumptions=ASSUME_CODEC)


@prop("C07")
def c07(work, tier, seed, replay):
    if replay:
        return replay_file(work, "Trace_Dhcp4", replay)
    vh = common.build_vh(work)
    t = "_thorough" if tier == "thorough" else ""
    mcs = [common.require_mc(common.tlc(work, "MC_Dhcp4Life", cfg="MC_Dhcp4Life" + t, workers=8, timeout=2400, heap="8g"), "MC_Dhcp4Life")]
    cases = []
    for cfg in ("MC_Dhcp4Ops" + t, "MC_Dhcp4Perm"):
        r = common.require_mc(common.tlc(work, "MC_Dhcp4Ops", cfg=cfg, workers=4), cfg)
        mcs.append(r)
        cases += [json.loads(c) for c in r["cases"]]
    if len(cases) < 1000:
        raise Infra("TLC emitted only %d op sequences" % len(cases))
    cf = work.path("c07.cases")
    with open(cf, "w") as f:
        f.write("\n".join(cases) + "\n")
    os.environ["VH_CASES"] = cf
    try:
        tr, stats = common.vh_gen(work, vh, "c07", seed, tier)
    finally:
        del os.environ["VH_CASES"]
    if stats["classes"].get("tlc-op-sequence") != len(cases):
        raise Infra("replayed %s of %d TLC op sequences" % (stats["classes"].get("tlc-op-sequence"), len(cases)))
    viol, tstates, n = validate(work, "Trace_Dhcp4", tr, stats)
    cov = codec_coverage(mcs, stats, tstates, n,
                         "every history of <=%d updates/deletions over codes {1,53,82,200} and every order of 6 distinct-code updates, "
                         "chosen by TLC (MC_Dhcp4Ops) and replayed through UpdateOption/WithOption/Options.Update/DeleteOption/"
                         "WithoutOption, each state encoded 20 times; plus random values of the C01 domain rebuilt in a shuffled "
                         "insertion order; non-trivial = at least two operations/options; distinct by operation sequence / encoding"
                         % (4 if tier == "thorough" else 3), False)
    cov["tlc_behaviours_replayed"] = len(cases)
    return dict(violations=viol, coverage=cov, assumptions=ASSUME_CODEC + [
        "Go randomises map iteration per call: 20 encodings per state expose a missing sort with probability > 1-6^-19 for >=3 options"])


@prop("C06")
def c06(work, tier, seed, replay):
    if replay:
        first = open(replay).readline()
        return replay_file(work, "Trace_Dhcp6" if '"Fix6"' in first else "Trace_Dhcp4", replay)
    vh = common.build_vh(work)
    cfg = "MC_Dhcp4Scan" + ("_thorough" if tier == "thorough" else "")
    mcs = [common.require_mc(common.tlc(work, "MC_Dhcp4Scan", cfg=cfg, workers=8), "MC_Dhcp4Scan"),
           common.require_mc(common.tlc(work, "MC_Dhcp6", cfg="MC_Dhcp6" + ("_thorough" if tier == "thorough" else ""), workers=8, timeout=2400), "MC_Dhcp6")]
    tr4, st4 = common.vh_gen(work, vh, "c06v4", seed, tier)
    tr6, st6 = common.vh_gen(work, vh, "c06v6", seed, tier)
    v4, ts4, n4 = validate(work, "Trace_Dhcp4", tr4, st4, procs=6)
    v6, ts6, n6 = validate(work, "Trace_Dhcp6", tr6, st6, procs=6)
    stats = dict(lines=st4["lines"] + st6["lines"], distinct=st4["distinct"] + st6["distinct"],
                 distinct_nontrivial=st4["distinct_nontrivial"] + st6["distinct_nontrivial"],
                 classes={**{"v4:" + k: v for k, v in st4["classes"].items()}, **{"v6:" + k: v for k, v in st6["classes"].items()}},
                 samples=st4["samples"][:2] + st6["samples"][:2])
    cov = codec_coverage(mcs, stats, ts4 + ts6, n4 + n6,
                         "DHCPv4: every End-terminated options area over {0,1,2,3,82,255} up to length %d, unsorted/split/padded areas with "
                         "garbage after End, odd hlen, names without NUL, long values split unevenly and interleaved, canonical and mutated "
                         "packets. DHCPv6: every known option code with every payload length 0..44 (three byte patterns incl. out-of-range "
                         "prefix lengths), canonical and mutated random messages and relay chains, non-canonical accepted messages (duplicate "
                         "ORO codes, compressed names, /0 prefix with address bits, reserved 4RD bits). Each input goes through "
                         "FromBytes->ToBytes->FromBytes->ToBytes; non-trivial = accepted by the decoder; distinct by SHA-256 of the input"
                         % (6 if tier == "thorough" else 5), False)
    return dict(violations=v4 + v6, coverage=cov, assumptions=ASSUME_CODEC + [
        "DHCPv6 re-encodings are judged by the specification's decoder (Dec6(b1) = decoded value) because name-bearing options legitimately keep their original (possibly compressed) bytes"])


@prop("C02")
def c02(work, tier, seed, replay):
    if replay:
        return replay_file(work, "Trace_Dhcp6", replay)
    vh = common.build_vh(work)
    mc = common.require_mc(common.tlc(work, "MC_Dhcp6", cfg="MC_Dhcp6" + ("_thorough" if tier == "thorough" else ""), workers=8, timeout=2400), "MC_Dhcp6")
    tr, stats = common.vh_gen(work, vh, "c02", seed, tier)
    st = json.load(open(tr + ".stats"))
    # every option type the library parses must be known to the specification and present in the corpus
    import re
    known = set(int(x) for x in re.search(r"KnownCodes == \{([^}]*)\}", open(os.path.join(common.SPEC, "Dhcp6Wire.tla")).read()).group(1).split(","))
    lib = set(st.get("library_typed_codes", []))
    if st.get("option_types_missing") and "library-panic-while-building-inputs" not in stats["classes"]:
        raise Infra("option types missing from the corpus: %s" % st["option_types_missing"])
    viol, tstates, n = validate(work, "Trace_Dhcp6", tr, stats, procs=6 if tier == "quick" else 12)
    cov = codec_coverage([mc], stats, tstates, n,
                         "messages and relay chains (depth 0..8) of 0..20 options drawn from every option type of the library's ParseOption switch "
                         "(probed at run time) plus unknown codes, nested through IA_NA/IA_TA/IA_PD -> address/prefix -> status code, vendor "
                         "options, NTP sub-options, relay messages, embedded DHCPv4; fields over their representable domain (whole seconds "
                         "< 2^32 incl. 0xffffffff, elapsed time in 10 ms units, prefix lengths 0..128 / 0..32, all DUID kinds); non-trivial = "
                         "carries at least one option; distinct by SHA-256 of the encoding", False)
    cov["option_type_counts"] = st["option_type_counts"]
    cov["library_typed_codes"] = sorted(lib)
    cov["typed_codes_unknown_to_spec"] = sorted(lib - known)
    return dict(violations=viol, coverage=cov, assumptions=ASSUME_CODEC[:1] + [
        "harness projection (cmd/vh/v6proj.go) reads typed fields only (exported fields, reflection for unexported option structs), never ToBytes of a typed option",
        "a library option type unknown to the specification is compared as an opaque payload (reported in typed_codes_unknown_to_spec)"])


@prop("C05")
def c05(work, tier, seed, replay):
    if replay:
        return replay_file(work, "Trace_Dhcp6", replay)
    vh = common.build_vh(work)
    mc = common.require_mc(common.tlc(work, "MC_Dhcp6", cfg="MC_Dhcp6" + ("_thorough" if tier == "thorough" else ""), workers=8, timeout=2400), "MC_Dhcp6")
    tr, stats = common.vh_gen(work, vh, "c05", seed, tier)
    viol, tstates, n = validate(work, "Trace_Dhcp6", tr, stats, procs=8 if tier == "quick" else 12)
    cov = codec_coverage([mc], stats, tstates, n,
                         "every TLV area over {0,1,2,3,8,255} up to length %d after a message header and both relay headers (exhaustive), truncated "
                         "headers, every known option code x every payload length x 5 byte patterns (also through ParseOption), every truncation "
                         "point, a trailing byte and every top-level length-field perturbation (+-1, 0, 65535, +4) of generated valid messages "
                         "containing every option type, random/mutated inputs up to 4096 bytes; non-trivial = at least a complete message header; "
                         "distinct by SHA-256 of the input" % (6 if tier == "thorough" else 5), False)
    return dict(violations=viol, coverage=cov, assumptions=ASSUME_CODEC[:1] + [
        "three-way verdict for inputs the RFCs give no meaning to (reserved label length octets, pointers that do not point backwards): reject or natural reading",
        "documented normalisations on decode: duplicate ORO codes dropped, /0 prefix carries no address, reserved 4RD flag bits"])


@prop("C18")
def c18(work, tier, seed, replay):
    if replay:
        return replay_file(work, "Trace_RawUdp", replay)
    vh = common.build_vh(work)
    mc = common.require_mc(common.tlc(work, "MC_RawUdp", cfg="MC_RawUdp" + ("_thorough" if tier == "thorough" else ""), workers=8, timeout=2400), "MC_RawUdp")
    tr, stats = common.vh_gen(work, vh, "c18", seed, tier)
    viol, tstates, n = validate(work, "Trace_RawUdp", tr, stats, procs=8 if tier == "quick" else 12)
    cov = codec_coverage([mc], stats, tstates, n,
                         "write: every payload length 0..64 with all-zero/all-ones/0x01/random fill, boundary lengths to 1500, a sweep of two-byte "
                         "payloads (including the one whose UDP checksum computes to zero), random payloads/addresses/ports; read: sequences of "
                         "1..5 frames built by the harness (IHL 5..15, padding, total length short/long, non-UDP, non-IPv4, truncated, other "
                         "port/address, bad UDP length) for bound port with and without bound address; non-trivial = non-empty payload / "
                         "at least two frames; distinct by SHA-256 of the case", False)
    return dict(violations=viol, coverage=cov, assumptions=ASSUME_CODEC[:1] + [
        "a zero-length read from the underlying connection is its EOF convention and not a frame (never generated)",
        "RFC 768: when the UDP checksum computes to zero both 0xFFFF and 0x0000 (no checksum) are accepted on the wire"])


@prop("C19")
def c19(work, tier, seed, replay):
    if replay:
        return replay_file(work, "Trace_Label", replay)
    vh = common.build_vh(work)
    mc = common.require_mc(common.tlc(work, "MC_Label", cfg="MC_Label" + ("_thorough" if tier == "thorough" else ""), workers=8, timeout=2400), "MC_Label")
    tr, stats = common.vh_gen(work, vh, "c19", seed, tier)
    viol, tstates, n = validate(work, "Trace_Label", tr, stats, procs=8 if tier == "quick" else 12)
    maxlen = 7 if tier == "thorough" else 6
    cov = codec_coverage([mc], stats, tstates, n,
                         "every byte string over {0,1,2,3,'a',0xC0,0x40} up to length %d through rfc1035label.FromBytes (exhaustive), random and "
                         "mutated wire forms <=512 bytes with compression pointers (also at offsets >=256), lists of 0..8 names x 1..8 labels x "
                         "1..63 bytes through ToBytes/FromBytes, parsed sets followed by 1..4 edits (in-place set, delete, append, no-op) with "
                         "an encoding after every step, and the same inputs through the DHCPv4 domain-search, DHCPv6 domain-search-list, FQDN and "
                         "NTP-FQDN options; non-trivial = non-empty input; distinct by SHA-256" % maxlen, False)
    cov["exhaustive_small_scope"] = dict(alphabet=[0, 1, 2, 3, 97, 192, 64], max_len=maxlen, strings=sum(7 ** k for k in range(maxlen + 1)))
    return dict(violations=viol, coverage=cov, assumptions=ASSUME_CODEC[:1] + [
        "three-way verdict: inputs RFC 1035 gives no meaning to (length octets 64..191, pointer target not strictly earlier) may be rejected or read naturally",
        "names are compared as byte strings with '.' separators, the representation the library exposes"])


@prop("C17")
def c17(work, tier, seed, replay):
    if replay:
        return replay_file(work, "Trace_Dhcp4Opts", replay)
    vh = common.build_vh(work)
    mc = common.require_mc(common.tlc(work, "MC_Dhcp4Opts", cfg="MC_Dhcp4Opts" + ("_thorough" if tier == "thorough" else ""), workers=8, timeout=2400), "MC_Dhcp4Opts")
    tr, stats = common.vh_gen(work, vh, "c17", seed, tier)
    viol, tstates, n = validate(work, "Trace_Dhcp4Opts", tr, stats, procs=8 if tier == "quick" else 12)
    cov = codec_coverage([mc], stats, tstates, n,
                         "for each of the 28 typed accessors: the option absent, and present (through an encode/decode of the packet) with every "
                         "raw length 0..64 as all-zero, all-ones and type-structured random bytes (plausible route widths, class lengths, "
                         "sub-option framings, NUL patterns), long values 255..512 that travel as several instances; DomainSearch on random "
                         "label wire forms; set->get through every typed constructor, directly and after a wire trip; non-trivial = option "
                         "present; distinct by accessor + raw value", False)
    return dict(violations=viol, coverage=cov, assumptions=ASSUME_CODEC[:1] + [
        "a zero-length option value decoded from the wire is stored as nil and reads as 'absent' through the accessors; the generator goes through the wire",
        "duration accessors are called with a default of 1.5 s, which no whole-second value can equal"])


@prop("C16")
def c16(work, tier, seed, replay):
    if replay:
        return replay_file(work, "Trace_Dhcp6Build", replay)
    vh = common.build_vh(work)
    mc = common.require_mc(common.tlc(work, "MC_Dhcp6Build", cfg="MC_Dhcp6Build" + ("_thorough" if tier == "thorough" else ""), workers=8, timeout=2400, heap="8g"), "MC_Dhcp6Build")
    tr, stats = common.vh_gen(work, vh, "c16", seed, tier)
    viol, tstates, n = validate(work, "Trace_Dhcp6Build", tr, stats, procs=8 if tier == "quick" else 12)
    cov = codec_coverage([mc], stats, tstates, n,
                         "inner messages of every type with any subset (and duplicates, in any order) of client id, server id, IA_NA, IA_PD, rapid "
                         "commit, vendor class; relay chains of depth 1..16 with arbitrary link/peer addresses, any subset of interface-id / "
                         "remote-id per level (duplicates, options in front of the relay-message option), half of them after a trip over the "
                         "wire, chains lacking the relay-message option; every EncapsulateRelay, DecapsulateRelay(Index), GetInnerMessage, "
                         "NewRelayReplFromRelayForw, NewAdvertiseFromSolicit, NewRequestFromAdvertise, NewReplyFromMessage call recorded with its "
                         "result; non-trivial = all; distinct by function + input encoding + arguments", False)
    return dict(violations=viol, coverage=cov, assumptions=ASSUME_CODEC[:1] + [
        "the transaction id NewRequestFromAdvertise draws at random is taken from the observed result",
        "inputs and results are compared as the value trees of Dhcp6Wire.tla (projection of typed fields)"])


@prop("C15")
def c15(work, tier, seed, replay):
    if replay:
        return replay_file(work, "Trace_Dhcp4Build", replay)
    vh = common.build_vh(work)
    mc = common.require_mc(common.tlc(work, "MC_Dhcp4Build", cfg="MC_Dhcp4Build", workers=8, timeout=1200), "MC_Dhcp4Build")
    tr, stats = common.vh_gen(work, vh, "c15", seed, tier)
    viol, tstates, n = validate(work, "Trace_Dhcp4Build", tr, stats, procs=6 if tier == "quick" else 12)
    cov = codec_coverage([mc], stats, tstates, n,
                         "NewDiscovery/NewInform/NewRequestFromOffer/NewRenewFromAck/NewReplyFromRequest/NewReleaseFromACK/New on generated and "
                         "decoded input packets (any opcode and flags, boundary transaction ids, options 82/61/54/55/53 absent, empty, present) "
                         "with lists of 0..4 modifiers drawn from 22 exported With* functions (including ones that override a builder default, "
                         "WithOptionCopied and WithReply of another packet); the same modifier slice (with spare capacity) is passed to two "
                         "builder calls; non-trivial = at least one modifier; distinct by builder + modifiers + input encoding", False)
    return dict(violations=viol, coverage=cov, assumptions=ASSUME_CODEC[:1] + [
        "a random transaction id is taken from the observed result; every other field must equal Build(builder, input, modifiers)",
        "option values set by typed With* modifiers are given to the specification as raw bytes computed by the harness from the RFC layouts"])
