"""C08, C20 (lifecycle of a value: memory ownership, read-only use) and C03 (totality)."""
import json, os, re
from . import common
from .common import Infra
from .registry import prop
from .props_client import validate_traces


def life_check(work, tier, seed, replay, propid, fam, rule):
    quick = tier == "quick"
    if replay:
        viol, nstates, lines = validate_traces(work, replay, procs=1, module="Trace_Lifecycle", specname="spec/Lifecycle.tla")
        return dict(violations=viol, coverage=dict(states=nstates, transitions=nstates, traces_validated_against_impl=len(lines), samples=[lines[0][:400]]))
    mcs = [common.require_mc(common.tlc(work, "Lifecycle", cfg="MC_Lifecycle", workers=2, timeout=600), "MC_Lifecycle")]
    nonvac = []
    for cfg, p in (("MC_LifecycleAlias", "ScribbleInvisible"), ("MC_LifecycleMut", "ReadOnly"), ("MC_LifecyclePool", "EncodeFresh")):
        r = common.tlc(work, "Lifecycle", cfg=cfg, workers=2, timeout=600)
        if p not in r["violated"]:
            raise Infra("%s: the wrong design must violate %s (non-vacuity): %s" % (cfg, p, r["violated"]))
        nonvac.append(dict(cfg=cfg, violated=r["violated"]))
    # the same three properties proved for every set of fields and contents and behaviours of any length (TLAPS)
    proved = common.tlaps(work, "Lifecycle_proofs") if not quick else None
    vh = common.build_vh(work)
    tr, stats = common.vh_gen(work, vh, fam, seed, tier)
    viol, nstates, lines = validate_traces(work, tr, procs=6 if quick else 12, module="Trace_Lifecycle", specname="spec/Lifecycle.tla")
    cov = dict(tlaps_obligations_proved=proved, states=sum(r["distinct"] for r in mcs), transitions=sum(r["generated"] for r in mcs), nonvacuity=nonvac,
               traces_validated_against_impl=len(lines), trace_states=nstates, evaluations=stats["lines"],
               distinct=stats["distinct"], distinct_nontrivial=stats["distinct_nontrivial"], classes=stats["classes"], rule=rule,
               samples=[common.trim_sample(s, 1500) for s in stats["samples"][:3]])
    for k in ("excluded_method_prefixes",):
        if k in stats:
            cov[k] = stats[k]
    return dict(violations=viol, coverage=cov, assumptions=[
        "TLC validates every recorded lifecycle against the trace form of spec/Lifecycle.tla: all observations (encoding, value tree, printed form) equal the first one, "
        "and the first observation of a decoded value equals Dec4/Dec6/LabelDecode of the original bytes",
        "printed forms and call results are compared through SHA-256 fingerprints computed by the harness (deep, pointer-following, map-order independent)"])


@prop("C08")
def c08(work, tier, seed, replay):
    return life_check(work, tier, seed, replay, "C08", "c08",
                      "accepted DHCPv6 inputs covering every option type (two single-option messages per type, random nested messages and relay "
                      "chains, compressed names in domain-search/FQDN/NTP options), DHCPv4 canonical and non-canonical packets, label wire forms; "
                      "each decoded from a caller-owned slice, observed, the slice overwritten with each of 5 patterns (zero, ones, small lengths, "
                      "random, next packet), observed, then the returned encoding overwritten the same way and observed again; non-trivial = input "
                      "longer than 8 bytes; distinct by pattern + input")


@prop("C20")
def c20(work, tier, seed, replay):
    return life_check(work, tier, seed, replay, "C20", "c20",
                      "constructed and decoded DHCPv4 packets and DHCPv6 messages/relay chains, standalone option values of every DHCPv6 type and of "
                      "the typed DHCPv4 constructors; every niladic exported method found by reflection on the value, its option container and its "
                      "options (minus names starting with Set/Add/Update/Del/FromBytes/Unmarshal/Marshal) is called at least once per kind (twice, "
                      "with observations before, between and after), plus seeded sequences of 1..6 calls interleaved with observations; "
                      "non-trivial = all; distinct by value + call sequence")


@prop("C03")
def c03(work, tier, seed, replay):
    from .props_v4 import validate, replay_file, codec_coverage
    quick = tier == "quick"
    if replay:
        return replay_file(work, "Trace_Crash", replay)
    t = "" if quick else "_thorough"
    mcs = [common.require_mc(common.tlc(work, "MC_Label", cfg="MC_Label" + t, workers=8, timeout=2400), "MC_Label"),
           common.require_mc(common.tlc(work, "MC_Dhcp4Scan", cfg="MC_Dhcp4Scan" + t, workers=8, timeout=2400), "MC_Dhcp4Scan")]
    nb = common.require_mc(common.tlc(work, "MC_Netboot", cfg="MC_Netboot" + t, workers=4, timeout=1200), "MC_Netboot")
    mcs.append(nb)
    cases = [json.loads(c) for c in nb["cases"]]
    cf = work.path("netboot.cases")
    open(cf, "w").write("\n".join(cases) + "\n")
    vh = common.build_vh(work)
    os.environ["VH_CASES"] = cf
    os.environ["VH_RACE_BIN"] = common.build_vh(work, race=True)   # the concurrent-use stage runs under the race detector
    try:
        tr, stats = common.vh_gen(work, vh, "c03", seed, tier, timeout=3000)
    finally:
        del os.environ["VH_CASES"]
        del os.environ["VH_RACE_BIN"]
    cut_short = any("timeout (no result" in l for l in open(tr))     # the generator ends its run at the first call that hangs
    cut_short = cut_short or "library-panic-while-building-inputs" in stats["classes"]   # ... or when the library panics while inputs are built
    if not cut_short and stats["classes"].get("tlc-conversation") != len(cases):
        raise Infra("replayed %s of %d TLC conversations" % (stats["classes"].get("tlc-conversation"), len(cases)))
    viol, tstates, n = validate(work, "Trace_Crash", tr, stats, procs=6 if quick else 12)
    # make the descriptions useful: what crashed
    lines = {json.loads(l)["id"]: json.loads(l) for l in open(tr) if '"bad":["' in l or '"outcome"' in l}
    viol2 = []
    for desc, ls in viol:
        e = json.loads(ls[0])
        what = "; ".join(e.get("bad", []))[:400] if e.get("op") == "Run" else "conversation %s -> %s" % (json.dumps(e.get("conv"))[:300], e.get("outcome"))
        viol2.append(("%s on input (%d bytes) %s: %s" % (e.get("entry", "netboot"), e.get("len", 0), json.dumps(e.get("in", []))[:200], what), ls))
    steps = sum(json.loads(l).get("steps", 1) for l in open(tr))
    cov = codec_coverage(mcs, stats, tstates, n,
                         "every decoding entry point (dhcpv4.FromBytes, Options.FromBytes, dhcpv6.FromBytes, MessageFromBytes, RelayMessageFromBytes, "
                         "ParseOption for every typed code, DUIDFromBytes, rfc1035label.FromBytes, iana.Archs.FromBytes, BroadcastRawUDPConn.ReadFrom) "
                         "on: the exhaustive small-scope sets of the wire grammars (length <= 4; the name decoder alone and behind the DHCPv6 domain list on "
                         "every string of its 7-symbol structural alphabet up to 7 / 8 bytes), valid values of every option type and the vendor "
                         "strings the zero-touch parsers look for, 6 structural mutations per valid value (truncate, set/perturb a byte, splice, "
                         "append), inputs of 4096..65507 bytes; for each accepted input <= 4096 bytes every reflected niladic exported method of the "
                         "value, its option container and its options, String/Summary, re-encode, the reply / relay-reply / request builders, "
                         "relay decapsulation, ExtractMAC, ztpv4/ztpv6 extractors, netboot extractors; all netboot conversations of 0..%d messages "
                         "enumerated by TLC (MC_Netboot); each step under recover() and a 20 s watchdog; non-trivial = more than one step ran; "
                         "distinct by entry + input" % (3 if quick else 4), False)
    cov["steps_executed"] = steps
    cov["tlc_behaviours_replayed"] = len(cases)
    return dict(violations=viol2, coverage=cov, assumptions=[
        "grammar-derived exhaustive small scope + structural mutation + specification-enumerated conversations; not coverage-guided fuzzing",
        "a step that panics or does not return within 20 s is a crash; TLC requires every recorded run to have none",
        "concurrent use: six goroutines apply every read-only operation at the same moment, each to its own decoding of the same datagram, in a "
        "child process built with the Go race detector; a fatal runtime error or a reported data race (unsynchronised shared state can abort "
        "the process: 'concurrent map writes') is recorded as a crash of that stage",
        "netboot outcomes are compared with the total outcome function of spec/Netboot.tla"])


@prop("C09")
def c09(work, tier, seed, replay):
    from .props_v4 import replay_file
    quick = tier == "quick"
    if replay:
        return replay_file(work, "Trace_Cost", replay)
    mc = common.require_mc(common.tlc(work, "Cost", cfg="MC_Cost", workers=4, timeout=600), "MC_Cost")
    vh = common.build_vh(work)
    tr, stats = common.vh_gen(work, vh, "c09", seed, tier, timeout=3000)
    bad, tstates, tgen, lines = common.tlc_trace(work, "Trace_Cost", tr, procs=1, workers=2)
    findings = {f["key"]: f for f in common.load_findings() if f["property"] == "C09"}
    viol, known = [], {}
    for i in bad:
        e = json.loads(lines[i - 1])
        key = "family:" + e["family"]
        desc = ("%s: input of %d bytes (nesting depth %d) -> %s KiB allocated, %s KiB retained%s; bounds %d / %d KiB"
                % (e["family"], e["n"], e["depth"], e["allocKiB"], e["retainedKiB"], " (killed after 25 s)" if e["killed"] else "",
                   256 * e["n"] // 1024 + 8 * e["n"] * e["depth"] // 1024 + 64, 64 * e["n"] // 1024 + 16))
        if key in findings and i not in common.tlc_trace.worse:
            known.setdefault(key, desc)
        elif key in findings:
            viol.append((desc + " - beyond the amplification that is the known finding for this family (names: n^2/8 octets retained once, "
                         "allocated about twice)", [lines[i - 1]]))
        else:
            viol.append((desc, [lines[i - 1]]))
    meas = [json.loads(l) for l in lines]
    worst = {}
    for e in meas:
        w = worst.setdefault(e["family"], dict(alloc_per_byte=0, retained_per_byte=0))
        w["alloc_per_byte"] = max(w["alloc_per_byte"], round(e["allocKiB"] * 1024 / max(1, e["n"]), 1))
        w["retained_per_byte"] = max(w["retained_per_byte"], round(e["retainedKiB"] * 1024 / max(1, e["n"]), 1))
    cov = dict(states=mc["distinct"], transitions=mc["generated"], traces_validated_against_impl=len(lines), trace_states=tstates,
               evaluations=len(lines), distinct=stats["distinct"], distinct_nontrivial=stats["distinct_nontrivial"], classes=stats["classes"],
               worst_per_family=worst,
               rule="witness families instantiated at %s bytes: compression-pointer fan, one long unterminated name, identity associations and relay "
                    "messages nested as deep as the size allows, thousands of empty options / items, one DHCPv4 option repeated with maximal and "
                    "minimal instances, ordinary messages; plus hill-climbing mutation (%s search processes x %s evaluations, island populations seeded with "
                    "valid messages, every option type alone, and DHCPv4 packets; objective: bytes allocated / AllocBound of the candidate) whose best "
                    "candidates are measured the same way; each decoded and re-encoded in a child process; TotalAlloc delta and reflective deep "
                    "size recorded; non-trivial = accepted by the decoder; distinct by input" % ("1k..65507" if quick else "512..65507 (x3)", 4 if quick else 12, 12000 if quick else 150000),
               samples=[common.trim_sample({k: v for k, v in e.items() if k != "in"}) for e in meas[:4]])
    return dict(violations=viol, known=["key=%s %s" % (k, d) for k, d in sorted(known.items())], coverage=cov, assumptions=[
        "the measured quantity (bytes allocated / retained by the real decoder) is outside TLA+; the specification contributes the cost semantics, the bounds "
        "(constants >= 4x the worst correct measurement) and the witness shapes; the adversarial search is a bounded hill-climb over inputs of "
        "at most 2048 bytes, not an exhaustive one",
        "a decode that does not finish within 25 s in its child process counts as exceeding every bound"])


def ext(work, tier, seed):
    """./check ext — extended conformance beyond the twenty properties (spec/Extract.tla). Never a VIOLATION."""
    from .props_v4 import validate
    vh = common.build_vh(work)
    tr, stats = common.vh_gen(work, vh, "ext", seed, tier)
    viol, tstates, n = validate(work, "Trace_Ext", tr, stats, procs=6)
    tr2, stats2 = common.vh_gen(work, vh, "ztp", seed, tier)
    viol2, tstates2, n2 = validate(work, "Trace_Ext", tr2, stats2, procs=6)
    viol, tstates, n = viol + viol2, tstates + tstates2, n + n2
    for k in ("lines", "distinct", "distinct_nontrivial"):
        stats[k] += stats2[k]
    stats["classes"].update(stats2["classes"])
    for fam in ("ext2", "ztpc"):
        tr3, stats3 = common.vh_gen(work, vh, fam, seed, tier)
        viol3, tstates3, n3 = validate(work, "Trace_Ext", tr3, stats3, procs=6)
        viol, tstates, n = viol + viol3, tstates + tstates3, n + n3
        for k in ("lines", "distinct", "distinct_nontrivial"):
            stats[k] += stats3[k]
        stats["classes"].update(stats3["classes"])
    from .props_client import inform_ext
    violi, tstatesi, ni, mcsi = inform_ext(work, tier, seed)
    viol, tstates, n = viol + violi, tstates + tstatesi, n + ni
    stats["lines"] += ni
    stats["distinct"] += ni
    stats["classes"]["inform-exchange"] = ni
    for desc, _ in viol[:20]:
        common.log("EXTENDED-MISMATCH " + desc[:500])
    cov = dict(states=tstates, transitions=tstates, traces_validated_against_impl=n, evaluations=stats["lines"], distinct=stats["distinct"],
               distinct_nontrivial=stats["distinct_nontrivial"], classes=stats["classes"], mismatches=len(viol),
               samples=[common.trim_sample(s) for s in stats["samples"][:3]],
               rule="netboot.GetNetConfFromPacketv6/v4, dhcpv6.ExtractMAC, the DHCPv6 option-container accessors (DNS, search list, boot file URL, "
                    "merged ORO, NTP servers, IsNetboot, IsOptionRequested) and dhcpv4 IsOptionRequested on generated messages with several "
                    "instances of the relevant options; results compared with the operators of spec/Extract.tla; "
                    "ztpv4/ztpv6 ParseVendorData on vendor strings drawn from the grammar of their case tables (spec/Ztp.tla); "
                    "every typed accessor of the DHCPv6 option containers (message, relay, IA, PD, address, prefix, 4RD), the container "
                    "operations, the 19 modifiers and NewMessage/NewSolicit/advertise/request/reply with caller modifiers (spec/Dhcp6Mods.tla); "
                    "ztpv4.ParseCircuitID / ztpv6.ParseRemoteID on interface names drawn from the grammar of their regular expressions, "
                    "judged by a backtracking matcher over the same expressions as token lists (spec/ZtpCircuit.tla); "
                    "nclient4.Inform against every server behaviour of Lease.tla with Inform = TRUE (one reply per transmission exhaustively, "
                    "two simulated): the INFORM as the specification's builder gives it, completed by the first ACK that passes the "
                    "transaction filter")
    common.write_evidence("EXT", tier, seed, cov, 0, 0, ["extended conformance: informational, not part of any property's verdict"])
    common.log("EXT lines=%d mismatches=%d" % (n, len(viol)))
    return 0
