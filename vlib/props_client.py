"""C10, C11, C12: the transaction multiplexer of nclient4/nclient6, specification spec/Client.tla."""
import json, os, re
from . import common
from .common import Infra, log
from .registry import prop

ASSUME = [
    "the real clients run under a gate scheduler (build tag verif hooks) inside testing/synctest bubbles: one goroutine runs at a time, "
    "virtual time is exact; interleavings are explored at the granularity of the hook points (critical sections)",
    "TLC decides every recorded execution against spec/Client.tla (guards + logged outcomes) and evaluates the property invariants after every step",
    "fake net.PacketConn; the per-transaction buffer capacity is set through reflection (unexported field bufferCap)",
    "C10 data-race clause: lock discipline on the validated traces plus free-running executions (hooks off, no shared harness state) under the Go race detector; a race report is a real-code observation",
]

_RE_STEP = re.compile(r"^State \d+: <(\w+)(?:\(([^)]*)\))? line")
ACT = {"EnvInject": "Inject", "EnvCtx": "CtxCancel", "EnvClose": "CloseStart", "EnvTick": "Tick"}


def parse_counterexample(out):
    steps = []
    for line in out.splitlines():
        m = _RE_STEP.match(line)
        if not m:
            continue
        name, args = m.group(1), m.group(2)
        name = ACT.get(name, name)
        st = [name]
        if args:
            for a in args.split(","):
                a = a.strip()
                st.append(a.strip('"') if a.startswith('"') else int(a))
        steps.append(st)
    return steps


def cfg_of(work, cfgname):
    """Reads the scalar constants of an MC_Client*.cfg (the schedule must run under the same configuration)."""
    txt = open(os.path.join(common.SPEC, "mc", cfgname + ".cfg")).read()
    g = lambda k, d=None: (re.search(r"^\s*%s\s*=\s*(\S+)" % k, txt, re.M) or [None, d])[1]
    ncall = len(re.search(r"Callers\s*=\s*\{([^}]*)\}", txt).group(1).split(","))
    xo = re.search(r"XidOf\s*<-\s*(\w+)", txt).group(1)
    xid = {"XidAll7": [7] * ncall, "Xid78": [7, 8][:ncall], "Xid778": [7, 7, 8][:ncall]}[xo]
    return dict(T=int(g("T")), tries=int(g("Tries")), bufcap=int(g("BufCap")), xid=xid,
                urgent=g("Urgent") == "TRUE", timed=True, wfault=g("WFault", "FALSE") == "TRUE",
                rfault=g("RFault", "FALSE") == "TRUE")


def leads(work, which):
    """Non-vacuity + spec->impl: the deliberately wrong designs must violate the property in the model; the
    counterexample schedules are replayed into the real clients."""
    out, mcs = [], []
    for cfgname, inv in which:
        r = common.tlc(work, "MC_Client", cfg=cfgname, workers=8, timeout=600)
        if inv not in r["violated"]:
            raise Infra("%s: expected the wrong design to violate %s (non-vacuity), got %s\n%s" % (cfgname, inv, r["violated"], r["out"][-1500:]))
        steps = parse_counterexample(r["out"])
        if len(steps) < 1:
            raise Infra("%s: could not parse the counterexample" % cfgname)
        out.append(dict(cfg=cfg_of(work, cfgname), steps=steps, tag=cfgname))
        mcs.append(r)
    return out, mcs


def simulate(work, n, depth, seed):
    r = common.tlc(work, "MC_ClientSim", cfg="MC_ClientSim", workers=1, timeout=900,
                   extra=["-simulate", "num=%d" % n, "-depth", str(depth), "-seed", str(seed)])
    if r["error"] is not None and not r["cases"]:
        raise Infra("MC_ClientSim: TLC produced no behaviours\n" + r["out"][-2500:])
    cases = [json.loads(json.loads(c)[5:]) for c in r["cases"]]
    if len(cases) < n // 10:
        raise Infra("MC_ClientSim: only %d behaviours from %d simulations\n%s" % (len(cases), n, r["out"][-1500:]))
    # keep maximal behaviours only (a printed case may be a prefix of a later one)
    keys = sorted((json.dumps(c["steps"]) for c in cases), key=len, reverse=True)
    kept, seen = [], []
    for k in keys:
        body = k[:-1]
        if any(s.startswith(body) for s in seen):
            continue
        seen.append(k)
        kept.append(k)
    base = cfg_of(work, "MC_ClientSim")
    return [dict(cfg=base, steps=json.loads(k), tag="simulate") for k in kept], r


def run_sims(work, schedules, nrandom, mode, seed, race=False, nfree=0):
    binp = common.build_test(work, "./clientsim/", "sim.test" + (".race" if race else ""), race=race)
    sf = work.path("schedules.%s.ndjson" % mode)
    with open(sf, "w") as f:
        for s in schedules:
            f.write(json.dumps(s) + "\n")
    out = work.path("sim.%s.ndjson" % mode)
    env = dict(VH_OUT=out, VH_SCHEDULES=sf, VH_RANDOM=str(nrandom), VH_MODE=mode, VERIF_SEED=str(seed), VH_FREE=str(nfree),
               VH_GRID="1" if nrandom > 1000 else "0")
    p = common.run([binp, "-test.run", "TestSim$", "-test.timeout", "50m"], cwd=work.dir, env=env, timeout=3300)
    return out, p


def validate_traces(work, tracefile, procs=4, module="Trace_Client", cfg=None, specname="spec/Client.tla"):
    """Runs Trace_Client over the trace file (split over several TLC processes). Returns violations and counts."""
    from concurrent.futures import ThreadPoolExecutor
    lines = [l for l in open(tracefile).read().splitlines() if l.strip()]
    if not lines:
        raise Infra("no traces recorded")
    procs = max(1, min(procs, len(lines) // 20 + 1))
    parts = []
    for i in range(procs):
        part = lines[i * len(lines) // procs:(i + 1) * len(lines) // procs]
        pth = "%s.p%d" % (tracefile, i)
        open(pth, "w").write("\n".join(part) + "\n")
        parts.append((pth, part))

    def one(i):
        pth, part = parts[i]
        r = common.tlc(work, module, cfg=cfg, workers=4, timeout=3000, env=dict(VH_TRACE=pth), tag="%s-p%d" % (cfg or module, i), heap="6g")
        if r["error"] is not None or r["rc"] != 0 or r["violated"]:
            raise Infra(module + ": TLC error\n" + r["out"][-3000:])
        return r

    with ThreadPoolExecutor(max_workers=procs) as ex:
        rs = list(ex.map(one, range(procs)))
    byid = {json.loads(l)["id"]: l for l in lines}
    viol, badids = [], set()
    nstates = sum(r["distinct"] for r in rs)
    for r in rs:
        for ln in r["out"].splitlines():
            m = re.match(r'<<"MISMATCH", (\d+), (\d+)>>', ln)
            if m:
                tid, at = int(m.group(1)), int(m.group(2))
                if tid in badids:
                    continue
                badids.add(tid)
                t = json.loads(byid[tid])
                ctx = t["ev"][max(0, at - 4):at]
                tc = t.get("cfg", {})
                viol.append(("trace %d (%s, cfg %s) is not a behaviour of %s: line %d %s is not allowed after %s"
                             % (tid, tc.get("mode", t.get("mode")), {k: v for k, v in tc.items() if k != "mode"}, specname, at,
                                json.dumps(t["ev"][at - 1]), json.dumps(ctx[:-1])[-400:]), [byid[tid]]))
            m = re.match(r'<<"INVARIANT", "(\w+)", (\d+), (\d+)>>', ln)
            if m:
                name, tid, at = m.group(1), int(m.group(2)), int(m.group(3))
                if (tid, name) in badids:
                    continue
                badids.add((tid, name))
                t = json.loads(byid[tid])
                viol.append(("trace %d (%s): invariant %s violated after %d recorded actions; last: %s"
                             % (tid, t.get("cfg", {}).get("mode", t.get("mode")), name, at, json.dumps(t["ev"][max(0, at - 3):at])[-500:]), [byid[tid]]))
    expect = sum(len(json.loads(l)["ev"]) + 1 for l in lines)
    if not viol and nstates != expect:
        raise Infra("%s consumed %d states, expected %d" % (module, nstates, expect))
    return viol, nstates, lines


def crashed(p):
    """The test binary died: a deadlocked bubble (goroutine leak / hang) or a panic in a library goroutine
    is behaviour of the real code."""
    out = p.stdout
    sims = re.findall(r"^SIM (\d+) (\S+)", out, re.M)
    last = sims[-1] if sims else ("?", "?")
    # the headline comes before the dump of every goroutine, which can be long: look at the whole output
    for pat, what in ((r"blocked goroutines remain|deadlock: ", "goroutines still blocked after the run ended"),
                      (r"^panic: |^fatal error: ", "the client crashed")):
        m = re.search(pat, out, re.M)
        if m:
            ctx = " ".join(out[max(0, m.start() - 200):m.start() + 900].split())
            return "%s (sim %s %s): %s" % (what, last[0], last[1], ctx[:900])
    return None


def client_check(work, tier, seed, replay, propid):
    quick = tier == "quick"
    if replay:
        viol, nstates, lines = validate_traces(work, replay, procs=1)
        return dict(violations=viol, coverage=dict(states=nstates, transitions=nstates, traces_validated_against_impl=len(lines),
                                                    samples=[lines[0][:400]]))
    mcs = []
    # 1. the intended design satisfies the properties (exhaustive, small scope)
    if propid == "C10":
        plan = [("MC_ClientSafety" + ("" if not quick else "_quick"), 1500), ("MC_ClientHist", 1500)]      # ... and with call histories, write faults
    else:
        plan = [("MC_ClientTimed" + ("" if not quick else "_quick"), 2400), ("MC_ClientHistTimed" + ("" if not quick else "_quick"), 2400)]
        if propid == "C11":
            plan.append(("MC_ClientLive", 900))     # liveness under weak fairness: every call returns, Close returns
    for cfgname, to in plan:
        mcs.append(common.require_mc(common.tlc(work, "MC_Client", cfg=cfgname, workers=common.NCPU, timeout=to, heap="12g"), cfgname))
    # 2. the wrong designs violate them (non-vacuity) and give lead schedules
    if propid == "C10":
        lead, lmcs = leads(work, [("MC_ClientLeadNil", "NoNilDelivery"), ("MC_ClientLeadChan", "ChanClosedOnlyAfterOwnDone")])
    else:
        lead, lmcs = leads(work, [("MC_ClientLeadTimer", "Schedule"), ("MC_ClientLeadDeadline", "Deadline"),
                                  ("MC_ClientLeadCarry", "Schedule"), ("MC_ClientLeadLeak", "IdReusable"),
                                  ("MC_ClientLeadFire", "IdReusable"), ("MC_ClientLeadReadErr", "DoneOnlyByClose")])
        if propid == "C11":
            # liveness is not vacuous either: a loop that survives the error of a closed connection keeps Close waiting for ever
            r = common.tlc(work, "MC_Client", cfg="MC_ClientLiveStuck", workers=4, timeout=600)
            if "CloseReturns" not in r["violated"] and "Temporal properties were violated" not in r["out"]:
                raise Infra("MC_ClientLiveStuck: the wrong design must violate CloseReturns (non-vacuity): %s\n%s" % (r["violated"], r["out"][-1500:]))
            lmcs.append(dict(r, violated=r["violated"] or ["CloseReturns"]))
    # 3. random behaviours of the specification
    sims, simr = simulate(work, 150 if quick else 1500, 70, seed)
    # 4. replay into the real clients + random scheduler runs, 5. validate every recorded execution
    mode = "c10" if propid == "C10" else "c11"
    nrandom = (150 if quick else 2500)
    out, p = run_sims(work, lead + sims, nrandom, mode, seed, nfree=(200 if quick else 4000))
    viol = []
    if p.returncode != 0:
        why = crashed(p)
        if why is None:
            raise Infra("clientsim failed:\n" + p.stdout[-3000:])
        viol.append((why, [p.stdout[-4000:]]))
        v2, nstates, lines = ([], 0, [])
        if os.path.exists(out) and os.path.getsize(out) > 0:
            v2, nstates, lines = validate_traces(work, out, procs=4 if quick else 8)
        viol += v2
    else:
        viol, nstates, lines = validate_traces(work, out, procs=4 if quick else 8)
    stats = json.load(open(out + ".stats")) if os.path.exists(out + ".stats") else {}
    if propid == "C10":
        # the data-race clause: free-running callers / injector / Close with the hooks off, under the race detector
        rounds = 80 if quick else 2000
        rb = common.build_test(work, "./clientsim/", "sim.race", race=True)
        rp = common.run([rb, "-test.run", "TestRace$", "-test.timeout", "30m"], cwd=work.dir, timeout=2400,
                        env=dict(VH_RACE=str(rounds), VERIF_SEED=str(seed), GORACE="halt_on_error=1"))
        stats["race_rounds"] = rounds
        if "WARNING: DATA RACE" in rp.stdout:
            at = rp.stdout.find("WARNING: DATA RACE")
            viol.append(("the Go race detector reports a data race in a free-running execution: " + " ".join(rp.stdout[at:at + 900].split())[:700],
                         [rp.stdout[at:at + 4000]]))
        elif rp.returncode != 0:
            why = crashed(rp)
            if why is None:
                raise Infra("race run failed:\n" + rp.stdout[-3000:])
            viol.append((why, [rp.stdout[-4000:]]))
    distinct = len(set(json.dumps(json.loads(l)["ev"]) for l in lines))
    nontriv = len(set(json.dumps(json.loads(l)["ev"]) for l in lines if len(json.loads(l)["ev"]) >= 12))
    cov = dict(states=sum(r["distinct"] for r in mcs), transitions=sum(r["generated"] for r in mcs),
               mc_runs=[dict(cfg=r["cfg"], distinct=r["distinct"], generated=r["generated"], wall_s=round(r["wall"], 1)) for r in mcs],
               nonvacuity=[dict(cfg=r["cfg"], violated=r["violated"]) for r in lmcs],
               traces_validated_against_impl=len(lines), trace_states=nstates,
               tlc_behaviours_replayed=len(lead) + len(sims), harness_stats=stats,
               evaluations=len(lines), distinct=distinct, distinct_nontrivial=nontriv,
               rule="one evaluation = one complete execution of a real client (nclient4 and nclient6 alternately) under the gate scheduler: "
                    "TLC counterexample schedules of the wrong designs, TLC -simulate behaviours of the intended design, and seeded random-"
                    "scheduler runs (1..4 callers, colliding ids, all datagram kinds, ctx cancel, Close, buffer capacity 1/2/5); non-trivial = "
                    "at least 12 recorded actions; distinct by recorded action sequence",
               samples=[common.trim_sample(json.loads(l), 1500) for l in lines[:2]])
    return dict(violations=viol, coverage=cov, assumptions=ASSUME)


@prop("C10")
def c10(work, tier, seed, replay):
    return client_check(work, tier, seed, replay, "C10")


@prop("C11")
def c11(work, tier, seed, replay):
    return client_check(work, tier, seed, replay, "C11")


@prop("C12")
def c12(work, tier, seed, replay):
    return client_check(work, tier, seed, replay, "C12")


def inform_ext(work, tier, seed):
    """Extended conformance (./check ext): the INFORM / ACK exchange of nclient4 (Lease.tla with Inform = TRUE). Not part of C13,
    whose text is about lease acquisition, renewal and release. Returns (mismatch descriptions, trace states, lines, model runs)."""
    quick = tier == "quick"
    mcs = [common.require_mc(common.tlc(work, "MC_Lease", cfg=c, workers=4, timeout=900), c) for c in ("MC_Lease4i", "MC_LeaseAll4i")]
    cases = [json.loads(c)[5:] for c in mcs[1]["cases"]]
    s = common.tlc(work, "MC_Lease", cfg="MC_LeaseSim4i", workers=1, timeout=1200,
                   extra=["-simulate", "num=%d" % (300 if quick else 5000), "-depth", "40", "-seed", str(seed)])
    cases = sorted(set(cases + [json.loads(c)[5:] for c in s["cases"]]))
    if len(cases) < 100:
        raise Infra("TLC produced only %d INFORM behaviours" % len(cases))
    cf = work.path("inform.cases")
    open(cf, "w").write("\n".join(cases) + "\n")
    binp = common.build_test(work, "./leasesim/", "lease.test")
    out = work.path("inform.ndjson")
    p = common.run([binp, "-test.run", "TestLeaseSim$", "-test.timeout", "50m"], cwd=work.dir, timeout=3300,
                   env=dict(VH_OUT=out, VH_CASES=cf, VERIF_SEED=str(seed)))
    if p.returncode != 0:
        raise Infra("leasesim (INFORM) failed:\n" + p.stdout[-3000:])
    bad, tstates, tgen, lines = common.tlc_trace(work, "Trace_Lease", out, procs=4, workers=2)
    viol = []
    for i in bad:
        e = json.loads(lines[i - 1])
        viol.append(("INFORM against server behaviour %s: expected transmissions %s outcome %s (final #%s); the client did: %s" % (
            json.dumps(e["exp"]["script"])[:300], e["exp"]["txs"], e["exp"]["result"], e["exp"]["fi"], json.dumps(e["obs"]["res"])), [lines[i - 1]]))
    return viol, tstates, len(lines), mcs


@prop("C13")
def c13(work, tier, seed, replay):
    from .props_v4 import validate, replay_file
    quick = tier == "quick"
    if replay:
        return replay_file(work, "Trace_Lease", replay)
    mcs = [common.require_mc(common.tlc(work, "MC_Lease", cfg=c, workers=4, timeout=900), c) for c in ("MC_Lease4", "MC_Lease6", "MC_Lease6r")]
    cases = []
    # every script with one reply per transmission (exhaustive), plus simulated scripts with two
    r = common.require_mc(common.tlc(work, "MC_Lease", cfg="MC_LeaseAll4", workers=4, timeout=900), "MC_LeaseAll4")
    mcs.append(r)
    cases += [json.loads(c)[5:] for c in r["cases"]]
    nexh = len(cases)
    for cfg, n in (("MC_LeaseSim4", 500 if quick else 20000), ("MC_LeaseSim6", 150 if quick else 0), ("MC_LeaseSim6r", 150 if quick else 0)):
        if n:
            s = common.tlc(work, "MC_Lease", cfg=cfg, workers=1, timeout=1200, extra=["-simulate", "num=%d" % n, "-depth", "40", "-seed", str(seed)])
            cases += [json.loads(c)[5:] for c in s["cases"]]
    if not quick:
        for cfg in ("MC_LeaseSim6", "MC_LeaseSim6r"):     # exhaustive for DHCPv6
            r = common.require_mc(common.tlc(work, "MC_Lease", cfg=cfg, workers=8, timeout=1800, heap="8g"), cfg)
            mcs.append(r)
            cases += [json.loads(c)[5:] for c in r["cases"]]
    cases = sorted(set(cases))
    if len(cases) < 300:
        raise Infra("TLC produced only %d server behaviours" % len(cases))
    cf = work.path("lease.cases")
    open(cf, "w").write("\n".join(cases) + "\n")
    binp = common.build_test(work, "./leasesim/", "lease.test")
    out = work.path("lease.ndjson")
    p = common.run([binp, "-test.run", "TestLeaseSim$", "-test.timeout", "50m"], cwd=work.dir, timeout=3300,
                   env=dict(VH_OUT=out, VH_CASES=cf, VERIF_SEED=str(seed)))
    viol = []
    if p.returncode != 0:
        why = crashed(p)
        if why is None:
            raise Infra("leasesim failed:\n" + p.stdout[-3000:])
        viol.append((why, [p.stdout[-4000:]]))
    lines = open(out).read().splitlines()
    stats = dict(lines=len(lines), distinct=len(cases), distinct_nontrivial=0, classes={}, samples=[])
    bad, tstates, tgen, lines = common.tlc_trace(work, "Trace_Lease", out, procs=4 if quick else 12, workers=2)
    for i in bad:
        e = json.loads(lines[i - 1])
        viol.append(("server behaviour %s: expected transmissions %s outcome %s (offer #%s, final #%s); the client did: %s %s" % (
            json.dumps(e["exp"]["script"])[:400], e["exp"]["txs"], e["exp"]["result"], e["exp"]["oi"], e["exp"]["fi"],
            json.dumps(e["obs"]["res"]), json.dumps([t.get("pkt", {}).get("opts") or t.get("mt") for t in e["obs"]["txs"]])[:500]), [lines[i - 1]]))
    nontriv = sum(1 for c in cases if '"second"' in c)
    cov = dict(states=sum(r["distinct"] for r in mcs), transitions=sum(r["generated"] for r in mcs),
               mc_runs=[dict(cfg=r["cfg"], distinct=r["distinct"], generated=r["generated"]) for r in mcs],
               traces_validated_against_impl=len(lines), trace_states=tstates, tlc_behaviours_replayed=len(cases),
               exhaustive_one_reply_per_transmission=nexh, evaluations=len(lines), distinct=len(cases), distinct_nontrivial=nontriv,
               rule="one evaluation = one server behaviour enumerated by TLC from spec/Lease.tla (after every client transmission 0..2 replies "
                    "drawn from OFFER/ACK/NAK of servers A, B or without server id, a type the client never asks for, and replies failing the "
                    "transaction filter: wrong id, wrong hardware address, BOOTREQUEST, undecodable; DHCPv6: ADVERTISE/REPLY/RECONFIGURE) played "
                    "by a reactive scripted connection against the real nclient4.Request (every third also Renew + Release) and nclient6 "
                    "Solicit+Request / RapidSolicit in virtual time; non-trivial = the exchange reaches the REQUEST; distinct by script",
               samples=[common.trim_sample(json.loads(l), 1800) for l in lines[:2]])
    return dict(violations=viol, coverage=cov, assumptions=[
        "2 tries per exchange, 1 s timeout in testing/synctest virtual time; the scripted connection answers each transmission immediately",
        "message contents are judged by Dhcp4Build/Dhcp6Build operators on the library's decoding of the accepted OFFER / the specification's decoding (Dec6) of the ADVERTISE and REQUEST bytes",
        "the SendAndRead contract (first acceptable datagram, retries) is established separately by C10-C12"])
