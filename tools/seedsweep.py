#!/usr/bin/env python3
"""tools/seedsweep.py [-j N] [seed-id ...] — regression test of the machinery itself: every seeded change under
/verif/seeded is applied to a scratch worktree of /repo (never /repo itself), the quick check of its property is
run against that worktree (VERIF_REPO), and must report a VIOLATION (exit 1). Prints one line per seed and a summary;
exit 0 iff every seed is detected. Worktrees are removed as soon as their check is done."""
import json, os, subprocess, sys, tempfile, shutil
from concurrent.futures import ThreadPoolExecutor
V = os.path.dirname(os.path.dirname(os.path.abspath(__file__)))
# the checks run from a snapshot of /verif taken now, so that work on /verif during a long sweep does not change what is measured
SNAP = tempfile.mkdtemp(prefix="verif_snap_", dir="/tmp")
subprocess.run(["rsync", "-a", "--exclude", ".git", "--exclude", ".work", "--exclude", "replays", "--exclude", "seeded", "--exclude", "evidence",
                V + "/", SNAP + "/"], check=True)

def one(sid):
    d = os.path.join(V, "seeded", sid)
    prop = json.load(open(os.path.join(d, "meta.json")))["property"]
    wt = tempfile.mkdtemp(prefix="wt_sweep_", dir="/tmp"); os.rmdir(wt)
    try:
        r = subprocess.run(["git", "-C", "/repo", "worktree", "add", "--detach", wt, "HEAD"], capture_output=True, text=True)
        if r.returncode: return sid, prop, "worktree failed"
        r = subprocess.run(["git", "-C", wt, "apply", os.path.join(d, "patch.diff")], capture_output=True, text=True)
        if r.returncode: return sid, prop, "patch does not apply (tree moved on): " + r.stderr.strip()[:100]
        env = dict(os.environ, VERIF_REPO=wt, VERIF_EVIDENCE_DIR=tempfile.mkdtemp(prefix="ev_", dir="/tmp"))
        r = subprocess.run([os.path.join(SNAP, "check"), prop, "--tier", "quick"], cwd=SNAP, env=env, capture_output=True, text=True)
        shutil.rmtree(env["VERIF_EVIDENCE_DIR"], ignore_errors=True)
        first = [l for l in r.stdout.splitlines() if l.startswith(("VIOLATION", "INFRA"))]
        return sid, prop, "exit=%d %s" % (r.returncode, first[0][:90] if first else "")
    finally:
        subprocess.run(["git", "-C", "/repo", "worktree", "remove", "--force", wt], capture_output=True)

def main():
    args = sys.argv[1:]
    j = 3
    if args and args[0] == "-j":
        j = int(args[1]); args = args[2:]
    seeds = args or sorted(os.listdir(os.path.join(V, "seeded")))
    seeds = [s for s in seeds if os.path.exists(os.path.join(V, "seeded", s, "patch.diff"))
             and not ({"obsolete", "not_claimed"} & set(json.load(open(os.path.join(V, "seeded", s, "meta.json")))))]
    missed = 0
    with ThreadPoolExecutor(max_workers=j) as ex:
        for sid, prop, res in ex.map(one, seeds):
            ok = res.startswith("exit=1")
            missed += 0 if ok else 1
            print("%-28s %-4s %s %s" % (sid, prop, "DETECTED" if ok else "MISSED  ", res), flush=True)
    print("seeds=%d missed=%d" % (len(seeds), missed))
    shutil.rmtree(SNAP, ignore_errors=True)
    return 1 if missed else 0

sys.exit(main())
