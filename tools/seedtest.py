#!/usr/bin/env python3
"""tools/seedtest.py <patch.diff> <Cxx> [<Cyy> ...]  — apply a seeded change to /repo, run the quick
checks, ALWAYS restore /repo. Prints one line per check: exit code and first VIOLATION line."""
import subprocess, sys, os
patch, props = sys.argv[1], sys.argv[2:]
def sh(*c, **k): return subprocess.run(c, capture_output=True, text=True, **k)
st = sh("git", "-C", "/repo", "status", "--porcelain").stdout.strip()
if st:
    print("refusing: /repo is dirty:\n" + st); sys.exit(2)
r = sh("git", "-C", "/repo", "apply", patch)
if r.returncode != 0:
    print("patch does not apply:", r.stderr); sys.exit(2)
try:
    for p in props:
        env = dict(os.environ)
        r = subprocess.run(["./check", p, "--tier", os.environ.get("TIER", "quick")], cwd="/verif", capture_output=True, text=True, env=env)
        v = [l for l in r.stdout.splitlines() if l.startswith("VIOLATION") or l.startswith("INFRA")]
        print("%s exit=%d %s" % (p, r.returncode, v[0] if v else ""))
        if r.returncode == 1:
            more = [l for l in r.stdout.splitlines() if l.startswith("  ")]
            if more: print("   ", more[0][:400])
        if r.returncode == 2:
            print(r.stdout[-1500:])
finally:
    sh("git", "-C", "/repo", "checkout", "--", ".")
    sh("git", "-C", "/repo", "clean", "-fd")
