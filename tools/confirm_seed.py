#!/usr/bin/env python3
"""tools/confirm_seed.py <seed-dir> [...]: independently confirm a seeded change in a scratch worktree:
(1) applies, builds, whole existing suite passes; (2) demo fails with the change; (3) demo passes without.
On success copies it to /verif/seeded/<prop>-<mk>/ with meta.json extended by what was run."""
import json, os, re, shutil, subprocess, sys, tempfile
ENV = dict(os.environ, GOFLAGS="-mod=mod", GOPROXY="off", GOSUMDB="off", GOTOOLCHAIN="local")
def sh(cmd, cwd, timeout=1200):
    p = subprocess.run(cmd, shell=True, cwd=cwd, env=ENV, capture_output=True, text=True, errors="replace", timeout=timeout)
    return p.returncode, (p.stdout + p.stderr)
def confirm(sd):
    sd = os.path.abspath(sd)
    meta = json.load(open(os.path.join(sd, "meta.json")))
    instr = meta["demo_instructions"]
    instr = re.sub(r"<repo[^>]*>/", "", instr)
    instr = re.sub(r"/tmp/wt\d*_C\d+/", "", instr)          # the agent's own worktree: paths are relative to the repo root
    cps = re.findall(r"cp\s+(\S+)\s+([\w/.]+/)", instr)
    m = re.search(r"(go1?\.?2?6?\s*test\s+-vet=off(?:'[^']*'|[^;#(\n'])*)", instr)
    if not cps or not m:
        return "cannot parse demo instructions"
    gotest = m.group(1).strip()
    wt = tempfile.mkdtemp(prefix="wt_confirm_", dir="/tmp")
    os.rmdir(wt)
    rc, out = sh("git -C /repo worktree add --detach %s HEAD" % wt, "/")
    if rc: return "worktree: " + out
    try:
        rc, out = sh("git apply %s/patch.diff" % sd, wt)
        if rc: return "patch does not apply: " + out[-300:]
        for attempt in range(3):   # the repository's nclient6 tests are flaky under load: retry
            rc, out = sh("go build ./... && go test -vet=off -count=1 ./...", wt)
            if rc == 0: break
        if rc: return "existing suite fails with change: " + out[-800:]
        import glob as _glob
        for src, dst in cps:
            src = src.replace("/tmp/seeds/", os.path.dirname(os.path.dirname(sd)) + "/") if not (os.path.exists(src) or _glob.glob(src)) else src
            for one in (_glob.glob(src) or [src]):
                shutil.copy(one, os.path.join(wt, dst))
        rc1, out1 = sh("timeout 300 " + gotest, wt)
        if rc1 == 0: return "demo PASSES with the change (expected failure)"
        sh("git apply -R %s/patch.diff" % sd, wt)
        rc2, out2 = sh("timeout 300 " + gotest, wt)
        if rc2 != 0: return "demo FAILS without the change: " + out2[-800:]
        name = "%s-%s" % (meta["property"], os.path.basename(sd))
        dst = os.path.join("/verif/seeded", name)
        shutil.rmtree(dst, ignore_errors=True)
        shutil.copytree(sd, dst)
        meta["confirmed_by_verif"] = dict(suite_with_change="pass (go build ./... && go test -vet=off -count=1 ./...)",
                                          demo_with_change="fail: " + out1.strip().splitlines()[-1][:200] if out1.strip() else "fail",
                                          demo_without_change="pass", demo_cmd=gotest)
        json.dump(meta, open(os.path.join(dst, "meta.json"), "w"), indent=1)
        return "CONFIRMED -> " + dst
    finally:
        sh("git -C /repo worktree remove --force %s" % wt, "/")
for sd in sys.argv[1:]:
    try:
        print(sd, ":", confirm(sd), flush=True)
    except Exception as e:
        print(sd, ": ERROR", e, flush=True)
