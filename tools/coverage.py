#!/usr/bin/env python3
"""tools/coverage.py [Cxx ...] - which code of insomniacslk/dhcp do the harnesses of the quick checks never execute?
Runs the named checks (default: all, plus ./check ext) with VERIF_COVER set: every harness binary is built with
`-cover -coverpkg=<the library>` and leaves its counters in a scratch directory; prints the library functions that are
not fully covered, least covered first. A diagnostic for the machinery (a branch no generator reaches cannot reveal a
change made in it); evidence files written by such a run are not meant to be committed."""
import os, subprocess, sys, tempfile, shutil
V = os.path.dirname(os.path.dirname(os.path.abspath(__file__)))
props = sys.argv[1:] or ["C%02d" % i for i in range(1, 21)] + ["ext"]
d = tempfile.mkdtemp(prefix="vcov_", dir="/tmp")
ev = tempfile.mkdtemp(prefix="vcovev_", dir="/tmp")
env = dict(os.environ, VERIF_COVER=d, VERIF_EVIDENCE_DIR=ev)
for p in props:
    r = subprocess.run([os.path.join(V, "check"), p], cwd=V, env=env, capture_output=True, text=True)
    print("# %s exit=%d" % (p, r.returncode), flush=True)
genv = dict(os.environ, GOFLAGS="-mod=mod", GOPROXY="off", GOSUMDB="off", GOTOOLCHAIN="local")
out = subprocess.run(["go1.26", "tool", "covdata", "func", "-i=" + d], env=genv, capture_output=True, text=True).stdout
rows = []
for l in out.splitlines():
    if "insomniacslk/dhcp/" not in l or "/examples/" in l:
        continue
    f = l.split()
    pct = float(f[-1].rstrip("%"))
    if pct < 100.0:
        rows.append((pct, l.replace("github.com/insomniacslk/dhcp/", "")))
for pct, l in sorted(rows):
    print(l)
shutil.rmtree(d, ignore_errors=True); shutil.rmtree(ev, ignore_errors=True)
