#!/usr/bin/env python3
"""Regenerates MANIFEST.json from the table below (keeps the file valid at all times)."""
import json, subprocess, os
HERE = os.path.dirname(os.path.dirname(os.path.abspath(__file__)))

CHECKS = {
 "C01": ("6", "RFC 2131/2132/3396 encoder+decoder in TLA+ (Dhcp4Wire); TLC checks round trip + split lemma exhaustively with scaled constants and validates every recorded ToBytes/FromBytes call of generated packet values against Enc4/Dec4",
         "TLC model check of Dhcp4Wire (scaled constants) + trace validation of real ToBytes/FromBytes calls against the spec"),
 "C04": ("6", "options scanner as a TLA+ step machine cross-checked against the recursive Dec4 operator for every small options area; every recorded FromBytes call (exhaustive small scope enumerated on the Go side too, truncations, corruptions, random) must equal Dec4(in)",
         "TLC exhaustive small-scope scanner machine + trace validation of real FromBytes calls against Dec4"),
 "C06": ("6", "recorded FromBytes->ToBytes->FromBytes->ToBytes chains of DHCPv4 packets and DHCPv6 messages validated by TLC: the first decode equals Dec4/Dec6, the re-encoding reads (by the specification decoder) as the same value, decodes to an equal message, and the second encoding is identical",
         "trace validation of decode/encode chains against Dec4/Enc4/Canon"),
 "C07": ("6", "TLC enumerates every update/delete history in scope (MC_Dhcp4Ops) and the expected contents; each history is replayed through the real packet API, encoded 20 times; TLC checks bytes = Enc4(contents) and the independent Canonical() wire validator",
         "TLC-generated behaviours replayed into the real API + trace validation against Enc4/Canonical"),
 "C10": ("6", "Client.tla (callers, receive loop, pending map, per-entry channel/done, mutex, Close) model-checked exhaustively in a small scope for OwnTransaction/FirstAcceptable/NoNilDelivery/ChanClosedOnlyAfterOwnDone/RefuseWhilePending/Isolation; the deliberately wrong design must fail (non-vacuity) and its counterexample schedule, TLC -simulate behaviours and random-scheduler runs are executed on the real nclient4 and nclient6 under a gate scheduler; every recorded execution is validated by TLC against the same actions",
         "TLC model check of Client.tla + TLC-chosen schedules replayed into the real clients (gate hooks, synctest) + trace validation"),
 "C11": ("6", "Client.tla in timed/urgent mode (testing/synctest semantics): Deadline, CtxPrompt, ClosePrompt, IdReusable, CloseStopsLoop model-checked; real clients run in virtual time under the gate scheduler with urgent policy, tries 0..4 and negative, timeouts from 0, ctx cancel (plain, by deadline, with a cause) and Close (from outside, from a matcher, again) at random instants, write and read faults, call histories, the calls built on SendAndRead (DiscoverOffer, Inform, Solicit, RapidSolicit ...); liveness (every call returns, Close returns) model-checked under weak fairness with a wrong design that must violate it; TLC validates every execution (a Tick while the specification still has an enabled internal step, or a wake-up at the wrong instant, is rejected); leaving the synctest bubble requires every client goroutine to have exited",
         "TLC model check of timed Client.tla + trace validation of virtual-time executions of the real clients"),
 "C12": ("6", "same machinery as C11; the Schedule / NoRespAtBudget / NoTxAfterAccept properties of Client.tla are model-checked and every recorded Transmit must occur at start + T*(2^(i-1)-1) with identical bytes to the requested destination; NoResponse exactly at T*(2^n-1)",
         "TLC model check of timed Client.tla + trace validation of recorded transmissions"),
 "C14": ("6", "Server.tla (one or two goroutines running Serve: read, decode, skip or spawn handler, Close, handlers outliving later reads) model-checked exhaustively for ExactlyOnce/PeerRule/OwnMessage/ReturnOnlyOnError/LoopSurvives, wrong designs (stop on parse error, read buffer kept across iterations, read buffer shared by the loops) must fail; TLC -simulate behaviours and random scripts are executed on the real server4/server6 Serve loops over a scripted connection (gated, and in bursts of up to 120 queued datagrams with real parallelism between the loop and its handlers) and every recorded execution is validated by TLC",
         "TLC model check of Server.tla + TLC behaviours replayed into the real servers + trace validation"),
 "C18": ("6", "RawUdp.tla (RFC 791/768/1071 frame layout, ones'-complement checksums, frame acceptance and payload extraction) model-checked in a small scope (writer frames verify under an independent receiver-side check; reader returns exactly the matching payloads); every frame written by the real BroadcastRawUDPConn and every result of reading harness-built frame sequences is validated by TLC against the same operators",
         "TLC model check of RawUdp.tla + trace validation of written frames and read sequences"),
 "C19": ("6", "Label.tla: RFC 1035/4704 name-list decoder as a step machine (termination, totality, bounded work for every small byte string), encoder, and the Labels object (original bytes kept until the names change); every recorded rfc1035label FromBytes/ToBytes call, edit sequence on a parsed set, and decode through the DHCPv4/DHCPv6 options that carry names is validated by TLC under a three-way verdict (must accept / must reject / RFC-undefined)",
         "TLC model check of Label.tla step machine + trace validation of decode/encode/edit calls"),
 "C02": ("6", "Dhcp6Wire.tla: RFC 8415 / per-option RFC layouts as declarative layout tables with one generic decoder and encoder (model-checked: TLV scanner step machine vs recursive operator for every small TLV area; Dec6(Enc6(m)) = m over nested representative values of every option type); every recorded ToBytes/FromBytes of generated messages and relay chains holding every option type the library parses is validated: wire = Enc6(value), Dec6(wire) = value = decoded value",
         "TLC model check of Dhcp6Wire layout tables + trace validation of real ToBytes/FromBytes calls"),
 "C05": ("6", "every recorded dhcpv6.FromBytes / ParseOption call (exhaustive small TLV areas, per-option payload-length sweeps, valid payloads cut/extended, truncations, length perturbations, random) must agree with Dec6 of spec/Dhcp6Wire.tla under a three-way verdict (accept with exactly this value / reject / RFC-undefined)",
         "TLC exhaustive small-scope TLV scanner + trace validation of real FromBytes/ParseOption calls against Dec6"),
 "C17": ("6", "Dhcp4Opts.tla: RFC interpretation of every typed DHCPv4 option value (model-checked over every raw value of a small alphabet: total, ok exactly at the right lengths, never a partial value, set/get); every recorded accessor result for raw values of every length 0..64 (absent, zero, ones, type-structured random), long split values, and set->get through every typed constructor is validated by TLC",
         "TLC model check of Dhcp4Opts.tla + trace validation of real accessor calls"),
 "C16": ("6", "Dhcp6Build.tla: relay encapsulation/decapsulation and the advertise/request/reply/relay-reply builders as operators over the Dhcp6Wire value trees; a relay-chain machine is model-checked (decap(encap(m)) = m, hop count, innermost message at any depth also after Dec6(Enc6(.)), relay-reply mirrors every level); every recorded builder/relay call on generated chains of depth 1..16 and inner messages of every type is validated by TLC",
         "TLC model check of the relay-chain machine + trace validation of real builder calls"),
 "C15": ("6", "Dhcp4Build.tla: the DHCPv4 builders as ApplyAll(caller modifiers, ApplyAll(defaults, Base(xid))) over abstract packets; model-checked for reply/request correlation, renew/release rules and 'last modifier prevails' over small inputs x modifier lists; every recorded builder call (7 builders x generated/decoded inputs x 0..4 modifiers from 22 exported With* functions, modifier slice reused across calls) must equal Build(builder, input, modifiers)",
         "TLC model check of Dhcp4Build.tla + trace validation of real builder calls"),
 "C08": ("6", "Lifecycle.tla: memory made explicit (fields own a copy or reference a buffer; Scribble is an environment action); model-checked with the wrong-design switches (aliased field, pooled encode buffer) that must fail; every recorded life of a real decoded value (decode from a caller-owned slice, observe, overwrite the slice with 5 patterns, observe, overwrite a returned encoding while holding another, observe) is validated by TLC: all observations equal the first, which equals Dec4/Dec6/LabelDecode of the original bytes",
         "TLC model check of Lifecycle.tla + trace validation of decode/scribble/observe lives of real values"),
 "C20": ("6", "Lifecycle.tla Read actions leave every observation unchanged (model-checked; a mutating read must fail); recorded lives of real values (constructed, decoded, standalone option values) with every reflected niladic exported method called, observations (encoding, value tree, printed form) before/between/after, printed before and after the first encoding, validated by TLC: observations constant, repeated calls return equal results",
         "TLC model check of Lifecycle.tla + trace validation of read-only call sequences on real values"),
 "C03": ("6", "totality: every decode operator of the specification returns a value or an error for every small input (Total/Terminates invariants of MC_Label, MC_Dhcp4Scan), netboot outcomes are a total function (Netboot.tla, all conversations of 0..4 messages enumerated by TLC and replayed); every recorded run of the real decoding entry points and of every read-only use of the decoded values (reflection, builders, relay helpers, ztp/netboot extractors) on grammar-derived exhaustive, structurally mutated and large inputs must be crash-free and return within a watchdog",
         "TLC totality invariants + TLC-enumerated conversations replayed + trace validation of recorded runs (panic/timeout = no behaviour of the spec)"),
 "C13": ("6", "Lease.tla: the DISCOVER/OFFER, REQUEST/ACK|NAK (and SOLICIT/ADVERTISE, REQUEST/REPLY, rapid commit) exchanges against an adversarial environment, model-checked for LeaseRule/NakRule/RequestRule/IgnoreRule; every server behaviour with one reply per transmission (exhaustive) and simulated/exhaustive behaviours with two are played by a reactive scripted connection against the real nclient4.Request/Renew/Release and nclient6 Solicit/Request/RapidSolicit in virtual time; TLC compares transmissions and outcome with the expectation and judges every transmitted message with the Dhcp4Build/Dhcp6Build operators",
         "TLC model check of Lease.tla + TLC-enumerated server behaviours replayed into the real clients + trace validation with builder operators"),
 "C09": ("6", "Cost.tla: cost semantics of decoding (flat pass + one copy of the remainder per nesting level on decode and on re-encode), model-checked nesting machine (work <= n + 2*n*depth, at most quadratic) and the bound operators AllocBound(n, depth) / SizeBound(n); the real decoders are measured (bytes allocated by decode + re-encode + one read of every DHCPv4 typed value, reflective retained size, in a child process with a time limit; also through server4/server6 with the default logger) on the witness families the cost semantics exposes, at sizes up to 65507 bytes, and TLC evaluates the bounds on every measurement; one known finding (compression-pointer fan) is listed in known_findings.txt",
         "TLC model check of the nesting-cost machine + trace validation of measured allocation against the spec's bound operators"),
}

def main():
    checks = []
    for pid in sorted(CHECKS):
        sec, text, tech = CHECKS[pid]
        checks.append({
            "property_id": pid,
            "quick_cmd": "./check %s --tier quick" % pid,
            "thorough_cmd": "./check %s --tier thorough" % pid,
            "evidence_file": "/verif/evidence/%s.json" % pid,
            "replay_cmd_template": "./check %s --replay {path}" % pid,
            "engine": "tla-spec",
            "level_claimed": {"category": "model_checking", "text": text, "design_ref": "DESIGN.md section 5 (%s)" % pid},
            "level_note": "Trusted: TLC 1.8, the Go harness projection (reads exported fields only), the RFC reading written down in spec/*.tla. Bounded: exhaustive only inside the stated small scopes; sampled (seeded) beyond.",
            "technique": tech,
        })
    props = [json.loads(l)["id"] for l in open(os.path.join(HERE, "properties.jsonl"))]
    na = [{"property_id": p, "reason": "check not built yet in this round (planned, see DESIGN.md section 12); not claimed"} for p in props if p not in CHECKS]
    hooks = []
    try:
        out = subprocess.run(["git", "-C", "/repo", "log", "--format=%H %s"], capture_output=True, text=True).stdout
        hooks = [l.split()[0] for l in out.splitlines() if " verif-hook:" in l or l.split(" ", 1)[1].startswith("verif-hook")]
    except Exception:
        pass
    m = {
        "version": 1,
        "setup_cmd": "./check setup",
        "hooks": {"guard": "verif", "enable": "go1.26 build -tags verif (harness module with replace => /repo)",
                  "baseline_off_cmd": "cd /repo && GOFLAGS=-mod=mod GOPROXY=off GOSUMDB=off go test -vet=off -count=1 ./...",
                  "source_commits": hooks, "add_only": True},
        "engines": [{"name": "tla-spec", "path": "/verif/spec", "serves_properties": sorted(CHECKS),
                     "kind_free_text": "explicit TLA+ specification checked with TLC; bound to the code by trace validation (impl->spec) and replay of TLC behaviours (spec->impl) through /verif/harness"}],
        "checks": checks,
        "not_applicable": na,
        "notes": "See DESIGN.md. ./check exits 0/1/2 (held / violation on real code / infrastructure).",
    }
    json.dump(m, open(os.path.join(HERE, "MANIFEST.json"), "w"), indent=1)

main()
